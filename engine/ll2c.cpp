// ll2c: LLVM-14 IR -> C, for bounded model checking of C++ code with CBMC's C front end.
//
//   ll2c in.ll -o out.c [--header out.h] [--stub <fn>]... [--nlx] [--entry-assert <fn>=<cond>]...
//
// * every LLVM pointer is uint8_t*; struct types are mirrored (with _Static_asserts on layout);
//   arrays are wrapped in structs; GEPs become typed member expressions;
// * integers are unsigned C types with explicit masking / sign reinterpretation;
// * virtual calls (callee loaded from a vtable slot) become an if-chain over the functions
//   found at that slot in the vtables present in the module (closed world = the module);
//   other indirect calls become an if-chain over address-taken functions of identical type;
// * --nlx models non-local exits: setjmp/longjmp and Itanium C++ EH (invoke/landingpad/resume/
//   __cxa_throw/...) by pending flags that are checked after every call.
// * external plain-C functions (malloc, fork, ...) are renamed ll2c_ext_<name>; the runtime
//   supplies their models.  Names starting with env_, h_, nondet_, ll2c_, __cxa, _Z are kept.
#include "llvm/IR/LLVMContext.h"
#include "llvm/IR/Module.h"
#include "llvm/IR/Constants.h"
#include "llvm/IR/Instructions.h"
#include "llvm/IR/IntrinsicInst.h"
#include "llvm/IR/DataLayout.h"
#include "llvm/IR/Operator.h"
#include "llvm/IR/CFG.h"
#include "llvm/IRReader/IRReader.h"
#include "llvm/Support/SourceMgr.h"
#include "llvm/Support/raw_ostream.h"
#include "llvm/Support/FileSystem.h"
#include <map>
#include <set>
#include <string>
#include <vector>
#include <sstream>
#include <regex>
using namespace llvm;
using std::string;

static const DataLayout* DL;
static Module* MOD;
static std::map<Type*, string> typeNames;
static std::vector<string> typeDefs;  // in dependency order
static std::map<const Value*, string> globalNames;
static std::set<string> stubs;  // functions to leave undefined (harness supplies the body)
static std::vector<std::regex> emptyRx;  // functions emitted with an empty body (contract-only: formatting etc.)
static std::vector<string> emptied;
static std::map<string, string> entryAsserts;
static bool NLX = false;
static bool HEAPCHK = false, HEAPCHK_ALL = false;
static std::map<const GlobalVariable*, int> tinfoIds;
static int nVirtualSites = 0, nIndirectSites = 0;
static long long LONGJMP_CONST = -1;  // value every longjmp of the module passes, when it is one non-zero constant

[[noreturn]] static void die(const string& m) { errs() << "ll2c: " << m << "\n"; exit(2); }

static string sanitize(StringRef n) {
  string s;
  for (char c : n) s += (isalnum((unsigned char)c) || c == '_') ? c : '_';
  if (s.empty() || isdigit((unsigned char)s[0])) s = "_" + s;
  return s;
}

static string ctype(Type* T);

static string defineStruct(StructType* ST) {
  auto it = typeNames.find(ST);
  if (it != typeNames.end()) return it->second;
  static int anon = 0;
  // C++ unions arrive as a struct of their largest member and are accessed through casts.  CBMC loses
  // pointer provenance when a pointer is stored into e.g. double-typed memory, so unions are emitted as
  // C unions that also have pointer- and word-typed views of the same bytes.
  bool isUnion = ST->hasName() && ST->getName().startswith("union.") && !ST->isOpaque();
  string name = string(isUnion ? "union ll_" : "struct ll_") + (ST->hasName() ? sanitize(ST->getName()) : ("anon" + std::to_string(anon++)));
  typeNames[ST] = name;
  if (ST->isOpaque()) { typeDefs.push_back(name + ";"); return name; }
  std::vector<string> fields;
  for (unsigned i = 0; i < ST->getNumElements(); i++) fields.push_back(ctype(ST->getElementType(i)));
  const StructLayout* SL = DL->getStructLayout(ST);
  std::ostringstream os;
  os << name << " {";
  if (isUnion) os << " struct {";
  for (unsigned i = 0; i < fields.size(); i++) os << " " << fields[i] << " f" << i << ";";
  if (fields.empty()) os << " uint8_t __empty[0];";
  if (isUnion) {
    os << " }" << (ST->isPacked() ? " __attribute__((packed))" : "") << ";";
    uint64_t n = SL->getSizeInBytes();
    if (n >= 8 && n % 8 == 0 && SL->getAlignment().value() >= 8) os << " uint8_t* ll_p[" << n / 8 << "]; uint64_t ll_w[" << n / 8 << "];";
    os << " };";
  } else
    os << " }" << (ST->isPacked() ? " __attribute__((packed))" : "") << ";";
  if (!fields.empty()) {
    os << "\n_Static_assert(sizeof(" << name << ")==" << SL->getSizeInBytes() << ", \"size " << name << "\");";
    for (unsigned i = 0; i < fields.size(); i++)
      os << "\n_Static_assert(__builtin_offsetof(" << name << ",f" << i << ")==" << SL->getElementOffset(i) << ", \"off\");";
  }
  typeDefs.push_back(os.str());
  return name;
}

static string ctype(Type* T) {
  if (T->isVoidTy()) return "void";
  if (T->isIntegerTy()) {
    unsigned b = T->getIntegerBitWidth();
    if (b <= 8) return "uint8_t";
    if (b <= 16) return "uint16_t";
    if (b <= 32) return "uint32_t";
    if (b <= 64) return "uint64_t";
    return "unsigned __int128";
  }
  if (T->isFloatTy()) return "float";
  if (T->isDoubleTy()) return "double";
  if (T->isX86_FP80Ty()) return "long double";
  if (T->isPointerTy()) return "uint8_t*";
  if (auto* ST = dyn_cast<StructType>(T)) return defineStruct(ST);
  if (auto* AT = dyn_cast<ArrayType>(T)) {
    auto it = typeNames.find(AT);
    if (it != typeNames.end()) return it->second;
    string el = ctype(AT->getElementType());
    static int an = 0;
    string name = "struct ll_arr" + std::to_string(an++);
    typeNames[AT] = name;
    std::ostringstream os;
    os << name << " { " << el << " a[" << AT->getNumElements() << "]; };";
    typeDefs.push_back(os.str());
    return name;
  }
  string s; raw_string_ostream o(s); o << *T;
  die("unsupported type: " + o.str());
}

static string stype(Type* T) {  // signed counterpart
  unsigned b = T->getIntegerBitWidth();
  if (b <= 8) return "int8_t";
  if (b <= 16) return "int16_t";
  if (b <= 32) return "int32_t";
  if (b <= 64) return "int64_t";
  return "__int128";
}

struct SjSite { string bufVar, retLabel; };
struct FnCtx {
  std::map<const Value*, string> names;
  int n = 0;
  std::map<const BasicBlock*, string> labels;
  std::vector<SjSite> sj;
  string zeroRet;  // "return;" or "return (T)0;" text
};

static string constExpr(const Constant* C);
static string gepExpr(Type* srcTy, const string& base, ArrayRef<const Value*> idx, FnCtx* F);
static string val(const Value* V, FnCtx* F);

static string maskTo(Type* T, const string& e) {
  unsigned b = T->getIntegerBitWidth();
  if (b == 8 || b == 16 || b == 32 || b == 64 || b == 128) return "((" + ctype(T) + ")(" + e + "))";
  uint64_t m = (b >= 64) ? ~0ULL : ((1ULL << b) - 1);
  return "((" + ctype(T) + ")((" + e + ") & " + std::to_string(m) + "ULL))";
}
static string sext(Type* T, const string& e) {  // e (unsigned C value of int type T) as a signed native value
  unsigned b = T->getIntegerBitWidth();
  if (b == 8 || b == 16 || b == 32 || b == 64 || b == 128) return "((" + stype(T) + ")(" + e + "))";
  if (b == 1) return "((int8_t)-(int8_t)((" + e + ")&1))";
  unsigned w = b <= 8 ? 8 : b <= 16 ? 16 : b <= 32 ? 32 : 64;
  return "((" + stype(T) + ")((" + stype(T) + ")((" + ctype(T) + ")(" + e + ") << " + std::to_string(w - b) + ") >> " + std::to_string(w - b) + "))";
}

static string fpLit(const APFloat& f, Type* T) {
  bool isDouble = T->isDoubleTy();
  if (T->isX86_FP80Ty()) {
    bool lost; APFloat d = f; d.convert(APFloat::IEEEdouble(), APFloat::rmNearestTiesToEven, &lost);
    char buf[64]; snprintf(buf, sizeof buf, "%a", d.convertToDouble());
    return string("((long double)") + buf + ")";
  }
  if (f.isNaN()) return isDouble ? "(__builtin_nan(\"\"))" : "(__builtin_nanf(\"\"))";
  if (f.isInfinity()) return string(f.isNegative() ? "(-" : "(") + (isDouble ? "__builtin_inf())" : "__builtin_inff())");
  char buf[64];
  double d = isDouble ? f.convertToDouble() : (double)f.convertToFloat();
  snprintf(buf, sizeof buf, "%a", d);
  return string("(") + buf + (isDouble ? ")" : "f)");
}

static string aggInit(const Constant* C) {  // brace initializer for globals / aggregate constants
  Type* T = C->getType();
  if (isa<ConstantAggregateZero>(C) || isa<UndefValue>(C)) {
    if (T->isStructTy() || T->isArrayTy()) return "{0}";
    return constExpr(C);
  }
  if (auto* CA = dyn_cast<ConstantArray>(C)) {
    string s = "{{";
    for (unsigned i = 0; i < CA->getNumOperands(); i++) s += (i ? "," : "") + aggInit(CA->getOperand(i));
    return s + "}}";
  }
  if (auto* CD = dyn_cast<ConstantDataSequential>(C)) {
    string s = "{{";
    for (unsigned i = 0; i < CD->getNumElements(); i++) s += (i ? "," : "") + aggInit(CD->getElementAsConstant(i));
    return s + "}}";
  }
  if (auto* CS = dyn_cast<ConstantStruct>(C)) {
    if (CS->getNumOperands() == 0) return "{}";
    string s = "{";
    for (unsigned i = 0; i < CS->getNumOperands(); i++) s += (i ? "," : "") + aggInit(CS->getOperand(i));
    return s + "}";
  }
  return constExpr(C);
}

static string constExpr(const Constant* C) {
  Type* T = C->getType();
  if (auto* CI = dyn_cast<ConstantInt>(C)) {
    if (T->getIntegerBitWidth() > 64) {
      const APInt& v = CI->getValue();
      uint64_t lo = v.extractBitsAsZExtValue(64, 0), hi = v.extractBitsAsZExtValue(std::min(64u, T->getIntegerBitWidth() - 64), 64);
      return "((((unsigned __int128)" + std::to_string(hi) + "ULL)<<64)|" + std::to_string(lo) + "ULL)";
    }
    return "((" + ctype(T) + ")" + std::to_string(CI->getZExtValue()) + "ULL)";
  }
  if (auto* CF = dyn_cast<ConstantFP>(C)) return fpLit(CF->getValueAPF(), T);
  if (isa<ConstantPointerNull>(C)) return "((uint8_t*)0)";
  if (isa<UndefValue>(C)) {
    if (T->isPointerTy()) return "((uint8_t*)0)";
    if (T->isIntegerTy()) return "((" + ctype(T) + ")0)";
    if (T->isFloatingPointTy()) return "0.0";
    return "(" + ctype(T) + "){0}";
  }
  if (isa<GlobalVariable>(C) || isa<Function>(C)) return "((uint8_t*)&" + globalNames[C] + ")";
  if (auto* GA = dyn_cast<GlobalAlias>(C)) return constExpr(GA->getAliasee());
  if (auto* CE = dyn_cast<ConstantExpr>(C)) {
    switch (CE->getOpcode()) {
      case Instruction::BitCast: case Instruction::AddrSpaceCast:
        if (T->isPointerTy()) return constExpr(CE->getOperand(0));
        break;
      case Instruction::GetElementPtr: {
        auto* G = cast<GEPOperator>(CE);
        std::vector<const Value*> idx;
        for (auto it = G->idx_begin(); it != G->idx_end(); ++it) idx.push_back(*it);
        return gepExpr(G->getSourceElementType(), constExpr(CE->getOperand(0)), idx, nullptr);
      }
      case Instruction::PtrToInt: return "((" + ctype(T) + ")(uintptr_t)" + constExpr(CE->getOperand(0)) + ")";
      case Instruction::IntToPtr: return "((uint8_t*)(uintptr_t)" + constExpr(CE->getOperand(0)) + ")";
      default: break;
    }
    string s; raw_string_ostream o(s); o << *CE;
    die("unsupported constexpr: " + o.str());
  }
  if (isa<ConstantAggregateZero>(C) || isa<ConstantAggregate>(C) || isa<ConstantDataSequential>(C))
    return "((" + ctype(T) + ")" + aggInit(C) + ")";
  string s; raw_string_ostream o(s); o << *C;
  die("unsupported constant: " + o.str());
}

static string val(const Value* V, FnCtx* F) {
  if (auto* C = dyn_cast<Constant>(V)) return constExpr(C);
  if (!F) die("non-constant in constant context");
  auto it = F->names.find(V);
  if (it != F->names.end()) return it->second;
  string n = "v" + std::to_string(F->n++);
  F->names[V] = n;
  return n;
}

static string gepExpr(Type* srcTy, const string& base, ArrayRef<const Value*> idx, FnCtx* F) {
  string e = "((" + ctype(srcTy) + "*)" + base + ")";
  Type* cur = srcTy;
  bool first = true;
  string acc;
  for (const Value* I : idx) {
    string iv;
    if (auto* CI = dyn_cast<ConstantInt>(I)) iv = std::to_string(CI->getSExtValue());
    else iv = "(int64_t)" + sext(I->getType(), val(I, F));
    if (first) { acc = e + "[" + iv + "]"; first = false; continue; }
    if (auto* ST = dyn_cast<StructType>(cur)) {
      unsigned k = cast<ConstantInt>(I)->getZExtValue();
      acc += ".f" + std::to_string(k);
      cur = ST->getElementType(k);
    } else if (auto* AT = dyn_cast<ArrayType>(cur)) {
      acc += ".a[" + iv + "]";
      cur = AT->getElementType();
    } else die("gep into non-aggregate");
  }
  if (first) return base;
  return "((uint8_t*)&" + acc + ")";
}

static string fnProto(const Function& Fn, bool withNames, FnCtx* F) {
  FunctionType* FT = Fn.getFunctionType();
  string s = ctype(FT->getReturnType()) + " " + globalNames[&Fn] + "(";
  unsigned i = 0;
  for (auto& A : Fn.args()) {
    if (i++) s += ", ";
    s += ctype(A.getType());
    if (withNames) s += " " + val(&A, F);
  }
  if (FT->isVarArg()) s += i ? ", ..." : "...";
  else if (i == 0) s += "void";
  return s + ")";
}

static string fnPtrCast(FunctionType* FT) {
  string s = "(" + ctype(FT->getReturnType()) + "(*)(";
  for (unsigned i = 0; i < FT->getNumParams(); i++) s += (i ? "," : "") + ctype(FT->getParamType(i));
  if (FT->isVarArg()) s += FT->getNumParams() ? ",..." : "...";
  else if (FT->getNumParams() == 0) s += "void";
  return s + "))";
}

static void emitEdge(const BasicBlock* from, const BasicBlock* to, FnCtx& F, raw_ostream& O) {
  std::vector<std::pair<string, string>> copies;
  for (auto& I : *to) {
    auto* P = dyn_cast<PHINode>(&I);
    if (!P) break;
    copies.push_back({val(P, &F), val(P->getIncomingValueForBlock(from), &F)});
  }
  if (copies.size() == 1) O << copies[0].first << " = " << copies[0].second << "; ";
  else if (!copies.empty()) {
    O << "{ ";
    int k = 0;
    for (auto& c : copies) O << "__typeof__(" << c.first << ") t" << k++ << " = " << c.second << "; ";
    k = 0;
    for (auto& c : copies) O << c.first << " = t" << k++ << "; ";
    O << "} ";
  }
  O << "goto " << F.labels[to] << ";";
}

// ---- type-info helpers for the EH model -------------------------------------------------
static int tinfoId(const Value* V) {
  V = V->stripPointerCasts();
  if (isa<ConstantPointerNull>(V)) return 0x7fff;  // catch (...)
  auto* GV = dyn_cast<GlobalVariable>(V);
  if (!GV) die("typeinfo clause is not a global");
  auto it = tinfoIds.find(GV);
  if (it != tinfoIds.end()) return it->second;
  int id = (int)tinfoIds.size() + 1;
  tinfoIds[GV] = id;
  return id;
}

static string baseName(StructType* ST) {
  if (!ST->hasName()) return "";
  string n = ST->getName().str();
  // strip llvm-link's numeric uniquifier (".123") and clang's tail-padding variant (".base")
  auto stripNum = [&]() {
    size_t dot = n.rfind('.');
    if (dot == string::npos || dot + 1 >= n.size()) return;
    for (size_t i = dot + 1; i < n.size(); i++) if (!isdigit((unsigned char)n[i])) return;
    n = n.substr(0, dot);
  };
  stripNum();
  if (n.size() > 5 && n.compare(n.size() - 5, 5, ".base") == 0) n = n.substr(0, n.size() - 5);
  stripNum();
  return n;
}
static bool derivesFrom(Type* X, StructType* B, int depth = 0) {
  auto* SX = dyn_cast<StructType>(X);
  if (!SX || depth > 8) return false;
  if (SX == B || (!baseName(SX).empty() && baseName(SX) == baseName(B))) return true;
  if (SX->isOpaque()) return false;
  for (unsigned i = 0; i < SX->getNumElements(); i++)
    if (derivesFrom(SX->getElementType(i), B, depth + 1)) return true;
  return false;
}
// class of the implicit object argument (`this`) of a member function / a virtual call
static StructType* thisClass(Type* firstParam) {
  if (!firstParam || !firstParam->isPointerTy()) return nullptr;
  return dyn_cast<StructType>(firstParam->getPointerElementType());
}

// candidates for a virtual call through slot `slot`
static std::vector<const Function*> vtableCandidates(int64_t slot, const CallBase* CB) {
  std::vector<const Function*> cands;
  std::set<const Function*> seen;
  for (auto& GV : MOD->globals()) {
    if (!GV.getName().startswith("_ZTV") || !GV.hasInitializer()) continue;
    auto* CS = dyn_cast<ConstantStruct>(GV.getInitializer());
    if (!CS) continue;
    for (unsigned a = 0; a < CS->getNumOperands(); a++) {
      auto* CAr = dyn_cast<ConstantArray>(CS->getOperand(a));
      if (!CAr) continue;
      if ((int64_t)CAr->getNumOperands() <= 2 + slot) continue;
      auto* Fc = dyn_cast<Function>(CAr->getOperand(2 + slot)->stripPointerCasts());
      if (!Fc || seen.count(Fc)) continue;
      // static type filter: the implementation's class must be the call's static class or derive from it
      // (or the other way round, when the call goes through a derived-class pointer to an inherited function)
      if (CB->arg_size() > 0 && Fc->arg_size() > 0) {
        StructType* want = thisClass(CB->getArgOperand(0)->getType());
        StructType* have = thisClass(Fc->getFunctionType()->getParamType(0));
        if (want && have && !want->isOpaque() && !have->isOpaque() && !derivesFrom(have, want) && !derivesFrom(want, have)) continue;
      }
      if (Fc->getFunctionType() != CB->getFunctionType()) {
        // thunks / covariant returns may differ in pointer types only: compare C-level shapes
        if (Fc->arg_size() != CB->arg_size()) continue;
        if (ctype(Fc->getReturnType()) != ctype(CB->getType())) continue;
        bool ok = true;
        for (unsigned k = 0; k < CB->arg_size() && ok; k++)
          if (ctype(Fc->getFunctionType()->getParamType(k)) != ctype(CB->getArgOperand(k)->getType())) ok = false;
        if (!ok) continue;
      }
      seen.insert(Fc);
      cands.push_back(Fc);
    }
  }
  return cands;
}

static bool addressTakenOutsideVtables(const Function& Fn) {
  for (const Use& U : Fn.uses()) {
    const User* Us = U.getUser();
    if (auto* CB = dyn_cast<CallBase>(Us))
      if (CB->isCallee(&U)) continue;
    // look through constant casts to find whether the ultimate user is a vtable initialiser
    std::vector<const User*> work{Us};
    std::set<const User*> seen;
    bool nonVt = false;
    while (!work.empty() && !nonVt) {
      const User* X = work.back(); work.pop_back();
      if (!seen.insert(X).second) continue;
      if (auto* GV = dyn_cast<GlobalVariable>(X)) { if (!GV->getName().startswith("_ZTV")) nonVt = true; continue; }
      if (isa<Instruction>(X)) { nonVt = true; continue; }
      if (isa<Constant>(X)) { if (X->use_empty()) continue; for (const User* UU : X->users()) work.push_back(UU); continue; }
      nonVt = true;
    }
    if (nonVt) return true;
  }
  return false;
}

static std::vector<const Function*> indirectCandidates(const CallBase* CB) {
  std::vector<const Function*> cands;
  for (auto& Fn : *MOD) {
    if (Fn.isIntrinsic()) continue;
    if (Fn.getFunctionType() != CB->getFunctionType()) continue;
    if (!addressTakenOutsideVtables(Fn)) continue;
    cands.push_back(&Fn);
  }
  return cands;
}

static bool isNamed(const Function* F, std::initializer_list<const char*> names) {
  if (!F) return false;
  for (auto* n : names) if (F->getName() == n) return true;
  return false;
}

static void emitFunction(const Function& Fn, raw_ostream& O) {
  FnCtx F;
  int bi = 0;
  for (auto& BB : Fn) F.labels[&BB] = "bb" + std::to_string(bi++);
  string body;
  raw_string_ostream B(body);
  const Value* lastNamedParam = nullptr;
  for (auto& A : Fn.args()) lastNamedParam = &A;
  string proto = fnProto(Fn, true, &F);
  Type* RT = Fn.getReturnType();
  if (RT->isVoidTy()) F.zeroRet = "return;";
  else if (RT->isStructTy() || RT->isArrayTy()) F.zeroRet = "{ " + ctype(RT) + " z = {0}; return z; }";
  else F.zeroRet = "return (" + ctype(RT) + ")0;";
  string sjDecls;

  // after a call: propagate / dispatch pending non-local exits
  auto nlxCheck = [&](const InvokeInst* Inv, const BasicBlock* BB) {
    if (!NLX) return;
    B << "  if (ll2c_jmp.pending) { ";
    for (auto& s : F.sj) B << "if (ll2c_jmp.buf == " << s.bufVar << ") goto " << s.retLabel << "; ";
    B << F.zeroRet << " }\n";
    B << "  if (ll2c_exc.pending) { ";
    if (Inv) emitEdge(BB, Inv->getUnwindDest(), F, B);
    else B << F.zeroRet;
    B << " }\n";
  };
  // setjmp sites must be known before the first call is emitted: pre-scan
  if (NLX)
    for (auto& BB : Fn)
      for (auto& I : BB)
        if (auto* CB = dyn_cast<CallBase>(&I))
          if (isNamed(CB->getCalledFunction(), {"_setjmp", "setjmp", "__sigsetjmp", "sigsetjmp"})) {
            int k = (int)F.sj.size();
            F.sj.push_back({"sj" + std::to_string(k) + "_buf", "sj" + std::to_string(k) + "_ret"});
            sjDecls += "  uint8_t* sj" + std::to_string(k) + "_buf = 0;\n";
          }
  int sjNext = 0;

  if (entryAsserts.count(Fn.getName().str())) B << "  ll2c_entry_assert(" << entryAsserts[Fn.getName().str()] << ", \"" << Fn.getName() << "\");\n";

  for (auto& BB : Fn) {
    B << F.labels[&BB] << ": ;\n";
    for (auto& I : BB) {
      if (isa<PHINode>(I)) { val(&I, &F); continue; }
      if (isa<DbgInfoIntrinsic>(I)) continue;
      Type* T = I.getType();
      auto op = [&](unsigned k) { return val(I.getOperand(k), &F); };
      auto def = [&](const string& e) { B << "  " << val(&I, &F) << " = " << e << ";\n"; };
      if (auto* AI = dyn_cast<AllocaInst>(&I)) {
        if (!AI->isStaticAlloca()) die("dynamic alloca in " + Fn.getName().str());
        Type* AT = AI->getAllocatedType();
        string slot = val(&I, &F) + "_slot";
        bool isVa = false;
        if (auto* ArT = dyn_cast<ArrayType>(AT))
          if (auto* ST = dyn_cast<StructType>(ArT->getElementType()))
            if (ST->hasName() && ST->getName() == "struct.__va_list_tag") isVa = true;
        if (isVa) B << "  va_list " << slot << "; " << val(&I, &F) << " = (uint8_t*)&" << slot << ";\n";
        else B << "  " << ctype(AT) << " " << slot << "; " << val(&I, &F) << " = (uint8_t*)&" << slot << ";\n";
        continue;
      }
      if (isa<LoadInst>(&I)) {
        if (HEAPCHK && (HEAPCHK_ALL || T->isIntegerTy(8))) B << "  ll2c_chk(" << op(0) << ", " << DL->getTypeStoreSize(T).getFixedSize() << ");\n";
        def("*(" + ctype(T) + "*)" + op(0));
        continue;
      }
      if (auto* SI = dyn_cast<StoreInst>(&I)) {
        if (HEAPCHK && (HEAPCHK_ALL || SI->getValueOperand()->getType()->isIntegerTy(8))) B << "  ll2c_chk(" << op(1) << ", " << DL->getTypeStoreSize(SI->getValueOperand()->getType()).getFixedSize() << ");\n";
        B << "  *(" << ctype(SI->getValueOperand()->getType()) << "*)" << op(1) << " = " << op(0) << ";\n";
        continue;
      }
      if (auto* G = dyn_cast<GetElementPtrInst>(&I)) {
        std::vector<const Value*> idx(G->idx_begin(), G->idx_end());
        def(gepExpr(G->getSourceElementType(), op(0), idx, &F));
        continue;
      }
      if (auto* BO = dyn_cast<BinaryOperator>(&I)) {
        string a = op(0), b = op(1), e;
        if (T->isFloatingPointTy()) {
          const char* o = BO->getOpcode() == Instruction::FAdd ? "+" : BO->getOpcode() == Instruction::FSub ? "-" : BO->getOpcode() == Instruction::FMul ? "*" : BO->getOpcode() == Instruction::FDiv ? "/" : nullptr;
          if (!o) die("frem");
          def("(" + a + " " + o + " " + b + ")");
          continue;
        }
        string ut = ctype(T);
        bool wide = T->getIntegerBitWidth() > 64;
        string W = wide ? "(unsigned __int128)" : "(uint64_t)", S = wide ? "(__int128)" : "(int64_t)";
        string wa = "(" + W + a + ")", wb = "(" + W + b + ")";
        switch (BO->getOpcode()) {
          case Instruction::Add: e = maskTo(T, wa + " + " + wb); break;
          case Instruction::Sub: e = maskTo(T, wa + " - " + wb); break;
          case Instruction::Mul: e = maskTo(T, wa + " * " + wb); break;
          case Instruction::UDiv: e = maskTo(T, a + " / " + b); break;
          case Instruction::URem: e = maskTo(T, a + " % " + b); break;
          case Instruction::SDiv: e = maskTo(T, "ll2c_sdiv(" + S + sext(T, a) + ", " + S + sext(T, b) + ")"); break;
          case Instruction::SRem: e = maskTo(T, "ll2c_srem(" + S + sext(T, a) + ", " + S + sext(T, b) + ")"); break;
          case Instruction::And: e = "((" + ut + ")(" + a + " & " + b + "))"; break;
          case Instruction::Or: e = "((" + ut + ")(" + a + " | " + b + "))"; break;
          case Instruction::Xor: e = "((" + ut + ")(" + a + " ^ " + b + "))"; break;
          case Instruction::Shl: e = maskTo(T, wa + " << " + b); break;
          case Instruction::LShr: e = maskTo(T, wa + " >> " + b); break;
          case Instruction::AShr: e = maskTo(T, S + sext(T, a) + " >> " + b); break;
          default: die("binop");
        }
        def(e);
        continue;
      }
      if (auto* CI = dyn_cast<ICmpInst>(&I)) {
        Type* OT = CI->getOperand(0)->getType();
        string a = op(0), b = op(1);
        if (OT->isPointerTy()) { if (!CI->isEquality()) { a = "(uintptr_t)" + a; b = "(uintptr_t)" + b; } }
        else if (CmpInst::isSigned(CI->getPredicate())) { a = sext(OT, a); b = sext(OT, b); }
        const char* o;
        switch (CI->getPredicate()) {
          case CmpInst::ICMP_EQ: o = "=="; break;
          case CmpInst::ICMP_NE: o = "!="; break;
          case CmpInst::ICMP_UGT: case CmpInst::ICMP_SGT: o = ">"; break;
          case CmpInst::ICMP_UGE: case CmpInst::ICMP_SGE: o = ">="; break;
          case CmpInst::ICMP_ULT: case CmpInst::ICMP_SLT: o = "<"; break;
          default: o = "<="; break;
        }
        def("(uint8_t)(" + a + " " + o + " " + b + ")");
        continue;
      }
      if (auto* FC = dyn_cast<FCmpInst>(&I)) {
        string a = op(0), b = op(1), e;
        auto ord = "(" + a + "==" + a + " && " + b + "==" + b + ")";
        auto uno = "(" + a + "!=" + a + " || " + b + "!=" + b + ")";
        switch (FC->getPredicate()) {
          case CmpInst::FCMP_OEQ: e = a + "==" + b; break;
          case CmpInst::FCMP_OGT: e = a + ">" + b; break;
          case CmpInst::FCMP_OGE: e = a + ">=" + b; break;
          case CmpInst::FCMP_OLT: e = a + "<" + b; break;
          case CmpInst::FCMP_OLE: e = a + "<=" + b; break;
          case CmpInst::FCMP_ONE: e = ord + " && " + a + "!=" + b; break;
          case CmpInst::FCMP_ORD: e = ord; break;
          case CmpInst::FCMP_UNO: e = uno; break;
          case CmpInst::FCMP_UEQ: e = uno + " || " + a + "==" + b; break;
          case CmpInst::FCMP_UNE: e = a + "!=" + b; break;
          case CmpInst::FCMP_UGT: e = "!(" + a + "<=" + b + ")"; break;
          case CmpInst::FCMP_UGE: e = "!(" + a + "<" + b + ")"; break;
          case CmpInst::FCMP_ULT: e = "!(" + a + ">=" + b + ")"; break;
          case CmpInst::FCMP_ULE: e = "!(" + a + ">" + b + ")"; break;
          case CmpInst::FCMP_TRUE: e = "1"; break;
          default: e = "0"; break;
        }
        def("(uint8_t)(" + e + ")");
        continue;
      }
      if (auto* CA = dyn_cast<CastInst>(&I)) {
        Type* ST = CA->getSrcTy();
        string a = op(0);
        switch (CA->getOpcode()) {
          case Instruction::Trunc: def(maskTo(T, a)); break;
          case Instruction::ZExt: def("((" + ctype(T) + ")" + a + ")"); break;
          case Instruction::SExt: def(maskTo(T, (T->getIntegerBitWidth() > 64 ? "(__int128)" : "(int64_t)") + sext(ST, a))); break;
          case Instruction::PtrToInt: def("((" + ctype(T) + ")(uintptr_t)" + a + ")"); break;
          case Instruction::IntToPtr: def("((uint8_t*)(uintptr_t)" + a + ")"); break;
          case Instruction::BitCast:
            if (T->isPointerTy()) def(a);
            else B << "  { " << ctype(ST) << " tmpb = " << a << "; memcpy(&" << val(&I, &F) << ", &tmpb, sizeof(" << val(&I, &F) << ")); }\n";
            break;
          case Instruction::SIToFP: def("((" + ctype(T) + ")" + sext(ST, a) + ")"); break;
          case Instruction::UIToFP: def("((" + ctype(T) + ")" + a + ")"); break;
          case Instruction::FPToSI: def(maskTo(T, "(int64_t)" + a)); break;
          case Instruction::FPToUI: def("((" + ctype(T) + ")" + a + ")"); break;
          case Instruction::FPExt: case Instruction::FPTrunc: def("((" + ctype(T) + ")" + a + ")"); break;
          default: die("cast");
        }
        continue;
      }
      if (isa<SelectInst>(&I)) { def("(" + op(0) + " ? " + op(1) + " : " + op(2) + ")"); continue; }
      if (auto* EV = dyn_cast<ExtractValueInst>(&I)) {
        string e = op(0);
        Type* cur = EV->getAggregateOperand()->getType();
        for (unsigned k : EV->indices()) {
          if (auto* st = dyn_cast<StructType>(cur)) { e += ".f" + std::to_string(k); cur = st->getElementType(k); }
          else { e += ".a[" + std::to_string(k) + "]"; cur = cast<ArrayType>(cur)->getElementType(); }
        }
        def(e);
        continue;
      }
      if (auto* IV = dyn_cast<InsertValueInst>(&I)) {
        B << "  " << val(&I, &F) << " = " << op(0) << "; ";
        string e = val(&I, &F);
        Type* cur = T;
        for (unsigned k : IV->indices()) {
          if (auto* st = dyn_cast<StructType>(cur)) { e += ".f" + std::to_string(k); cur = st->getElementType(k); }
          else { e += ".a[" + std::to_string(k) + "]"; cur = cast<ArrayType>(cur)->getElementType(); }
        }
        B << e << " = " << op(1) << ";\n";
        continue;
      }
      if (auto* LP = dyn_cast<LandingPadInst>(&I)) {
        // {i8* obj, i32 selector}
        string v = val(&I, &F);
        B << "  " << v << ".f0 = ll2c_exc.obj; " << v << ".f1 = 0; ll2c_exc.pending = 0;\n";
        bool done = false;
        for (unsigned k = 0; k < LP->getNumClauses() && !done; k++) {
          if (!LP->isCatch(k)) die("filter clause in landingpad (compile with -std=gnu++11 or later): " + Fn.getName().str());
          const Value* cl = LP->getClause(k)->stripPointerCasts();
          int id = tinfoId(cl);
          if (isa<ConstantPointerNull>(cl)) { B << "  if (" << v << ".f1 == 0) " << v << ".f1 = " << id << ";\n"; done = true; }
          else B << "  if (" << v << ".f1 == 0 && ll2c_tinfo_match(ll2c_exc.type, " << val(cl, &F) << ")) " << v << ".f1 = " << id << ";\n";
        }
        continue;
      }
      if (isa<ResumeInst>(&I)) {
        B << "  ll2c_exc.pending = 1; " << F.zeroRet << "\n";
        continue;
      }
      if (auto* CB = dyn_cast<CallBase>(&I)) {
        const Function* Callee = CB->getCalledFunction();
        if (!Callee)
          if (auto* Fa = dyn_cast<Function>(CB->getCalledOperand()->stripPointerCastsAndAliases())) {
            // a call through a constant bitcast (e.g. a base-class destructor called on a derived type):
            // direct when the C-level shapes agree (all pointers are uint8_t*)
            bool ok = Fa->arg_size() == CB->arg_size() && !Fa->isVarArg() && ctype(Fa->getReturnType()) == ctype(CB->getType());
            for (unsigned k = 0; ok && k < CB->arg_size(); k++)
              if (ctype(Fa->getFunctionType()->getParamType(k)) != ctype(CB->getArgOperand(k)->getType())) ok = false;
            if (Fa->getFunctionType() == CB->getFunctionType() || ok) Callee = Fa;
          }
        const InvokeInst* Inv = dyn_cast<InvokeInst>(CB);
        auto arg = [&](unsigned k) { return val(CB->getArgOperand(k), &F); };
        auto finishInvoke = [&]() { if (Inv) { B << "  "; emitEdge(&BB, Inv->getNormalDest(), F, B); B << "\n"; } };
        if (Callee && Callee->isIntrinsic()) {
          switch (Callee->getIntrinsicID()) {
            case Intrinsic::lifetime_start: case Intrinsic::lifetime_end: case Intrinsic::dbg_declare: case Intrinsic::dbg_value:
            case Intrinsic::experimental_noalias_scope_decl: case Intrinsic::assume: case Intrinsic::donothing:
              finishInvoke(); continue;
            case Intrinsic::memcpy: case Intrinsic::memmove:
              if (HEAPCHK) B << "  ll2c_chk(" << arg(0) << ", " << arg(2) << "); ll2c_chk(" << arg(1) << ", " << arg(2) << ");\n";
              B << "  " << (Callee->getIntrinsicID() == Intrinsic::memcpy ? "memcpy(" : "memmove(") << arg(0) << "," << arg(1) << "," << arg(2) << ");\n"; continue;
            case Intrinsic::memset:
              if (HEAPCHK) B << "  ll2c_chk(" << arg(0) << ", " << arg(2) << ");\n";
              B << "  memset(" << arg(0) << "," << arg(1) << "," << arg(2) << ");\n"; continue;
            case Intrinsic::vastart: B << "  va_start(*(va_list*)" << arg(0) << ", " << val(lastNamedParam, &F) << ");\n"; continue;
            case Intrinsic::vaend: B << "  va_end(*(va_list*)" << arg(0) << ");\n"; continue;
            case Intrinsic::vacopy: B << "  va_copy(*(va_list*)" << arg(0) << ", *(va_list*)" << arg(1) << ");\n"; continue;
            case Intrinsic::umul_with_overflow: case Intrinsic::uadd_with_overflow: case Intrinsic::usub_with_overflow: {
              const char* o = Callee->getIntrinsicID() == Intrinsic::umul_with_overflow ? "mul" : Callee->getIntrinsicID() == Intrinsic::uadd_with_overflow ? "add" : "sub";
              B << "  " << val(&I, &F) << ".f1 = (uint8_t)__builtin_" << o << "_overflow(" << arg(0) << "," << arg(1) << ",&" << val(&I, &F) << ".f0);\n";
              continue;
            }
            case Intrinsic::fabs: def("__builtin_fabs(" + arg(0) + ")"); continue;
            case Intrinsic::trap: B << "  ll2c_trap();\n"; continue;
            case Intrinsic::expect: def(arg(0)); continue;
            case Intrinsic::eh_typeid_for: def("((uint32_t)" + std::to_string(tinfoId(CB->getArgOperand(0))) + ")"); continue;
            case Intrinsic::stacksave: def("((uint8_t*)0)"); continue;
            case Intrinsic::stackrestore: continue;
            case Intrinsic::umax: def("(" + arg(0) + " > " + arg(1) + " ? " + arg(0) + " : " + arg(1) + ")"); continue;
            case Intrinsic::umin: def("(" + arg(0) + " < " + arg(1) + " ? " + arg(0) + " : " + arg(1) + ")"); continue;
            default: die("intrinsic " + Callee->getName().str());
          }
        }
        // --- non-local exit primitives
        if (NLX && isNamed(Callee, {"_setjmp", "setjmp", "__sigsetjmp", "sigsetjmp"})) {
          SjSite& s = F.sj[sjNext++];
          string cont = s.retLabel + "_c";
          B << "  " << s.bufVar << " = " << arg(0) << "; " << val(&I, &F) << " = 0; goto " << cont << ";\n";
          // returning through longjmp: when every longjmp of the module passes the same constant, use it
          // literally, so that symbolic execution can decide the `if (setjmp(..) == 0)` that follows
          if (LONGJMP_CONST > 0) B << s.retLabel << ": ll2c_engine_check(ll2c_jmp.val == " << LONGJMP_CONST << "); " << val(&I, &F) << " = (uint32_t)" << LONGJMP_CONST << "; ll2c_jmp.pending = 0;\n";
          else B << s.retLabel << ": " << val(&I, &F) << " = (uint32_t)ll2c_jmp.val; ll2c_jmp.pending = 0;\n";
          B << cont << ": ;\n";
          finishInvoke();
          continue;
        }
        if (NLX && isNamed(Callee, {"longjmp", "_longjmp", "siglongjmp", "__longjmp_chk"})) {
          B << "  ll2c_jmp.pending = 1; ll2c_jmp.buf = " << arg(0) << "; ll2c_jmp.val = (" << arg(1) << ") ? (int)(" << arg(1) << ") : 1;\n";
          nlxCheck(Inv, &BB);
          continue;
        }
        if (NLX && isNamed(Callee, {"__cxa_throw"})) {
          B << "  ll2c_exc.pending = 1; ll2c_exc.obj = " << arg(0) << "; ll2c_exc.type = " << arg(1) << ";\n";
          nlxCheck(Inv, &BB);
          continue;
        }
        if (!Callee) {
          // vtable-slot dispatch: callee = load (gep (load vptr), k)
          const Value* co = CB->getCalledOperand()->stripPointerCasts();
          std::vector<const Function*> cands;
          bool isVt = false;
          if (auto* L = dyn_cast<LoadInst>(co)) {
            const Value* addr = L->getPointerOperand()->stripPointerCasts();
            int64_t slot = 0;
            const Value* base = addr;
            if (auto* G = dyn_cast<GetElementPtrInst>(addr))
              if (G->getNumIndices() == 1 && isa<ConstantInt>(G->getOperand(1))) {
                slot = cast<ConstantInt>(G->getOperand(1))->getSExtValue();
                base = G->getPointerOperand()->stripPointerCasts();
              }
            if (auto* L2 = dyn_cast<LoadInst>(base)) {
              // the vptr itself is loaded from the object: type of L2 is T** where T is a function pointer type
              Type* lt = L2->getType();
              if (lt->isPointerTy() && lt->getPointerElementType()->isPointerTy() && lt->getPointerElementType()->getPointerElementType()->isFunctionTy()) {
                isVt = true;
                cands = vtableCandidates(slot, CB);
              }
            }
          }
          if (!isVt) cands = indirectCandidates(CB);
          (isVt ? nVirtualSites : nIndirectSites)++;
          string fp = val(CB->getCalledOperand(), &F);
          string args;
          for (unsigned k = 0; k < CB->arg_size(); k++) {
            if (CB->isByValArgument(k)) die("byval arg in " + Fn.getName().str());
            args += (k ? ", " : "") + arg(k);
          }
          B << "  ";
          for (auto* Fc : cands) {
            B << "if (" << fp << " == (uint8_t*)&" << globalNames[Fc] << ") { ";
            if (!T->isVoidTy()) B << val(&I, &F) << " = ";
            B << globalNames[Fc] << "(" << args << "); } else ";
          }
          B << "{ ll2c_bad_dispatch(); }\n";
          nlxCheck(Inv, &BB);
          finishInvoke();
          continue;
        }
        string call = globalNames[Callee] + "(";
        for (unsigned k = 0; k < CB->arg_size(); k++) {
          if (CB->isByValArgument(k)) die("byval arg in " + Fn.getName().str());
          string a = arg(k);
          if (k >= CB->getFunctionType()->getNumParams()) {  // variadic position
            Type* at = CB->getArgOperand(k)->getType();
            if (at->isIntegerTy() && at->getIntegerBitWidth() == 32) a = "(int32_t)" + a;
          }
          call += (k ? ", " : "") + a;
        }
        call += ")";
        if (T->isVoidTy()) B << "  " << call << ";\n";
        else def(call);
        nlxCheck(Inv, &BB);
        finishInvoke();
        continue;
      }
      if (auto* R = dyn_cast<ReturnInst>(&I)) {
        if (R->getReturnValue()) B << "  return " << op(0) << ";\n";
        else B << "  return;\n";
        continue;
      }
      if (auto* Br = dyn_cast<BranchInst>(&I)) {
        if (Br->isUnconditional()) { B << "  "; emitEdge(&BB, Br->getSuccessor(0), F, B); B << "\n"; }
        else {
          B << "  if (" << op(0) << ") { ";
          emitEdge(&BB, Br->getSuccessor(0), F, B);
          B << " } else { ";
          emitEdge(&BB, Br->getSuccessor(1), F, B);
          B << " }\n";
        }
        continue;
      }
      if (auto* SW = dyn_cast<SwitchInst>(&I)) {
        B << "  switch (" << op(0) << ") {\n";
        for (auto& C : SW->cases()) {
          B << "    case " << C.getCaseValue()->getZExtValue() << "ULL: { ";
          emitEdge(&BB, C.getCaseSuccessor(), F, B);
          B << " }\n";
        }
        B << "    default: { ";
        emitEdge(&BB, SW->getDefaultDest(), F, B);
        B << " }\n  }\n";
        continue;
      }
      if (isa<UnreachableInst>(I)) { B << "  ll2c_unreachable(); " << F.zeroRet << "\n"; continue; }
      if (isa<FreezeInst>(I)) { def(op(0)); continue; }
      if (isa<UnaryOperator>(&I)) { def("(-" + op(0) + ")"); continue; }
      string s; raw_string_ostream o(s); o << I;
      die("unsupported instruction in " + Fn.getName().str() + ": " + o.str());
    }
  }
  B.flush();
  O << proto << " {\n";
  for (auto& kv : F.names) {
    if (isa<Argument>(kv.first)) continue;
    Type* T = kv.first->getType();
    if (T->isVoidTy()) continue;
    O << "  " << ctype(T) << " " << kv.second << ";\n";
  }
  O << sjDecls << body << "}\n\n";
}

static bool keepName(StringRef n) {
  static const char* pre[] = {"env_", "h_", "nondet_", "ll2c_", "__cxa", "_Z", "__dso_handle", "__gxx", "__clang"};
  for (auto* p : pre) if (n.startswith(p)) return true;
  return false;
}

int main(int argc, char** argv) {
  LLVMContext C;
  SMDiagnostic E;
  string in, out, header;
  for (int i = 1; i < argc; i++) {
    string a = argv[i];
    if (a == "-o" && i + 1 < argc) out = argv[++i];
    else if (a == "--header" && i + 1 < argc) header = argv[++i];
    else if (a == "--stub" && i + 1 < argc) stubs.insert(argv[++i]);
    else if (a == "--empty-regex" && i + 1 < argc) emptyRx.push_back(std::regex(argv[++i]));
    else if (a == "--nlx") NLX = true;
    else if (a == "--heapcheck") HEAPCHK = true;
    else if (a == "--heapcheck-all") HEAPCHK = HEAPCHK_ALL = true;
    else if (a == "--entry-assert" && i + 1 < argc) { string s = argv[++i]; auto p = s.find('='); entryAsserts[s.substr(0, p)] = s.substr(p + 1); }
    else in = a;
  }
  if (in.empty() || out.empty()) die("usage: ll2c in.ll -o out.c [--header h] [--stub fn] [--nlx]");
  auto M = parseIRFile(in, E, C);
  if (!M) { E.print("ll2c", errs()); return 1; }
  MOD = M.get();
  DL = &M->getDataLayout();
  std::set<string> used;
  auto uniq = [&](string s) { string b = s; int k = 0; while (used.count(s)) s = b + "_" + std::to_string(++k); used.insert(s); return s; };
  for (auto& Fn : *M) {
    if (Fn.isIntrinsic()) continue;
    string n = sanitize(Fn.getName());
    if (Fn.isDeclaration() && !keepName(Fn.getName())) n = "ll2c_ext_" + n;
    globalNames[&Fn] = uniq(n);
  }
  for (auto& G : M->globals()) {
    string n = sanitize(G.getName());
    if (G.isDeclaration() && !keepName(G.getName())) n = "ll2c_ext_" + n;
    globalNames[&G] = uniq(n);
  }

  {  // longjmp value analysis
    bool all = true; long long c = -1;
    for (auto& Fn : *M) for (auto& BB : Fn) for (auto& I : BB)
      if (auto* CB = dyn_cast<CallBase>(&I))
        if (isNamed(CB->getCalledFunction(), {"longjmp", "_longjmp", "siglongjmp", "__longjmp_chk"})) {
          auto* CI = dyn_cast<ConstantInt>(CB->getArgOperand(1));
          if (!CI || CI->getZExtValue() == 0 || (c >= 0 && c != (long long)CI->getZExtValue())) all = false;
          else c = (long long)CI->getZExtValue();
        }
    if (all && c > 0) LONGJMP_CONST = c;
  }
  string fnsBody, globBody, protos, hdr;
  raw_string_ostream FO(fnsBody), GO(globBody), PO(protos), HO(hdr);
  for (auto& Fn : *M) {
    if (Fn.isIntrinsic()) continue;
    if (NLX && isNamed(&Fn, {"_setjmp", "setjmp", "__sigsetjmp", "sigsetjmp", "longjmp", "_longjmp", "siglongjmp", "__longjmp_chk", "__cxa_throw"})) continue;
    if (Fn.isDeclaration() && Fn.getName().startswith("__gxx_personality")) continue;  // only named as personality, never called
    FnCtx dummy;
    string p = fnProto(Fn, false, &dummy);
    PO << p << ";\n";
    if (Fn.getName().startswith("h_") && !Fn.isDeclaration()) HO << p << ";\n";
  }
  for (auto& G : M->globals()) {
    if (G.getName() == "llvm.global_ctors" || G.getName() == "llvm.global_dtors" || G.getName() == "llvm.used" || G.getName() == "llvm.compiler.used") continue;
    string ty = ctype(G.getValueType());
    if (G.isDeclaration() && G.getName().startswith("_ZTV")) { GO << "extern uint8_t* " << globalNames[&G] << "[16];  /* vtable of a runtime-library class: only its address is used */\n"; continue; }
    GO << "extern " << ty << " " << globalNames[&G] << ";\n";
  }
  string ginit;
  raw_string_ostream GI(ginit);
  for (auto& G : M->globals()) {
    if (G.isDeclaration()) continue;
    if (G.getName() == "llvm.global_ctors" || G.getName() == "llvm.global_dtors" || G.getName() == "llvm.used" || G.getName() == "llvm.compiler.used") continue;
    string ty = ctype(G.getValueType());
    GI << ty << " " << globalNames[&G] << " = " << aggInit(G.getInitializer()) << ";\n";
  }
  int nfn = 0;
  std::vector<string> encoded;
  for (auto& Fn : *M) {
    if (Fn.isDeclaration() || stubs.count(Fn.getName().str())) continue;
    bool empty = false;
    for (auto& rx : emptyRx) if (std::regex_search(Fn.getName().str(), rx)) empty = true;
    if (empty) {
      FnCtx F;
      FO << fnProto(Fn, true, &F) << " {\n";
      Type* RT = Fn.getReturnType();
      if (RT->isVoidTy()) FO << "  return;\n";
      else if (RT->isStructTy() || RT->isArrayTy()) FO << "  " << ctype(RT) << " z = {0}; return z;\n";
      else FO << "  return (" << ctype(RT) << ")0;\n";
      FO << "}\n\n";
      emptied.push_back(Fn.getName().str());
      continue;
    }
    emitFunction(Fn, FO);
    nfn++;
    encoded.push_back(Fn.getName().str());
  }
  // global constructors
  FO << "void ll2c_global_ctors(void) {\n";
  if (auto* GC = M->getGlobalVariable("llvm.global_ctors"))
    if (GC->hasInitializer())
      if (auto* CA = dyn_cast<ConstantArray>(GC->getInitializer()))
        for (unsigned i = 0; i < CA->getNumOperands(); i++) {
          auto* CS = cast<ConstantStruct>(CA->getOperand(i));
          if (auto* Fc = dyn_cast<Function>(CS->getOperand(1)->stripPointerCasts())) FO << "  " << globalNames[Fc] << "();\n";
        }
  FO << "}\n\n";
  // type-info model
  if (NLX) {
    FO << "uint8_t* ll2c_tinfo_base(uint8_t* t) {\n";
    for (auto& G : M->globals()) {
      if (!G.getName().startswith("_ZTI") || !G.hasInitializer()) continue;
      auto* CS = dyn_cast<ConstantStruct>(G.getInitializer());
      if (!CS || CS->getNumOperands() != 3) continue;  // __si_class_type_info: {vptr, name, base}
      FO << "  if (t == (uint8_t*)&" << globalNames[&G] << ") return " << constExpr(CS->getOperand(2)) << ";\n";
    }
    FO << "  return (uint8_t*)0;\n}\n";
    FO << "int ll2c_tinfo_match(uint8_t* thrown, uint8_t* target) {\n  for (int i = 0; i < 8 && thrown; i++) { if (thrown == target) return 1; thrown = ll2c_tinfo_base(thrown); }\n  return 0;\n}\n\n";
    PO << "uint8_t* ll2c_tinfo_base(uint8_t* t);\nint ll2c_tinfo_match(uint8_t* thrown, uint8_t* target);\n";
  }
  FO.flush(); GO.flush(); PO.flush(); GI.flush(); HO.flush();
  std::error_code EC;
  raw_fd_ostream O(out, EC, sys::fs::OF_Text);
  if (EC) die("cannot write " + out);
  O << "/* generated by ll2c from " << in << " */\n";
  O << "#include <stdint.h>\n#include <stddef.h>\n#include <string.h>\n#include <stdarg.h>\n#include \"ll2c_rt.h\"\n\n";
  for (auto& d : typeDefs) O << d << "\n";
  O << "\n" << protos << "\n" << globBody << "\n" << ginit << "\n" << fnsBody;
  O.close();
  if (!header.empty()) {
    raw_fd_ostream H(header, EC, sys::fs::OF_Text);
    H << "/* generated by ll2c: entry points */\n#include <stdint.h>\n" << hdr << "void ll2c_global_ctors(void);\n";
  }
  errs() << "ll2c: functions=" << nfn << " virtual_sites=" << nVirtualSites << " indirect_sites=" << nIndirectSites << "\n";
  outs() << "EMPTIED";
  for (auto& n : emptied) outs() << " " << n;
  outs() << "\n";
  outs() << "ENCODED";
  for (auto& n : encoded) outs() << " " << n;
  outs() << "\n";
  return 0;
}
