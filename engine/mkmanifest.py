#!/usr/bin/env python3
"""Regenerates /verif/MANIFEST.json from the table below (kept in one place so it stays valid)."""
import json, os
V = os.path.dirname(os.path.dirname(os.path.abspath(__file__)))
ids = [json.loads(l)['id'] for l in open(os.path.join(V, 'properties.jsonl'))]
TECH = 'bounded symbolic execution of the real code (clang IR -> ll2c -> CBMC 6.11 / SAT), counterexamples replayed on a g++ ASan build'
CLAIMED = {
    'C19': ('3.C19', 'Per entry point of the three C function tables (31 expected-call entries, 16 actual-call parameter entries, 12+12 typed and ...OrDefault getters, returnValue for 15 stored types, support-level operations, data store, comparator/copier adaptors, C failure reporter) recording doubles of MockExpectedCall / MockActualCall / MockSupport prove that the same-named C++ method receives exactly the same name, type and every value bit (all 64-bit argument words and all doubles symbolic) and that getters return exactly the stored value/tag. Whole-scenario equivalence follows only by composition with the C++ engine. Open known finding KF-C19-1 excluded and re-demonstrated.',
            'per-call equivalence, not scenario exploration; data-store names are literals'),
    'C07': ('3.C07', 'The real MemoryLeakWarningPlugin pre/post actions run around two consecutive tests that allocate through the real global operator new/delete overloads into a real detector; allocation scripts are concrete per obligation (leak, allocate+release, release the earlier test\'s block, both), expected-leak counts, ignore flags and the tests\' own pass/fail outcomes are symbolic: a leak failure is added iff the reference says so, the report lists exactly the test\'s own outstanding blocks, earlier leaks are not charged or offset, and nothing stays in the checking period.',
            'report text builders replaced by a recorder of listed blocks; 4 hash buckets via hook; 3 scripts in the quick tier, 6 in thorough; ~13 GB per obligation'),
    'C10': ('3.C10', 'NOT an interleaving exploration: the solver decides, on the real wrappers and overload table, that in thread-safe mode each of the 9 entry points (new, new debug, new[], new[] debug, delete, delete[], malloc, realloc, free) takes the detector lock exactly once, performs every detector operation with it held and releases it on return, and that the off / default modes never touch the lock (the table is switched consistently). Mutual exclusion => serialisability is assumed, then C04-C06 apply. The misuse-report path leaving with the lock held is the open known finding KF-C10-1, re-demonstrated on every run.',
            'mutex = held flag; detector operations are lock-observing contract stubs in the translated world (real detector in the differential build); nothrow overloads not in the verified configuration; no thread schedule is explored'),
    'C05': ('3.C05', 'The size arithmetic of tracked allocation is decided for EVERY 64-bit request size in both the malloc and realloc paths (the accounted size never wraps, requests that do not fit are refused); whole allocations of 0/1/7/8/13 bytes are run through the real detector with family and bookkeeping layout symbolic (block placement, coverage of user+guard+record, all requested bytes usable, clean release); realloc preservation / failure handling are thorough-tier obligations; calloc/strdup/strndup under failure and overflow are decided in check C15. Open known finding KF-C05-2 (failed realloc untracks the block) is excluded and re-demonstrated.',
            'underlying allocator model; report text builders replaced by their category; 4 hash buckets via hook; realloc obligations only in the thorough tier'),
    'C06': ('3.C06', 'One tracked block of 0/1/5/8 bytes with symbolic allocating and releasing family, bookkeeping layout, type checking flag, one write of any value at any position of user or guard bytes, and a released address that is the block, an interior address, a foreign address or NULL: the report category (none / non-allocated / mismatch / corruption) equals the reference, the outstanding set is exact, and user bytes are poisoned before release.',
            'report text builders replaced by their category (text is C14); reporter returns instead of ending the test; 4 hash buckets via hook; wrapper allocators not covered'),
    'C04': ('3.C04', 'Inductive step on the detector table: from an arbitrary arrangement of up to 3 outstanding records at symbolic addresses (bucket placement and collisions chosen by the solver) one removeNode / getTotalLeaks(period) / clearAllAccounting(period) / full period or stage iteration is compared with a shadow set: exactly the named block goes, totals and enumerations see each in-period block once. Detector-level alloc/free accounting is covered by C05/C06/C07.',
            '4 hash buckets through the guarded hook CPPUTEST_VERIF_HASH_TABLE_SIZE (73 in production); addresses inside a 32-byte arena'),
    'C16': ('3.C16', 'The real JUnitTestOutput is driven by the real registry/result callbacks for 1-2 tests; the captured file is parsed by a reference recogniser/decoder of the XML subset in the harness: well-formedness, counts, one testcase per test with name/file/line, skipped/failure markers, decoded message and system-out equal to the originals, sanitised file name. Per obligation 1-2 fields are symbolic (<= 2 bytes over an alphabet containing the XML metacharacters).',
            'quick tier uses the textbook contract of SimpleString::replace (proved in C13), thorough runs the real one; counters/time concrete'),
    'C20': ('3.C20', 'printEscaped round trip for every text <= 4 bytes (full byte range) and whole service-message streams of 1-3 tests (pass/fail/ignored patterns) with symbolic group/name/file/message strings over the TeamCity metacharacters are parsed by a reference service-message reader: balanced suites and tests, ignored flag, failure belongs to the open test, every value decodes to the original. Open known finding KF-C20-2 (empty group name) excluded and re-demonstrated.',
            'strings <= 2 bytes; line numbers 0..63; clock stands still'),
    'C11': ('3.C11', 'The real GccPlatformSpecificRunTestInASeperateProcess / SetTestFailureByStatusCode code is run against symbolic fork/waitpid models: every status word (all signals, exit codes, stop/continue encodings), errno values and EINTR runs up to and past the retry bound (<= 36 wait results) are one formula; failures added, SIGCONT, retry bound and termination are checked against a wait(2) reference. Child path: _exit code != 0 iff failures were added.',
            'kill/_exit/fork/waitpid are recording models; message text emptied in the long-loop group; at most 1-2 non-terminal reports in the 36-result obligations (object limit)'),
    'C15': ('3.C15', 'FailableMemoryAllocator designations (global / at-location, symbolic n, order and locations) followed by allocation histories, checkAll/clear, the C malloc countdown and the tracked strdup/strndup/calloc under symbolic allocation failure are decided against a reference written from the property; one open known finding (KF-C15-2) is excluded by its input predicate and re-demonstrated on every run.',
            '3-4 designations, 4-6 allocations; countdown group uses contract stubs for the leak detector in the translated world (real detector in the differential build)'),
    'C17': ('3.C17', 'SetPointerPlugin restore (symbolic targets/values at arbitrary table fill, the 32-entry limit and the failing 33rd store) and plugin chains (order of pre/post actions, disabled plugins, removal by name at every depth through TestPlugin and TestRegistry, install/remove sequences) are decided symbolically.',
            'counts are compile-time constants per obligation; 8 constant install/remove sequences with symbolic flags'),
    'C18': ('3.C18', 'SimpleStringInternalCache histories of 3-5 alloc/dealloc/clearCache/clearAll operations with symbolic sizes (0..1024), symbolic released pointer (live, stale, foreign) and size are decided against a shadow map: no aliasing of live buffers, capacity, reuse within the size class, exactly-once return, one-time warning; GlobalSimpleStringCache scope; open known finding KF-C18-1 excluded and re-demonstrated.',
            'operation kinds are concrete per obligation (symbolic kinds in thorough); heap served from static blocks'),
    'C02': ('3.C02', 'TestRegistry::runAllTests with the real filter matching is run symbolically over 2 (thorough: 3) tests with symbolic group/name strings (<=2 bytes), normal/ignored mix, 0..2 group and 0..2 name filters with symbolic text and strict/invert flags, run-ignored on/off: executions, run/ignored/filtered-out counters and balanced group/test notifications equal a reference selection; shuffle (arbitrary seed, every rand() result symbolic), reverse and their composition are shown to be permutations of 4 (thorough: 5) tests.',
            'setjmp replaced by a plain call (C01 covers it); test body replaced by an execution counter; longer names / larger registries are outside the bound'),
    'C01': ('3.C01', 'A scripted test runs through the real runOneTest / runOneTestInCurrentProcess / Utest::run / PlatformSpecificSetJmp code in both builds (with and without C++ exceptions; setjmp/longjmp and Itanium EH modelled by the translator). The solver decides, for every script of 2 statements per phase x {continue, C++-style fail, C-style fail, throw int}, every plugin error pattern and every initial jump depth 0..7: body iff setup completed, teardown always, nothing after a failing statement, each failure recorded and printed once with its line, context and jump-buffer depth restored (inductive: covers arbitrarily long runs of failing tests). Plus: summary line OK/Errors and counts for all 64-bit counters; runner return value == 0 iff every repetition OK (repeat <= 4).',
            'll2c --nlx model of setjmp/longjmp/EH (longjmp runs no destructors); std::exception arm not encoded (CPPUTEST_USE_STD_CPP_LIB=0); rethrow (-e) off; totals >= 2^31 outside the claim'),
    'C09': ('3.C09', 'MockNamedValue::equals is run symbolically for all 36 ordered integer type pairs with both 64-bit values free (oracle: sign-aware mathematical equality, both directions), for bool/pointer/function-pointer/string/buffer/double values and all cross-type pairs; all 36 stored-type x getter combinations are checked to return exactly the stored integer or fail the test.',
            'strings/buffers <= 3 bytes; failure text stubbed; CBMC float model for the double case'),
    'C03': ('3.C03', 'Every check macro is expanded as in a user test (15 CHECK_EQUAL operand types, 4x6 relational compares, the LONGS/BYTES/POINTERS/ENUMS/BITS families, doubles, 6 string checks, memory blocks, 13 C entry points) and run symbolically: both 64-bit operand words, all double bit patterns and tolerances, strings/blocks up to 3 bytes with symbolic NULL-ness; the solver decides failure-recorded <=> predicate false, exactly one count, exit exactly on failure.',
            'failure message construction stubbed empty (C14 owns it); test exit through a harness hook; CBMC IEEE-754 float model'),
    'C13': ('3.C13', 'Every SimpleString operation and formatter is executed symbolically from the current sources against a textbook oracle, with heap red zones and an allocator ledger; the SAT solver decides all byte strings up to the stated length (1-3 bytes, full byte range) and all 64-bit positions. Bounded: longer strings are outside the claim.',
            'clang-14 IR semantics; CBMC; env models of malloc/vsnprintf (engine/rt/env.c); decimal digit generation of libc is a contract, not encoded'),
}
NA = {}
checks = []
for i in ids:
    if i in CLAIMED:
        ref, text, note = CLAIMED[i]
        checks.append({
            'property_id': i,
            'quick_cmd': 'python3 engine/run.py %s --tier quick' % i,
            'thorough_cmd': 'python3 engine/run.py %s --tier thorough' % i,
            'evidence_file': 'evidence/%s.json' % i,
            'replay_cmd_template': 'python3 engine/run.py %s --replay {path}' % i,
            'engine': 'll2c+cbmc',
            'level_claimed': {'category': 'model_checking', 'text': text, 'design_ref': 'DESIGN.md section ' + ref},
            'level_note': note,
            'technique': TECH,
        })
m = {
    'version': 1,
    'setup_cmd': 'sh engine/setup.sh',
    'hooks': {'guard': 'CPPUTEST_VERIF', 'enable': 'engine/run.py compiles /repo sources with -DCPPUTEST_VERIF (clang for the IR, g++ for the replay build)',
              'baseline_off_cmd': 'cmake --build /repo/_build -j16 -- -k 0 ; ctest --test-dir /repo/_build -j8 --timeout 900',
              'source_commits': [], 'add_only': True},
    'engines': [{'name': 'll2c+cbmc', 'path': 'engine/', 'serves_properties': sorted(CLAIMED), 'kind_free_text': 'own LLVM-IR-to-C translator (engine/ll2c.cpp) feeding CBMC 6.11 (SAT); driver engine/run.py; environment models engine/rt/'}],
    'checks': checks,
    'notes': 'see DESIGN.md; known findings / fixed defects in known_findings.json',
    'not_applicable': [{'property_id': i, 'reason': NA.get(i, 'check not yet built (implementation in progress)')} for i in ids if i not in CLAIMED],
}
json.dump(m, open(os.path.join(V, 'MANIFEST.json'), 'w'), indent=1)
print('claimed:', sorted(CLAIMED))
