/* env.c — environment models.  #include'd by each harness .c file (one TU with the harness).
 *
 * The same models drive three builds (see harness.h).  Every env_* function is a documented
 * contract; the harness states in its obligations which ones it relies on.
 *
 * Configuration (define before including):
 *   ENV_MALLOC_CAP <n>      capacity of every heap object of the CBMC model (default 64); a larger request
 *                           fails the run with an ENGINE assertion (bound too small)
 *   ENV_MALLOC_FAILS        allocation failure is in scope: env_malloc/env_realloc call
 *                           int h_alloc_fails(uint64_t n) (harness-defined) to decide
 *   ENV_CUSTOM_<X>          the harness supplies env_<x> itself (X in RAND, TIME, FORK, MUTEX, VSNPRINTF, FILE)
 */
#include <stdint.h>
#include <stddef.h>
#include <stdarg.h>
#include <stdlib.h>
#include <string.h>
#ifndef LL2C_CBMC
#include <stdio.h>
#include <unistd.h>
#endif
#include "harness.h"


#ifdef LL2C_CBMC
#define ENV_ENGINE_ASSERT(c, msg) __CPROVER_assert(c, "ENGINE: " msg)
#else
void ll2c_native_abort(const char* why);
#define ENV_ENGINE_ASSERT(c, msg) do { if (!(c)) ll2c_native_abort(msg); } while (0)
#endif

/* ---------------------------------------------------------------- heap */
uint64_t env_malloc_calls, env_free_calls, env_last_malloc_size;
#ifdef ENV_MALLOC_FAILS
int h_alloc_fails(uint64_t n);
#endif

#ifndef ENV_MALLOC_CAP
#define ENV_MALLOC_CAP 64
#endif
#ifdef LL2C_CBMC
#include "ll2c_rt.h"
/* CBMC heap model: fixed-capacity objects (symbolic-size objects are intractable, DESIGN 1.3 R1);
 * the requested size is kept in ll2c_req[] and ll2c --heapcheck asserts every translated byte
 * access / memcpy / memset against it. */
uint8_t ll2c_req[1024];
static uint8_t* env_raw_alloc(uint64_t n) {
#ifdef ENV_NO_SHADOW
  /* harnesses translated without --heapcheck may use large objects: no requested-size shadow is kept */
  ENV_ENGINE_ASSERT(n <= ENV_MALLOC_CAP, "allocation larger than ENV_MALLOC_CAP (bound too small)");
  uint8_t* p = malloc(ENV_MALLOC_CAP);
  __CPROVER_assume(p != 0);
  return p;
#else
  ENV_ENGINE_ASSERT(n <= ENV_MALLOC_CAP && n < 255, "allocation larger than ENV_MALLOC_CAP (bound too small)");
  uint8_t* p = malloc(ENV_MALLOC_CAP);
  __CPROVER_assume(p != 0);
  ENV_ENGINE_ASSERT(__CPROVER_POINTER_OBJECT(p) < 1024, "object numbers fit the shadow table");
  ll2c_req[__CPROVER_POINTER_OBJECT(p) & 1023] = (uint8_t)(n + 1);
  return p;
#endif
}
static void env_raw_free(uint8_t* p) { free(p); }
static uint64_t env_raw_size(uint8_t* p) { return ll2c_req[__CPROVER_POINTER_OBJECT(p) & 1023] - 1; }
#else
static uint8_t* env_raw_alloc(uint64_t n) { return (uint8_t*)malloc(n ? n : 1); }
static void env_raw_free(uint8_t* p) { free(p); }
#endif

#ifndef ENV_CUSTOM_MALLOC
uint8_t* env_malloc(uint64_t n) {
  env_malloc_calls++; env_last_malloc_size = n;
#ifdef ENV_MALLOC_FAILS
  if (h_alloc_fails(n)) return 0;
#endif
  return env_raw_alloc(n);
}
void env_free(uint8_t* p) { env_free_calls++; env_raw_free(p); }
uint8_t* env_realloc(uint8_t* p, uint64_t n) {
#ifdef ENV_MALLOC_FAILS
  if (h_alloc_fails(n)) return 0;
#endif
#ifdef LL2C_CBMC
  ENV_ENGINE_ASSERT(0, "env_realloc: default model has no old-size knowledge; harness must define ENV_CUSTOM_MALLOC");
  return 0;
#else
  return (uint8_t*)realloc(p, n);
#endif
}
#endif

/* ---------------------------------------------------------------- output files */
#ifndef ENV_OUT_CAP
#define ENV_OUT_CAP 256
#endif
#ifndef ENV_CUSTOM_FILE
uint8_t env_out[ENV_OUT_CAP];
uint64_t env_out_len;      /* bytes appended (may exceed the capacity: then the tail is dropped and flagged) */
uint32_t env_out_overflow;
uint32_t env_files_opened, env_files_closed;
uint8_t* env_fopen(uint8_t* name, uint8_t* flag) { (void)name; (void)flag; env_files_opened++; return (uint8_t*)(uintptr_t)(0x100 + env_files_opened); }
void env_fputs(uint8_t* s, uint8_t* f) {
  (void)f;
  for (uint64_t i = 0; s[i]; i++) {
    if (env_out_len < ENV_OUT_CAP - 1) { env_out[env_out_len] = s[i]; env_out[env_out_len + 1] = 0; } else env_out_overflow = 1;
    env_out_len++;
  }
}
void env_fclose(uint8_t* f) { (void)f; env_files_closed++; }
void env_flush(void) {}
#endif

/* ---------------------------------------------------------------- time / random */
#ifndef ENV_CUSTOM_TIME
uint64_t env_now_millis;
uint64_t env_time_millis(void) { return env_now_millis; }
uint8_t* env_time_string(void) { return (uint8_t*)"1978-10-03T00:00:00"; }
#endif
#ifndef ENV_CUSTOM_RAND
uint32_t env_rand_calls, env_srand_calls, env_last_seed;
uint32_t env_rand(void) {
  env_rand_calls++;
#ifdef LL2C_CBMC
  uint32_t r = nondet_u32(); __CPROVER_assume(r <= 0x7fffffffu); return r;
#else
  return (uint32_t)hn_input("env_rand", (int)env_rand_calls - 1, 31);
#endif
}
void env_srand(uint32_t seed) { env_srand_calls++; env_last_seed = seed; }
#endif

/* ---------------------------------------------------------------- mutex: a held flag */
#ifndef ENV_CUSTOM_MUTEX
uint32_t env_mutex_held, env_mutex_lock_calls, env_mutex_unlock_calls, env_mutex_errors;
uint8_t* env_mutex_create(void) { return (uint8_t*)(uintptr_t)0x200; }
void env_mutex_lock(uint8_t* m) { (void)m; env_mutex_lock_calls++; if (env_mutex_held) env_mutex_errors++; env_mutex_held = 1; }
void env_mutex_unlock(uint8_t* m) { (void)m; env_mutex_unlock_calls++; if (!env_mutex_held) env_mutex_errors++; env_mutex_held = 0; }
void env_mutex_destroy(uint8_t* m) { (void)m; }
#endif

/* ---------------------------------------------------------------- processes */
#ifndef ENV_CUSTOM_FORK
uint32_t env_fork(void) { ENV_ENGINE_ASSERT(0, "fork reached without a fork model"); return 0xffffffffu; }
uint32_t env_waitpid(uint32_t pid, uint8_t* status, uint32_t options) { (void)pid; (void)status; (void)options; ENV_ENGINE_ASSERT(0, "waitpid reached without a model"); return 0xffffffffu; }
#endif
#ifndef ENV_CUSTOM_ABORT
uint32_t env_abort_calls;
void env_abort(void) { env_abort_calls++; END_PATH(); }
#endif
uint32_t env_atexit(uint8_t* f) { (void)f; return 0; }

/* ---------------------------------------------------------------- vsnprintf */
#ifndef ENV_CUSTOM_VSNPRINTF
/* Faithful model of the directive subset CppUTest uses: flags 0 and -, width, .precision for %s,
 * length h l ll z, conversions d i u x X c s p %.  Floating conversions are outside every claim
 * (model: prints "<dbl>"; the real build prints the real digits, so harnesses never observe them). */
static void env_put(uint8_t* s, uint64_t n, uint64_t* pos, uint8_t c) { if (*pos + 1 < n) s[*pos] = c; (*pos)++; }
uint32_t env_vsnprintf_calls;
uint32_t env_vsnprintf(uint8_t* s, uint64_t n, uint8_t* f, uint8_t* va) {
  env_vsnprintf_calls++;
#if !defined(LL2C_CBMC) && !defined(LL2C_TRANSLATED)
  return (uint32_t)vsnprintf((char*)s, n, (const char*)f, *(va_list*)va);
#else
  va_list* ap = (va_list*)va;
  uint64_t pos = 0;
  for (; *f; f++) {
    if (*f != '%') { env_put(s, n, &pos, *f); continue; }
    f++;
    int zero = 0, left = 0, width = 0, prec = -1, lng = 0;
    for (;; f++) { if (*f == '0') zero = 1; else if (*f == '-') left = 1; else break; }
    if (*f == '*') { width = va_arg(*ap, int); f++; }
    else while (*f >= '0' && *f <= '9') { width = width * 10 + (*f - '0'); f++; }
    if (*f == '.') { f++; prec = 0; if (*f == '*') { prec = va_arg(*ap, int); f++; } else while (*f >= '0' && *f <= '9') { prec = prec * 10 + (*f - '0'); f++; } }
    for (;; f++) { if (*f == 'l') lng++; else if (*f == 'h') lng--; else if (*f == 'z') lng = 1; else break; }
    uint8_t c = *f;
    if (c == '%') { env_put(s, n, &pos, '%'); continue; }
    if (c == 'c') { int v = va_arg(*ap, int); for (int i = 1; i < width && !left; i++) env_put(s, n, &pos, ' '); env_put(s, n, &pos, (uint8_t)v); for (int i = 1; i < width && left; i++) env_put(s, n, &pos, ' '); continue; }
    if (c == 's') {
      const uint8_t* a = va_arg(*ap, const uint8_t*);
      if (!a) a = (const uint8_t*)"(null)";
      uint64_t len = 0; while (a[len] && (prec < 0 || len < (uint64_t)prec)) len++;
      for (uint64_t i = len; i < (uint64_t)width && !left; i++) env_put(s, n, &pos, ' ');
      for (uint64_t i = 0; i < len; i++) env_put(s, n, &pos, a[i]);
      for (uint64_t i = len; i < (uint64_t)width && left; i++) env_put(s, n, &pos, ' ');
      continue;
    }
    if (c == 'd' || c == 'i' || c == 'u' || c == 'x' || c == 'X' || c == 'p') {
      uint64_t u; int neg = 0;
      if (c == 'p') { u = (uint64_t)(uintptr_t)va_arg(*ap, void*); if (!u) { const char* nil = "(nil)"; for (int i = 5; i < width && !left; i++) env_put(s, n, &pos, ' '); for (int i = 0; nil[i]; i++) env_put(s, n, &pos, (uint8_t)nil[i]); for (int i = 5; i < width && left; i++) env_put(s, n, &pos, ' '); continue; } }
      else if (c == 'd' || c == 'i') {
        int64_t v = lng >= 1 ? va_arg(*ap, int64_t) : (int64_t)va_arg(*ap, int);
        if (lng == -1) v = (int16_t)v; else if (lng <= -2) v = (int8_t)v;
        neg = v < 0; u = neg ? (uint64_t)0 - (uint64_t)v : (uint64_t)v;
      } else {
        u = lng >= 1 ? va_arg(*ap, uint64_t) : (uint64_t)va_arg(*ap, unsigned);
        if (lng == -1) u = (uint16_t)u; else if (lng <= -2) u = (uint8_t)u;
      }
      uint8_t tmp[24]; int k = 0;
      if (c == 'x' || c == 'X' || c == 'p') {   /* shifts and masks only: cheap for the solver */
        do { unsigned dgt = (unsigned)(u & 15); tmp[k++] = (uint8_t)(dgt < 10 ? '0' + dgt : (c == 'X' ? 'A' : 'a') + dgt - 10); u >>= 4; } while (u);
      } else {
        do { unsigned dgt = (unsigned)(u % 10); tmp[k++] = (uint8_t)('0' + dgt); u /= 10; } while (u);
      }
      int len = k + neg + (c == 'p' ? 2 : 0);
      if (!left && !zero) for (int i = len; i < width; i++) env_put(s, n, &pos, ' ');
      if (neg) env_put(s, n, &pos, '-');
      if (c == 'p') { env_put(s, n, &pos, '0'); env_put(s, n, &pos, 'x'); }
      if (!left && zero) for (int i = len; i < width; i++) env_put(s, n, &pos, '0');
      while (k) env_put(s, n, &pos, tmp[--k]);
      if (left) for (int i = len; i < width; i++) env_put(s, n, &pos, ' ');
      continue;
    }
    if (c == 'g' || c == 'f' || c == 'e' || c == 'G') {
      double d = va_arg(*ap, double); (void)d;
#ifdef LL2C_CBMC
      const char* t = "<dbl>"; for (int i = 0; t[i]; i++) env_put(s, n, &pos, (uint8_t)t[i]);
#else
      char fb[8] = "%.*"; char tmp[64]; fb[3] = (char)c; fb[4] = 0; snprintf(tmp, sizeof tmp, fb, prec < 0 ? 6 : prec, d);
      for (int i = 0; tmp[i]; i++) env_put(s, n, &pos, (uint8_t)tmp[i]);
#endif
      continue;
    }
    ENV_ENGINE_ASSERT(0, "vsnprintf model: unsupported directive");
  }
  if (n) s[pos < n ? pos : n - 1] = 0;
  return (uint32_t)pos;
#endif
}
#endif

/* ---------------------------------------------------------------- C++ runtime + libc shims (translated world only) */
#ifdef LL2C_TRANSLATED
#include "ll2c_rt.h"
struct ll2c_jmp_s ll2c_jmp;
struct ll2c_exc_s ll2c_exc;
#ifdef LL2C_CBMC
uint8_t __dso_handle;
#endif
uint8_t* ll2c_ext_stdout = (uint8_t*)(uintptr_t)0x100;
#ifndef ENV_CUSTOM_NEW
uint8_t* _Znwm(uint64_t n) { return env_raw_alloc(n); }
uint8_t* _Znam(uint64_t n) { return env_raw_alloc(n); }
void _ZdlPv(uint8_t* p) { env_raw_free(p); }
void _ZdaPv(uint8_t* p) { env_raw_free(p); }
void _ZdlPvm(uint8_t* p, uint64_t n) { (void)n; env_raw_free(p); }
void _ZdaPvm(uint8_t* p, uint64_t n) { (void)n; env_raw_free(p); }
#endif
uint32_t __cxa_guard_acquire(uint8_t* g) { return *g == 0; }
void __cxa_guard_release(uint8_t* g) { *g = 1; }
void __cxa_guard_abort(uint8_t* g) { (void)g; }
uint32_t __cxa_atexit(uint8_t* a, uint8_t* b, uint8_t* c) { (void)a; (void)b; (void)c; return 0; }
void __cxa_pure_virtual(void) { ENV_ENGINE_ASSERT(0, "pure virtual call"); }
/* EH runtime for ll2c --nlx */
static struct { uint8_t* obj; uint8_t* type; } ll2c_caught[4];
static int ll2c_ncaught;
uint32_t env_terminate_calls;
uint8_t* __cxa_allocate_exception(uint64_t n) { return env_raw_alloc(n); }
void __cxa_free_exception(uint8_t* p) { env_raw_free(p); }
uint8_t* __cxa_begin_catch(uint8_t* obj) { ENV_ENGINE_ASSERT(ll2c_ncaught < 4, "caught-exception stack"); ll2c_caught[ll2c_ncaught].obj = obj; ll2c_caught[ll2c_ncaught].type = ll2c_exc.type; ll2c_ncaught++; return obj; }
void __cxa_end_catch(void) { if (ll2c_ncaught > 0) ll2c_ncaught--; }
void __cxa_rethrow(void) { ENV_ENGINE_ASSERT(ll2c_ncaught > 0, "rethrow without a caught exception"); ll2c_exc.pending = 1; ll2c_exc.obj = ll2c_caught[ll2c_ncaught - 1].obj; ll2c_exc.type = ll2c_caught[ll2c_ncaught - 1].type; }
void _ZSt9terminatev(void) { env_terminate_calls++; END_PATH(); }
void __cxa_call_unexpected(uint8_t* p) { (void)p; env_terminate_calls++; END_PATH(); }
/* libc names referenced by src/Platforms/Gcc/UtestPlatform.cpp initialisers */
uint8_t* ll2c_ext_malloc(uint64_t n) { return env_raw_alloc(n); }
void ll2c_ext_free(uint8_t* p) { env_raw_free(p); }
uint8_t* ll2c_ext_realloc(uint8_t* p, uint64_t n) { (void)p; (void)n; ENV_ENGINE_ASSERT(0, "libc realloc reached"); return 0; }
uint8_t* ll2c_ext_memcpy(uint8_t* d, uint8_t* s, uint64_t n) { memcpy(d, s, n); return d; }
uint8_t* ll2c_ext_memset(uint8_t* d, uint32_t c, uint64_t n) { memset(d, (int)c, n); return d; }
uint32_t ll2c_ext_vsnprintf(uint8_t* s, uint64_t n, uint8_t* f, uint8_t* va) { (void)s; (void)n; (void)f; (void)va; ENV_ENGINE_ASSERT(0, "libc vsnprintf reached (h_env_install not called)"); return 0; }
uint8_t* ll2c_ext_fopen(uint8_t* a, uint8_t* b) { (void)a; (void)b; ENV_ENGINE_ASSERT(0, "libc fopen reached"); return 0; }
uint32_t ll2c_ext_fputs(uint8_t* a, uint8_t* b) { (void)a; (void)b; ENV_ENGINE_ASSERT(0, "libc fputs reached"); return 0; }
uint32_t ll2c_ext_fclose(uint8_t* a) { (void)a; ENV_ENGINE_ASSERT(0, "libc fclose reached"); return 0; }
uint32_t ll2c_ext_fflush(uint8_t* a) { (void)a; return 0; }
double ll2c_ext_fabs(double d) { return __builtin_fabs(d); }
void ll2c_ext_srand(uint32_t s) { (void)s; ENV_ENGINE_ASSERT(0, "libc srand reached"); }
uint32_t ll2c_ext_rand(void) { ENV_ENGINE_ASSERT(0, "libc rand reached"); return 0; }
uint32_t ll2c_ext_atexit(uint8_t* f) { (void)f; return 0; }
void ll2c_ext_abort(void) { ENV_ENGINE_ASSERT(0, "libc abort reached"); }
uint32_t ll2c_ext_fork(void) { ENV_ENGINE_ASSERT(0, "libc fork reached"); return 0; }
uint32_t ll2c_ext_waitpid(uint32_t a, uint8_t* b, uint32_t c) { (void)a; (void)b; (void)c; ENV_ENGINE_ASSERT(0, "libc waitpid reached"); return 0; }
#ifndef ENV_CUSTOM_KILL
uint32_t env_kill_calls, env_last_kill_pid, env_last_kill_sig;
uint32_t ll2c_ext_kill(uint32_t pid, uint32_t sig) { env_kill_calls++; env_last_kill_pid = pid; env_last_kill_sig = sig; return 0; }
#endif
#ifndef ENV_CUSTOM_EXIT
uint32_t env_exit_calls, env_last_exit_code;
void ll2c_ext__exit(uint32_t code) { env_exit_calls++; env_last_exit_code = code; END_PATH(); }
#endif
uint32_t env_errno;
uint8_t* ll2c_ext___errno_location(void) { return (uint8_t*)&env_errno; }
uint32_t ll2c_ext_gettimeofday(uint8_t* tv, uint8_t* tz) { (void)tz; ((uint64_t*)tv)[0] = 0; ((uint64_t*)tv)[1] = 0; return 0; }
uint64_t ll2c_ext_time(uint8_t* t) { (void)t; return 0; }
uint8_t* ll2c_ext_localtime(uint8_t* t) { (void)t; return 0; }
uint64_t ll2c_ext_strftime(uint8_t* s, uint64_t n, uint8_t* f, uint8_t* tm) { (void)f; (void)tm; if (n) s[0] = 0; return 0; }
uint32_t ll2c_ext_pthread_mutex_init(uint8_t* m, uint8_t* a) { (void)m; (void)a; return 0; }
#ifndef ENV_CUSTOM_PTHREAD
uint32_t ll2c_ext_pthread_mutex_lock(uint8_t* m) { (void)m; ENV_ENGINE_ASSERT(0, "pthread lock reached"); return 0; }
uint32_t ll2c_ext_pthread_mutex_unlock(uint8_t* m) { (void)m; return 0; }
#endif
uint32_t ll2c_ext_pthread_mutex_destroy(uint8_t* m) { (void)m; return 0; }
uint32_t ll2c_ext__setjmp(uint8_t* b) { (void)b; ENV_ENGINE_ASSERT(0, "setjmp reached in a harness translated without --nlx"); return 0; }
void ll2c_ext_longjmp(uint8_t* b, uint32_t v) { (void)b; (void)v; ENV_ENGINE_ASSERT(0, "longjmp reached in a harness translated without --nlx"); END_PATH(); }
#else
/* real build: kill/_exit seams do not exist; only the parent-side models are used */
#endif
