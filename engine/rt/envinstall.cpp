// Compiled into BOTH worlds (clang -> IR -> ll2c, and the real g++ build): routes the
// framework's platform seams to the env_* models so that the same fault/nondeterminism
// model drives the translated code under CBMC and the real code at replay time.
#include "CppUTest/TestHarness.h"
#include "CppUTest/PlatformSpecificFunctions.h"
#include <stdarg.h>

extern "C" {
void* env_malloc(size_t n);
void* env_realloc(void* p, size_t n);
void env_free(void* p);
int env_vsnprintf(char* str, size_t size, const char* format, va_list va);
int env_rand(void);
void env_srand(unsigned int seed);
unsigned long env_time_millis(void);
const char* env_time_string(void);
PlatformSpecificFile env_fopen(const char* name, const char* flag);
void env_fputs(const char* s, PlatformSpecificFile f);
void env_fclose(PlatformSpecificFile f);
void env_flush(void);
PlatformSpecificMutex env_mutex_create(void);
void env_mutex_lock(PlatformSpecificMutex m);
void env_mutex_unlock(PlatformSpecificMutex m);
void env_mutex_destroy(PlatformSpecificMutex m);
int env_fork(void);
int env_waitpid(int pid, int* status, int options);
void env_abort(void);
int env_atexit(void (*f)(void));

void h_env_install(void)
{
    PlatformSpecificMalloc = env_malloc;
    PlatformSpecificRealloc = env_realloc;
    PlatformSpecificFree = env_free;
    PlatformSpecificVSNprintf = env_vsnprintf;
    PlatformSpecificRand = env_rand;
    PlatformSpecificSrand = env_srand;
    GetPlatformSpecificTimeInMillis = env_time_millis;
    GetPlatformSpecificTimeString = env_time_string;
    PlatformSpecificFOpen = env_fopen;
    PlatformSpecificFPuts = env_fputs;
    PlatformSpecificFClose = env_fclose;
    PlatformSpecificFlush = env_flush;
    PlatformSpecificMutexCreate = env_mutex_create;
    PlatformSpecificMutexLock = env_mutex_lock;
    PlatformSpecificMutexUnlock = env_mutex_unlock;
    PlatformSpecificMutexDestroy = env_mutex_destroy;
    PlatformSpecificFork = env_fork;
    PlatformSpecificWaitPid = env_waitpid;
    PlatformSpecificAbort = env_abort;
    PlatformSpecificAtExit = env_atexit;
}
}
