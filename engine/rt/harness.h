/* harness-side macros: one harness source, three builds
 *   __CPROVER__           : inputs are nondet, CHECK is an assertion decided by the solver
 *   native (translated C) : inputs from a PRNG or a replay file; used for the differential run
 *   native (real g++ build of /repo): same; used for the differential run and for replaying counterexamples */
#ifndef LL2C_HARNESS_H
#define LL2C_HARNESS_H
#include <stdint.h>
#include <stddef.h>

#ifdef LL2C_CBMC
uint8_t nondet_u8(void); uint16_t nondet_u16(void); uint32_t nondet_u32(void); uint64_t nondet_u64(void); double nondet_double(void);
#define IN_U8(n)  uint8_t n = nondet_u8()
#define IN_U16(n) uint16_t n = nondet_u16()
#define IN_U32(n) uint32_t n = nondet_u32()
#define IN_U64(n) uint64_t n = nondet_u64()
#define IN_I32(n) int32_t n = (int32_t)nondet_u32()
#define IN_I64(n) int64_t n = (int64_t)nondet_u64()
#define IN_BOOL(n) uint32_t n = nondet_u32() & 1
#define IN_DBL(n) double n = nondet_double()
#define IN_ARR_U8(n, len) uint8_t n[len]; for (unsigned n##_i = 0; n##_i < (len); n##_i++) n[n##_i] = nondet_u8()
#define IN_ARR_U32(n, len) uint32_t n[len]; for (unsigned n##_i = 0; n##_i < (len); n##_i++) n[n##_i] = nondet_u32()
#define IN_ARR_U64(n, len) uint64_t n[len]; for (unsigned n##_i = 0; n##_i < (len); n##_i++) n[n##_i] = nondet_u64()
#define ASSUME(c) __CPROVER_assume(c)
#define CHECK(c, msg) __CPROVER_assert(c, "P:" msg)
#define OBSERVE(x) ((void)0)
#define OBSERVE_STR(x) ((void)0)
#define WITNESS(label) __CPROVER_assert(0, "WITNESS:" label)
void ll2c_global_ctors(void);   /* static initialisers of the translated module run first, as before main() */
#define HARNESS(name) static void name##_body(void); void name(void) { ll2c_global_ctors(); name##_body(); } static void name##_body(void)
#define END_PATH() __CPROVER_assume(0)
#define NATIVE_ONLY(x)
#define CBMC_ONLY(x) x
#else
#include <setjmp.h>
uint64_t hn_input(const char* name, int idx, int bits);
double hn_input_double(const char* name);
void hn_reject(void);
void hn_fail(const char* msg, int line);
void hn_observe(const char* what, uint64_t v);
void hn_observe_str(const char* what, const char* s);
void hn_register(const char* name, void (*fn)(void));
void hn_end_path(void);
#define IN_U8(n)  uint8_t n = (uint8_t)hn_input(#n, -1, 8)
#define IN_U16(n) uint16_t n = (uint16_t)hn_input(#n, -1, 16)
#define IN_U32(n) uint32_t n = (uint32_t)hn_input(#n, -1, 32)
#define IN_U64(n) uint64_t n = (uint64_t)hn_input(#n, -1, 64)
#define IN_I32(n) int32_t n = (int32_t)hn_input(#n, -1, 32)
#define IN_I64(n) int64_t n = (int64_t)hn_input(#n, -1, 64)
#define IN_BOOL(n) uint32_t n = (uint32_t)hn_input(#n, -1, 1)
#define IN_DBL(n) double n = hn_input_double(#n)
#define IN_ARR_U8(n, len) uint8_t n[len]; for (unsigned n##_i = 0; n##_i < (len); n##_i++) n[n##_i] = (uint8_t)hn_input(#n, (int)n##_i, 8)
#define IN_ARR_U32(n, len) uint32_t n[len]; for (unsigned n##_i = 0; n##_i < (len); n##_i++) n[n##_i] = (uint32_t)hn_input(#n, (int)n##_i, 32)
#define IN_ARR_U64(n, len) uint64_t n[len]; for (unsigned n##_i = 0; n##_i < (len); n##_i++) n[n##_i] = (uint64_t)hn_input(#n, (int)n##_i, 64)
#define ASSUME(c) do { if (!(c)) hn_reject(); } while (0)
#define CHECK(c, msg) do { if (!(c)) hn_fail(msg, __LINE__); } while (0)
#define OBSERVE(x) hn_observe(#x, (uint64_t)(x))
#define OBSERVE_STR(x) hn_observe_str(#x, (const char*)(x))
#define WITNESS(label) ((void)0)
#ifdef LL2C_TRANSLATED
void ll2c_global_ctors(void);
#define LL2C_RUN_CTORS() ll2c_global_ctors()
#else
#define LL2C_RUN_CTORS() ((void)0)   /* real build: the C++ runtime has run them */
#endif
#define HARNESS(name) static void name##_body(void); void name(void); __attribute__((constructor)) static void reg_##name(void) { hn_register(#name, name); } void name(void) { LL2C_RUN_CTORS(); name##_body(); } static void name##_body(void)
#define END_PATH() hn_end_path()
#define NATIVE_ONLY(x) x
#define CBMC_ONLY(x)
#endif
#endif
