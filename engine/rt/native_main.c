/* native driver: runs harness functions on PRNG-generated or replayed inputs and prints a
 * deterministic log (outcome + observations) that is diffed between the translated-C build
 * and the real g++ build of /repo. */
#include <stdio.h>
#include <stdlib.h>
#include <string.h>
#include <setjmp.h>
#include <stdint.h>
#include <unistd.h>
#include <sys/wait.h>
#include "harness.h"

struct hreg { const char* name; void (*fn)(void); };
static struct hreg regs[256]; static int nregs;
void hn_register(const char* name, void (*fn)(void)) { regs[nregs].name = name; regs[nregs].fn = fn; nregs++; }

static jmp_buf top; static int outcome; /* 0 pass 1 reject 2 fail 3 endpath */
static char failmsg[256];
static uint64_t rng;
static int replay_mode;
struct rv { char name[64]; int idx; uint64_t v; double d; int isd; };
static struct rv rvs[4096]; static int nrv;
static uint64_t obs_hash; static int verbose;

static uint64_t next64(void) { rng ^= rng << 13; rng ^= rng >> 7; rng ^= rng << 17; return rng * 0x2545F4914F6CDD1DULL; }

uint64_t hn_input(const char* name, int idx, int bits) {
  uint64_t mask = bits >= 64 ? ~0ULL : ((1ULL << bits) - 1);
  if (replay_mode) {
    for (int i = 0; i < nrv; i++) if (!strcmp(rvs[i].name, name) && rvs[i].idx == idx) return rvs[i].v & mask;
    return 0;
  }
  uint64_t r = next64(), v;
  if (bits == 8 && idx >= 0) { /* bytes of strings / blocks: small alphabets make matches likely */
    static const uint8_t al[] = {0, 'a', 'b', 'a', 'b', 'a', 0, 'c', 'A', 'B', '&', '<', '>', '"', '\'', '\n', '|', '[', ']', ' ', 0x80, 0xff, 1, 0x7f, '-', '0', '1', '9', '.', ',', '(', ')'};
    switch (r & 7) { case 0: case 1: case 2: v = al[next64() % 8]; break; case 3: case 4: v = al[next64() % sizeof al]; break; case 5: v = next64() % 3; break; default: v = next64() & 0xff; break; }
    if (verbose) printf("    in %s[%d]=%llu\n", name, idx, (unsigned long long)v);
    return v;
  }
  switch (r & 7) {
    case 0: case 1: case 2: v = (next64() % 9); break;                      /* small */
    case 3: v = (next64() % 130); break;                                    /* byte-ish, printable range */
    case 4: { static const uint64_t b[] = {0, 1, 0x7f, 0x80, 0xff, 0x7fff, 0x8000, 0xffff, 0x7fffffffULL, 0x80000000ULL, 0xffffffffULL, 0x100000000ULL, 0x7fffffffffffffffULL, 0x8000000000000000ULL, 0xffffffffffffffffULL, 0xfffffffffffffffeULL};
              v = b[next64() % 16] + (next64() % 3) - 1; break; }
    case 5: v = next64() >> (next64() % 64); break;
    default: v = next64(); break;
  }
  v &= mask;
  if (verbose) printf("    in %s[%d]=%llu\n", name, idx, (unsigned long long)v);
  return v;
}
double hn_input_double(const char* name) {
  if (replay_mode) { for (int i = 0; i < nrv; i++) if (!strcmp(rvs[i].name, name)) { if (rvs[i].isd) return rvs[i].d; double d; memcpy(&d, &rvs[i].v, 8); return d; } return 0.0; }
  uint64_t r = next64(); double d;
  static const double sp[] = {0.0, -0.0, 1.0, -1.0, 0.5, 1e308, -1e308, 4.9e-324, 2.2250738585072014e-308, 1.0/0.0, -1.0/0.0, 0.0/0.0, 1e-9, 100.0, 0.1, 3.0};
  switch (r & 3) {
    case 0: d = sp[next64() % 16]; break;
    case 1: d = (double)(int64_t)(next64() % 21) - 10.0; break;
    case 2: d = ((double)(next64() % 2001) - 1000.0) / 8.0; break;
    default: { uint64_t b = next64(); memcpy(&d, &b, 8); break; }
  }
  if (verbose) printf("    in %s=%a\n", name, d);
  return d;
}
void hn_reject(void) { outcome = 1; longjmp(top, 1); }
void hn_end_path(void) { outcome = 3; longjmp(top, 1); }
void hn_fail(const char* msg, int line) { outcome = 2; snprintf(failmsg, sizeof failmsg, "%s (harness line %d)", msg, line); longjmp(top, 1); }
void ll2c_native_abort(const char* why) { outcome = 2; snprintf(failmsg, sizeof failmsg, "ENGINE: %s", why); longjmp(top, 1); }
void hn_observe(const char* what, uint64_t v) {
  obs_hash = (obs_hash ^ v) * 0x100000001b3ULL; for (const char* p = what; *p; p++) obs_hash = (obs_hash ^ (uint8_t)*p) * 0x100000001b3ULL;
  if (verbose) printf("    obs %s=%llu\n", what, (unsigned long long)v);
}
void hn_observe_str(const char* what, const char* s) {
  if (!s) { hn_observe(what, 0xdeadULL); return; }
  for (const char* p = s; *p; p++) obs_hash = (obs_hash ^ (uint8_t)*p) * 0x100000001b3ULL;
  if (verbose) printf("    obs %s=\"%s\"\n", what, s);
}

static int load_replay(const char* path) {
  FILE* f = fopen(path, "r"); if (!f) return -1;
  char line[512];
  while (fgets(line, sizeof line, f)) {
    /* lines: name idx value   |  name idx d:<hexfloat> */
    char nm[64], val[128]; int idx;
    if (sscanf(line, "%63s %d %127s", nm, &idx, val) != 3) continue;
    struct rv* r = &rvs[nrv++]; strcpy(r->name, nm); r->idx = idx; r->isd = 0;
    if (val[0] == 'd' && val[1] == ':') { r->isd = 1; r->d = strtod(val + 2, 0); memcpy(&r->v, &r->d, 8); }
    else r->v = strtoull(val, 0, 0);
  }
  fclose(f); return 0;
}

void hn_native_reset(void) __attribute__((weak));
void hn_native_reset(void) {}

static int run_child(void (*fn)(void), int i) {
  /* each run in its own process: statics of the code under test start fresh, crashes are contained */
  fflush(stdout);
  pid_t pid = fork();
  if (pid == 0) {
    alarm(20); obs_hash = 0xcbf29ce484222325ULL; outcome = 0;
    if (verbose) printf("run %d\n", i);
    if (!setjmp(top)) fn();
    if (outcome != 1)
      printf("run %d outcome=%s obs=%016llx %s\n", i, outcome == 0 ? "pass" : outcome == 3 ? "endpath" : "FAIL", (unsigned long long)obs_hash, outcome == 2 ? failmsg : "");
    fflush(stdout);
    _exit(10 + outcome);
  }
  int st = 0; waitpid(pid, &st, 0);
  if (WIFEXITED(st) && WEXITSTATUS(st) >= 10 && WEXITSTATUS(st) <= 13) return WEXITSTATUS(st) - 10;
  printf("run %d outcome=CRASH status=0x%x\n", i, st);
  return 4;
}

int main(int argc, char** argv) {
  /* usage: prog list | prog random <harness> <seed> <n> [-v] | prog replay <harness> <file> */
  setvbuf(stdout, 0, _IOLBF, 0);
  if (argc >= 2 && !strcmp(argv[1], "list")) { for (int i = 0; i < nregs; i++) puts(regs[i].name); return 0; }
  if (argc < 4) { fprintf(stderr, "usage\n"); return 2; }
  void (*fn)(void) = 0;
  for (int i = 0; i < nregs; i++) if (!strcmp(regs[i].name, argv[2])) fn = regs[i].fn;
  if (!fn) { fprintf(stderr, "no harness %s\n", argv[2]); return 2; }
  if (argc >= 6 && !strcmp(argv[5], "-v")) verbose = 1;
  if (!strcmp(argv[1], "replay")) {
    replay_mode = 1; verbose = 1;
    if (load_replay(argv[3])) { fprintf(stderr, "cannot read %s\n", argv[3]); return 2; }
    int o = run_child(fn, 0);
    printf("REPLAY outcome=%s\n", o == 0 ? "pass" : o == 1 ? "reject" : o == 3 ? "endpath" : o == 2 ? "FAIL" : "CRASH");
    return (o == 2 || o == 4) ? 1 : 0;
  }
  uint64_t seed = strtoull(argv[3], 0, 0); int n = atoi(argv[4]);
  int counts[5] = {0, 0, 0, 0, 0};
  for (int i = 0; i < n; i++) {
    rng = (seed + 1) * 0x9E3779B97F4A7C15ULL + (uint64_t)i * 0xD1B54A32D192ED03ULL + 1; next64(); next64();
    counts[run_child(fn, i)]++;
  }
  printf("SUMMARY pass=%d reject=%d fail=%d endpath=%d crash=%d\n", counts[0], counts[1], counts[2], counts[3], counts[4]);
  return 0;
}
