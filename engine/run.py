#!/usr/bin/env python3
"""Driver for the solver-based checks of /verif (see DESIGN.md).

    python3 engine/run.py C13 --tier quick|thorough [--only fn] [--keep] [--jobs N]

For the property's harness groups (harness/<id>/spec.py) it
  1. compiles /repo's CURRENT sources + the harness wrapper to LLVM IR (clang), links, prunes
     to the code reachable from the wrapper's h_* entry points, and translates it to C (ll2c);
  2. decides every obligation with CBMC (bounded symbolic execution + SAT), requiring the
     WITNESS assertion of each obligation to be reachable;
  3. builds the same harness natively twice - against the translated C and against a real
     g++ -fsanitize=address,undefined build of /repo - and diffs their behaviour on seeded
     random inputs (validation of the translator, not the deciding step);
  4. replays every counterexample against the real build and reports only what reproduces;
  5. applies /verif/known_findings.json and writes /verif/evidence/<id>.json.
Exit 0: every obligation discharged.  Exit 1 + "VIOLATION property=<id> replay=<path>":
a counterexample that reproduces on the real build.  Exit 2: engine error / inconclusive.
"""
import sys, os, re, json, time, glob, shutil, subprocess, tempfile, resource, importlib.util, argparse, hashlib, threading, signal
from concurrent.futures import ThreadPoolExecutor

VERIF = os.path.dirname(os.path.dirname(os.path.abspath(__file__)))
ENG = os.path.join(VERIF, 'engine')
RT = os.path.join(ENG, 'rt')
REPO = os.environ.get('VERIF_REPO', '/repo')
LL2C = os.path.join(ENG, 'bin', 'll2c')

CFG_DEFS = ['-DCPPUTEST_USE_LONG_LONG=1', '-DCPPUTEST_HAVE_STRDUP', '-DCPPUTEST_HAVE_FORK', '-DCPPUTEST_HAVE_WAITPID',
            '-DCPPUTEST_HAVE_KILL', '-DCPPUTEST_HAVE_PTHREAD_MUTEX_LOCK', '-DCPPUTEST_HAVE_GETTIMEOFDAY',
            '-DCPPUTEST_STD_CPP_LIB_DISABLED', '-DCPPUTEST_VERIF']
CBMC_FLAGS = ['--unwinding-assertions', '--pointer-overflow-check', '--undefined-shift-check',
              '--drop-unused-functions', '--no-malloc-may-fail', '--no-standard-checks', '--bounds-check', '--pointer-check',
              '--div-by-zero-check', '--verbosity', '8', '--object-bits', '10']
MEM_LIMIT = 28 * 1024 ** 3


def log(*a):
    print(*a, flush=True)


def sh(cmd, cwd=None, timeout=None, check=True, env=None):
    p = subprocess.run(cmd, cwd=cwd, stdout=subprocess.PIPE, stderr=subprocess.STDOUT, timeout=timeout, env=env)
    out = p.stdout.decode('utf-8', 'replace')
    if check and p.returncode != 0:
        raise RuntimeError('command failed (%d): %s\n%s' % (p.returncode, ' '.join(cmd), out[-4000:]))
    return p.returncode, out


def repo_sources(cfg):
    src = sorted(glob.glob(os.path.join(REPO, 'src/CppUTest/*.cpp')))
    if cfg.get('ext'):
        src += sorted(glob.glob(os.path.join(REPO, 'src/CppUTestExt/*.cpp')))
        src = [s for s in src if not s.endswith(('GTest.cpp', 'IEEE754ExceptionsPlugin.cpp'))]
    src.append(os.path.join(REPO, 'src/Platforms/Gcc/UtestPlatform.cpp'))
    return src


def cfg_flags(cfg):
    f = list(CFG_DEFS)
    if not cfg.get('memleak'):
        f.append('-DCPPUTEST_MEM_LEAK_DETECTION_DISABLED')
    f.append('-fexceptions' if cfg.get('exceptions') else '-fno-exceptions')
    if not cfg.get('exceptions'):
        f.append('-fno-rtti')
    f += cfg.get('defines', [])
    return f


class Build:
    """One build configuration of /repo + wrapper: translated C, goto binary pieces, native objects."""

    def __init__(self, tmp, name, hdir, grp):
        self.tmp = os.path.join(tmp, name)
        os.makedirs(self.tmp, exist_ok=True)
        self.grp = grp
        self.cfg = grp.get('config', {})
        self.hdir = hdir
        self.wrapper = os.path.join(hdir, grp['wrapper'])
        self.harness = os.path.join(hdir, grp['harness'])
        self.encoded = []
        self.stats = {}
        self.lock = threading.Lock()

    def extra_defs(self):
        # with leak detection compiled in, /repo itself defines the global operator new/delete
        return ['-DENV_CUSTOM_NEW'] if self.cfg.get('memleak') else []

    def cxx_inputs(self):
        extra = [os.path.join(RT, 'envinstall.cpp'), self.wrapper]
        return repo_sources(self.cfg) + extra

    def translate(self):
        t0 = time.time()
        flags = cfg_flags(self.cfg)
        lls = []
        procs = []
        for i, f in enumerate(self.cxx_inputs()):
            o = os.path.join(self.tmp, 'ir%02d_%s.ll' % (i, os.path.basename(f)[:-4]))
            lls.append(o)
            cmd = ['clang++-14', '-std=gnu++14', '-O1', '-Xclang', '-disable-llvm-passes', '-S', '-emit-llvm', '-w',
                   '-I' + os.path.join(REPO, 'include'), '-I' + RT] + flags + [f, '-o', o]
            procs.append((cmd, subprocess.Popen(cmd, stdout=subprocess.PIPE, stderr=subprocess.STDOUT)))
        for cmd, p in procs:
            out, _ = p.communicate()
            if p.returncode != 0:
                raise RuntimeError('clang failed: %s\n%s' % (' '.join(cmd), out.decode()[-3000:]))
        allbc = os.path.join(self.tmp, 'all.bc')
        sh(['llvm-link-14'] + lls + ['-o', allbc])
        # entry points = extern "C" h_* functions defined by the wrapper / envinstall
        _, syms = sh(['llvm-nm-14', '--defined-only', allbc])
        api = sorted(set(l.split()[-1] for l in syms.splitlines() if l.split() and l.split()[-1].startswith('h_')))
        pruned = os.path.join(self.tmp, 'pruned.ll')
        sh(['opt-14', '-S', '-passes=internalize,globaldce,function(sroa,early-cse,simplifycfg,instsimplify,adce),globaldce',
            '-internalize-public-api-list=' + ','.join(api), allbc, '-o', pruned])
        cmd = [LL2C, pruned, '-o', os.path.join(self.tmp, 'translated.c'), '--header', os.path.join(self.tmp, 'translated.h')]
        if self.cfg.get('nlx'):
            cmd.append('--nlx')
        if self.cfg.get('heapcheck', True):
            cmd.append('--heapcheck')
        for s in self.cfg.get('stubs', []):
            cmd += ['--stub', s]
        for s in self.cfg.get('empty_regex', []):
            cmd += ['--empty-regex', s]
        for s in self.cfg.get('entry_asserts', []):
            cmd += ['--entry-assert', s]
        rc, out = sh(cmd)
        for l in out.splitlines():
            if l.startswith('ENCODED'):
                self.encoded = l.split()[1:]
            if l.startswith('EMPTIED'):
                self.stats['contract_only_functions'] = l.split()[1:]
            m = re.match(r'll2c: functions=(\d+) virtual_sites=(\d+) indirect_sites=(\d+)', l)
            if m:
                self.stats = {'functions_translated': int(m.group(1)), 'virtual_call_sites': int(m.group(2)), 'indirect_call_sites': int(m.group(3))}
        self.stats['translate_s'] = round(time.time() - t0, 2)
        # goto binary of the translated code (shared by all obligations of the group)
        sh(['goto-cc', '-DLL2C_CBMC', '-DLL2C_TRANSLATED', '-I' + RT, '-I' + self.tmp, '-c', os.path.join(self.tmp, 'translated.c'),
            '-o', os.path.join(self.tmp, 'translated.goto')])

    def goto_for(self, defines):
        key = hashlib.md5(' '.join(defines).encode()).hexdigest()[:8]
        out = os.path.join(self.tmp, 'g_%s.goto' % key)
        with self.lock:
          if not os.path.exists(out):
            hobj = os.path.join(self.tmp, 'h_%s.goto' % key)
            sh(['goto-cc', '-DLL2C_CBMC', '-DLL2C_TRANSLATED', '-I' + RT, '-I' + self.tmp, '-I' + self.hdir] + self.extra_defs() + defines + ['-c', self.harness, '-o', hobj])
            sh(['goto-cc', os.path.join(self.tmp, 'translated.goto'), hobj, '-o', out + '.tmp'])
            os.rename(out + '.tmp', out)
        return out

    # ---- native builds
    SAN = ['-fsanitize=address,undefined', '-fno-sanitize-recover=undefined', '-fno-omit-frame-pointer']

    def build_native_common(self):
        t0 = time.time()
        procs = []
        self.robjs = []
        flags = cfg_flags(self.cfg)
        for i, f in enumerate(self.cxx_inputs()):
            o = os.path.join(self.tmp, 'r%02d_%s.o' % (i, os.path.basename(f)[:-4]))
            self.robjs.append(o)
            cmd = ['g++', '-std=gnu++14', '-O1', '-g', '-w', '-c', '-I' + os.path.join(REPO, 'include'), '-I' + RT] + self.SAN + flags + [f, '-o', o]
            procs.append((cmd, subprocess.Popen(cmd, stdout=subprocess.PIPE, stderr=subprocess.STDOUT)))
        tobj = os.path.join(self.tmp, 't_translated.o')
        cmd = ['gcc', '-O1', '-g', '-w', '-c', '-DLL2C_TRANSLATED', '-I' + RT, '-I' + self.tmp] + self.SAN + [os.path.join(self.tmp, 'translated.c'), '-o', tobj]
        procs.append((cmd, subprocess.Popen(cmd, stdout=subprocess.PIPE, stderr=subprocess.STDOUT)))
        mobj = os.path.join(self.tmp, 'native_main.o')
        cmd = ['gcc', '-O1', '-g', '-w', '-c', '-I' + RT] + self.SAN + [os.path.join(RT, 'native_main.c'), '-o', mobj]
        procs.append((cmd, subprocess.Popen(cmd, stdout=subprocess.PIPE, stderr=subprocess.STDOUT)))
        for cmd, p in procs:
            out, _ = p.communicate()
            if p.returncode != 0:
                raise RuntimeError('native compile failed: %s\n%s' % (' '.join(cmd), out.decode()[-3000:]))
        self.tobj, self.mobj = tobj, mobj
        self.stats['native_build_s'] = round(time.time() - t0, 2)

    def native_for(self, defines):
        key = hashlib.md5(' '.join(defines).encode()).hexdigest()[:8]
        tn = os.path.join(self.tmp, 'tnative_%s' % key)
        rn = os.path.join(self.tmp, 'rnative_%s' % key)
        with self.lock:
          if not os.path.exists(rn):
            ht = os.path.join(self.tmp, 'ht_%s.o' % key)
            hr = os.path.join(self.tmp, 'hr_%s.o' % key)
            base = ['gcc', '-O1', '-g', '-w', '-c', '-I' + RT, '-I' + self.tmp, '-I' + self.hdir] + self.SAN + self.extra_defs() + defines
            sh(base + ['-DLL2C_TRANSLATED', self.harness, '-o', ht])
            sh(base + [self.harness, '-o', hr])
            sh(['gcc'] + self.SAN + [self.tobj, ht, self.mobj, '-o', tn, '-lm', '-lstdc++'])
            sh(['g++'] + self.SAN + self.robjs + [hr, self.mobj, '-o', rn + '.tmp', '-lpthread', '-lm'])
            os.rename(rn + '.tmp', rn)
        return tn, rn


def limit_mem():
    resource.setrlimit(resource.RLIMIT_AS, (MEM_LIMIT, MEM_LIMIT))


def parse_cbmc_text(out):
    props = []
    for m in re.finditer(r'^\[([^\]]+)\] (?:line \d+ )?(.*): (SUCCESS|FAILURE|UNKNOWN|ERROR)$', out, re.M):
        props.append({'name': m.group(1), 'desc': m.group(2), 'status': m.group(3)})
    st = {}
    m = re.search(r'size of program expression: (\d+) steps', out)
    if m: st['program_steps'] = int(m.group(1))
    vs = re.findall(r'(\d+) variables, (\d+) clauses', out)
    if vs: st['sat_variables'], st['sat_clauses'] = max(int(a) for a, b in vs), max(int(b) for a, b in vs)
    ts = re.findall(r'Runtime Solver: ([\d.e+-]+)s', out)
    if ts: st['solver_s'] = round(sum(float(t) for t in ts), 3)
    m = re.search(r'Runtime Symex: ([\d.e+-]+)s', out)
    if m: st['symex_s'] = round(float(m.group(1)), 3)
    st['verdict'] = 'SUCCESSFUL' if 'VERIFICATION SUCCESSFUL' in out else 'FAILED' if 'VERIFICATION FAILED' in out else 'NONE'
    return props, st


def cbmc_cmd(gotobin, ob):
    flags = list(CBMC_FLAGS)
    if ob.get('no_pointer_check'):
        flags = [f for f in flags if f not in ('--pointer-check', '--pointer-overflow-check')]
    if ob.get('object_bits'):
        flags[flags.index('--object-bits') + 1] = str(ob['object_bits'])
    cmd = ['cbmc', gotobin, '--function', ob['fn']] + flags
    cmd += ['--unwind', str(ob.get('unwind', 8))]
    if ob.get('unwindset'):
        cmd += ['--unwindset', ','.join(ob['unwindset'])]
    if ob.get('slice', True):
        cmd += ['--slice-formula']
    cmd += ob.get('cbmc_flags', [])
    if ob.get('solver') == 'kissat':
        cmd += ['--external-sat-solver', 'kissat']
    elif ob.get('solver') == 'cadical':
        cmd += ['--sat-solver', 'cadical']
    return cmd


def run_cbmc(build, ob):
    gotobin = build.goto_for(ob.get('defines', []))
    cmd = cbmc_cmd(gotobin, ob)
    t0 = time.time()
    res = {'cmd': ' '.join(cmd[:1] + ['<goto>'] + cmd[2:])}
    # own process group, so that a timeout kills cbmc itself and not only the /usr/bin/time wrapper
    # TMPDIR: cbmc writes the CNF for an external SAT solver to a temporary file (GBs); keep it inside the per-run scratch directory,
    # which is removed at the end, so that a solver killed on timeout leaves nothing behind in /tmp
    proc = subprocess.Popen(['/usr/bin/time', '-f', 'MAXRSS_KB=%M'] + cmd, stdout=subprocess.PIPE, stderr=subprocess.STDOUT,
                            preexec_fn=limit_mem, start_new_session=True, env=dict(os.environ, TMPDIR=build.tmp))
    try:
        outb, _ = proc.communicate(timeout=ob.get('timeout', 300))
        out = outb.decode('utf-8', 'replace')
        res['rc'] = proc.returncode
    except subprocess.TimeoutExpired:
        try:
            os.killpg(proc.pid, 9)
        except Exception:
            pass
        outb, _ = proc.communicate()
        out = (outb or b'').decode('utf-8', 'replace')
        res['rc'] = 'timeout'
    res['wall_s'] = round(time.time() - t0, 2)
    m = re.search(r'MAXRSS_KB=(\d+)', out)
    if m: res['max_rss_mb'] = int(m.group(1)) // 1024
    props, st = parse_cbmc_text(out)
    res.update(st)
    res['props'] = props
    res['tail'] = out[-1500:]
    return res


def extract_inputs(trace, fn, harness_file=None):
    """Inputs of a counterexample: assignments that directly follow a nondet_*() return value.
    Assignments inside the harness file (the HARNESS function, its _body, static body helpers) are keyed
    by variable name; those inside environment models by function name and call index."""
    vals = []
    prev_nondet = False
    counters = {}
    hbase = os.path.basename(harness_file) if harness_file else None
    for st in trace:
        if st.get('stepType') != 'assignment':
            continue
        lhs = st.get('lhs', '')
        if lhs.startswith('return_value_nondet'):
            prev_nondet = True
            continue
        if not prev_nondet:
            continue
        prev_nondet = False
        loc = st.get('sourceLocation', {})
        func = loc.get('function', '')
        binv = st.get('value', {}).get('binary')
        if binv is None:
            continue
        v = int(binv, 2)
        in_harness = func in (fn, fn + '_body') or func.startswith('body') or (hbase and os.path.basename(loc.get('file', '')) == hbase and not func.startswith('env_'))
        if in_harness:
            m = re.match(r'^([A-Za-z_]\w*)(?:\[(\d+)\w*\])?$', lhs)
            if not m:
                continue
            vals.append((m.group(1), int(m.group(2)) if m.group(2) is not None else -1, v))
        else:
            k = counters.get(func, 0)
            counters[func] = k + 1
            vals.append((func, k, v))
    return vals


def get_trace(build, ob, propname):
    gotobin = build.goto_for(ob.get('defines', []))
    cmd = cbmc_cmd(gotobin, ob) + ['--trace', '--json-ui', '--property', propname]
    try:
        proc = subprocess.Popen(cmd, stdout=subprocess.PIPE, stderr=subprocess.DEVNULL, preexec_fn=limit_mem, start_new_session=True, env=dict(os.environ, TMPDIR=build.tmp))
        try:
            outb, _ = proc.communicate(timeout=ob.get('timeout', 300) * 2)
        except subprocess.TimeoutExpired:
            os.killpg(proc.pid, 9)
            proc.communicate()
            raise
        d = json.loads(outb.decode('utf-8', 'replace'))
    except Exception as e:
        log('get_trace failed: %r' % (e,))
        return None
    for e in d:
        if isinstance(e, dict) and 'result' in e:
            for r in e['result']:
                if r.get('property') == propname and 'trace' in r:
                    return r['trace']
    return None


def native_run(binary, args, timeout=600):
    env = dict(os.environ)
    env['ASAN_OPTIONS'] = 'detect_leaks=0:abort_on_error=0:exitcode=99:allocator_may_return_null=1'
    env['UBSAN_OPTIONS'] = 'print_stacktrace=0:halt_on_error=1:exitcode=98'
    try:
        p = subprocess.run([binary] + args, stdout=subprocess.PIPE, stderr=subprocess.PIPE, timeout=timeout, env=env)
        return p.returncode, p.stdout.decode('utf-8', 'replace'), p.stderr.decode('utf-8', 'replace')
    except subprocess.TimeoutExpired as e:
        return 'timeout', (e.stdout or b'').decode('utf-8', 'replace'), ''


def do_replay(pid, SPEC, hdir, path, kf_defines):
    """Re-runs a stored counterexample (replays/<id>/*.txt) against a fresh ASan/UBSan build of /repo's current tree."""
    head = open(path).readline()
    m = re.search(r'obligation (\S+?)[: ]', head + ' ')
    if not m:
        log('cannot find the obligation id in the first line of ' + path); return 2
    oid = m.group(1)
    tmp = tempfile.mkdtemp(prefix='verif-replay-%s-' % pid)
    try:
        for gi, grp in enumerate(SPEC['groups']):
            for o in grp['obligations']:
                o = dict(o)
                o['defines'] = list(grp.get('defines', [])) + list(o.get('defines', [])) + kf_defines
                o.setdefault('id', o['fn'] + ('' if not o.get('defines') else '[' + ' '.join(d[2:] for d in o['defines'] if not d.startswith('-DKF_')) + ']'))
                if o['id'] != oid and o['fn'] != oid:
                    continue
                b = Build(tmp, 'g%d_%s' % (gi, grp['name']), hdir, grp)
                b.translate()
                b.build_native_common()
                tn, rn = b.native_for(o['defines'])
                rc, out, err = native_run(rn, ['replay', o['fn'], path], timeout=300)
                log(out + err[-3000:])
                if rc != 0:
                    log('VIOLATION property=%s replay=%s' % (pid, path))
                    log('  reproduced on the real build of the current tree (rc=%s)' % rc)
                    return 1
                log('replay of %s: the real build of the current tree passes this input' % path)
                return 0
        log('no obligation %s in harness/%s/spec.py' % (oid, pid)); return 2
    finally:
        shutil.rmtree(tmp, ignore_errors=True)


def main():
    ap = argparse.ArgumentParser()
    ap.add_argument('prop')
    ap.add_argument('--tier', default=os.environ.get('VERIF_TIER', 'quick'))
    ap.add_argument('--only', default=None)
    ap.add_argument('--keep', action='store_true')
    ap.add_argument('--jobs', type=int, default=14)
    ap.add_argument('--no-native', action='store_true')
    ap.add_argument('--replay', default=None, help='replay a counterexample file against the real build')
    args = ap.parse_args()
    pid = args.prop
    seed = int(os.environ.get('VERIF_SEED', '1'))
    t_start = time.time()
    hdir = os.path.join(VERIF, 'harness', pid)
    spec_path = os.path.join(hdir, 'spec.py')
    sp = importlib.util.spec_from_file_location('spec_' + pid, spec_path)
    mod = importlib.util.module_from_spec(sp)
    sp.loader.exec_module(mod)
    SPEC = mod.SPEC
    kf_all = json.load(open(os.path.join(VERIF, 'known_findings.json'))) if os.path.exists(os.path.join(VERIF, 'known_findings.json')) else {'findings': []}
    kfs = [k for k in kf_all.get('findings', []) if k['property'] == pid]
    open_kf = [k for k in kfs if k.get('status') == 'open']
    kf_defines = ['-D' + k['define'] for k in open_kf if k.get('define')]

    if not os.path.exists(LL2C):
        sh(['sh', os.path.join(ENG, 'setup.sh')])
    if args.replay:
        return do_replay(pid, SPEC, hdir, args.replay, kf_defines)
    tmp = tempfile.mkdtemp(prefix='verif-%s-' % pid)
    evidence = {'property_id': pid, 'tier': args.tier, 'seed': seed, 'level': SPEC.get('level', 'model_checking')}
    engine_errors, violations, notes, kf_lines = [], [], [], []
    ob_results = []
    builds = {}
    try:
        # ---- select obligations
        work = []
        for gi, grp in enumerate(SPEC['groups']):
            obs = [o for o in grp['obligations'] if o.get('tier', 'both') in ('both', args.tier) or (args.tier == 'thorough' and o.get('tier') == 'quick' and not o.get('quick_only'))]
            if args.only:
                obs = [o for o in obs if args.only in o['fn'] or args.only == o.get('id')]
            if not obs:
                continue
            b = Build(tmp, 'g%d_%s' % (gi, grp['name']), hdir, grp)
            builds[grp['name']] = b
            for o in obs:
                o = dict(o)
                o['defines'] = list(grp.get('defines', [])) + list(o.get('defines', [])) + kf_defines
                o.setdefault('id', o['fn'] + ('' if not o.get('defines') else '[' + ' '.join(d[2:] for d in o['defines'] if not d.startswith('-DKF_')) + ']'))
                work.append((b, o))
        if not work:
            log('no obligations selected'); return 2
        # ---- translate (parallel over groups)
        with ThreadPoolExecutor(max_workers=4) as ex:
            list(ex.map(lambda b: b.translate(), builds.values()))
        log('[%s] translated %d group(s) in %.1fs: %s' % (pid, len(builds), time.time() - t_start,
            ', '.join('%s=%d fns' % (n, b.stats.get('functions_translated', 0)) for n, b in builds.items())))
        # goto binaries per define-set (sequential per build to avoid races, cheap)
        for b, o in work:
            b.goto_for(o['defines'])
        # ---- solver runs + native builds concurrently
        njobs = max(1, min(args.jobs, SPEC.get('max_jobs', args.jobs)))   # memory-heavy properties limit their own parallelism
        with ThreadPoolExecutor(max_workers=njobs) as ex:
            nat_futs = {}
            if not args.no_native:
                nat_futs = {n: ex.submit(b.build_native_common) for n, b in builds.items()}
            futs = [(b, o, ex.submit(run_cbmc, b, o)) for b, o in sorted(work, key=lambda w: -w[1].get('timeout', 300))]
            for n, f in nat_futs.items():
                f.result()
            # differential runs
            diff_futs = []
            if not args.no_native:
                seen = set()
                for b, o in work:
                    key = (b.tmp, o['fn'], tuple(o['defines']))
                    if key in seen or o.get('diff_runs', 300) == 0:
                        continue
                    seen.add(key)
                    def diff(b=b, o=o):
                        tn, rn = b.native_for(o['defines'])
                        n = str(o.get('diff_runs', 300) * (4 if args.tier == 'thorough' else 1))
                        r1 = native_run(tn, ['random', o['fn'], str(seed), n])
                        r2 = native_run(rn, ['random', o['fn'], str(seed), n])
                        return o, r1, r2
                    diff_futs.append(ex.submit(diff))
            native_lock_builds = {}
            for b, o, f in futs:
                r = f.result()
                ob_results.append((b, o, r))
                if os.environ.get('VERIF_VERBOSE'):
                    log('   .. %s %s %.0fs' % (o['id'], r.get('verdict'), r['wall_s']))
            t_cb = time.time()
            diffs = [f.result() for f in diff_futs]
            log('[%s] solver runs done at %.0fs, differential runs done at %.0fs' % (pid, t_cb - t_start, time.time() - t_start))

        # ---- evaluate solver results
        total_props = 0
        discharged = 0
        samples = []
        for b, o, r in ob_results:
            oid = o['id']
            props = r['props']
            total_props += len(props)
            wit_all = [p for p in props if p['desc'].startswith('WITNESS:')]
            wit = [p for p in wit_all if p['desc'][8:] not in o.get('optional_witness', [])]
            if not wit and any(p['status'] == 'FAILURE' for p in wit_all):
                wit = [p for p in wit_all if p['status'] == 'FAILURE']
            eng = [p for p in props if p['desc'].startswith('ENGINE:') and p['status'] != 'SUCCESS']
            bad = [p for p in props if p['status'] == 'FAILURE' and not p['desc'].startswith('WITNESS:') and not p['desc'].startswith('ENGINE:')]
            bad.sort(key=lambda p: 0 if p['desc'].startswith('P:') else 2 if 'unwinding assertion' in p['desc'] else 1)
            unknown = [p for p in props if p['status'] not in ('SUCCESS', 'FAILURE')]
            expect_fail = o.get('expect') == 'fail'
            summ = {'obligation': oid, 'harness': o['fn'], 'bounds': o.get('bounds', ''), 'claim': o.get('claim', ''), 'unwind': o.get('unwind', 8),
                    'defines': [d for d in o['defines']], 'properties_checked': len(props), 'program_steps': r.get('program_steps'),
                    'sat_variables': r.get('sat_variables'), 'sat_clauses': r.get('sat_clauses'), 'solver_s': r.get('solver_s'),
                    'wall_s': r['wall_s'], 'max_rss_mb': r.get('max_rss_mb'), 'witnesses_reached': sum(1 for p in wit if p['status'] == 'FAILURE'), 'witnesses': len(wit)}
            if r['rc'] == 'timeout' or r.get('verdict') == 'NONE':
                summ['status'] = 'INCONCLUSIVE'
                engine_errors.append('%s: no verdict (%s) after %.0fs: %s' % (oid, r['rc'], r['wall_s'], r['tail'][-300:].replace('\n', ' | ')))
            elif unknown and not bad:
                summ['status'] = 'INCONCLUSIVE'
                engine_errors.append('%s: %d assertions UNKNOWN' % (oid, len(unknown)))
            elif eng and not bad:
                summ['status'] = 'ENGINE_ERROR'
                engine_errors.append('%s: %s' % (oid, '; '.join(p['desc'] for p in eng[:3])))
            elif not bad and (not wit or any(p['status'] != 'FAILURE' for p in wit)):
                summ['status'] = 'VACUOUS'
                engine_errors.append('%s: witness not reachable (vacuous harness): %s' % (oid, [p['desc'] for p in wit if p['status'] != 'FAILURE']))
            elif expect_fail:
                # a known-finding harness: the defect is expected to reproduce
                kf = next((k for k in open_kf if k.get('finding_fn') == o['fn']), None)
                if bad:
                    summ['status'] = 'KNOWN_FINDING_REPRODUCED'
                    if kf:
                        kf_lines.append('KNOWN-FINDING: property=%s %s [%s; solver counterexample on %s]' % (pid, kf['what'], kf['id'], bad[0]['desc']))
                    discharged += 1
                else:
                    summ['status'] = 'KNOWN_FINDING_GONE'
                    notes.append('%s: listed known finding no longer reproduces' % oid)
                    discharged += 1
            elif bad:
                summ['status'] = 'COUNTEREXAMPLE'
                summ['failed'] = [p['name'] + ': ' + p['desc'] for p in bad[:5]]
                # replay the first few failing properties against the real build
                confirmed = None
                for p in bad[:3]:
                    trace = get_trace(b, o, p['name'])
                    if trace is None:
                        continue
                    vals = extract_inputs(trace, o['fn'], b.harness)
                    rdir = os.path.join(VERIF, 'replays', pid)
                    os.makedirs(rdir, exist_ok=True)
                    rpath = os.path.join(rdir, '%s-%s.txt' % (re.sub(r'\W+', '_', oid), re.sub(r'\W+', '_', p['name'])))
                    with open(rpath, 'w') as fh:
                        fh.write('# property %s obligation %s failing assertion: %s\n# defines: %s\n' % (pid, oid, p['desc'], ' '.join(o['defines'])))
                        for nm, idx, v in vals:
                            fh.write('%s %d %d\n' % (nm, idx, v))
                    if args.no_native:
                        confirmed = (rpath, p, 'not replayed (--no-native)')
                        break
                    tn, rn = b.native_for(o['defines'])
                    rc, out, err = native_run(rn, ['replay', o['fn'], rpath], timeout=120)
                    with open(rpath, 'a') as fh:
                        fh.write('# replay on real build: rc=%s\n' % rc)
                        for l in (out + err).splitlines()[-25:]:
                            fh.write('#   ' + l + '\n')
                    if rc not in (0,):
                        confirmed = (rpath, p, 'reproduced on real build (rc=%s)' % rc)
                        break
                    else:
                        summ.setdefault('unreproduced', []).append(p['desc'])
                if confirmed:
                    violations.append((oid, confirmed[0], confirmed[1]['desc'], confirmed[2]))
                    summ['replay'] = confirmed[0]
                else:
                    engine_errors.append('%s: counterexample for "%s" [%s] did not reproduce on the real build (encoding/stub error or sanitizer-invisible UB)' % (oid, bad[0]['desc'], bad[0]['name']))
            else:
                summ['status'] = 'DISCHARGED'
                discharged += 1
            samples.append(summ)
        # ---- evaluate differential runs
        agree = 0
        diff_total = 0
        for o, r1, r2 in ([] if args.no_native else diffs):
            l1 = [l for l in r1[1].splitlines() if l.startswith('run ')]
            l2 = [l for l in r2[1].splitlines() if l.startswith('run ')]
            diff_total += len(l2)
            summ1 = (r1[1].splitlines() or [''])[-1]
            if r1[0] != 0 or r2[0] != 0:
                engine_errors.append('%s: native run failed rc=%s/%s %s' % (o['id'], r1[0], r2[0], (r1[2] + r2[2])[-300:]))
                continue
            bad_real = [l for l in l2 if 'outcome=FAIL' in l or 'outcome=CRASH' in l]
            if bad_real and o.get('expect') != 'fail':
                # a sampled input violates the harness assertion on the real build
                idx = int(bad_real[0].split()[1])
                tn, rn = builds[[n for n, b in builds.items() if any(w[1]['fn'] == o['fn'] for w in work if w[0] is b)][0]].native_for(o['defines'])
                rc, out, err = native_run(rn, ['random', o['fn'], str(seed), str(idx + 1), '-v'])
                rdir = os.path.join(VERIF, 'replays', pid); os.makedirs(rdir, exist_ok=True)
                rpath = os.path.join(rdir, '%s-sampled.txt' % re.sub(r'\W+', '_', o['id']))
                lines = out.splitlines()
                start = max(i for i, l in enumerate(lines) if l.strip() == 'run %d' % idx)
                with open(rpath, 'w') as fh:
                    fh.write('# property %s obligation %s: sampled input failing on the real build\n' % (pid, o['id']))
                    for l in lines[start:]:
                        m = re.match(r'\s+in (\w+)\[(-?\d+)\]=(\d+)', l)
                        if m: fh.write('%s %s %s\n' % m.groups())
                        elif l.startswith('run %d outcome' % idx): fh.write('# ' + l + '\n')
                violations.append((o['id'], rpath, bad_real[0], 'sampled differential input fails on the real build'))
                continue
            if l1 != l2:
                k = next((i for i in range(min(len(l1), len(l2))) if l1[i] != l2[i]), min(len(l1), len(l2)))
                engine_errors.append('%s: translated C and real build disagree, e.g. T="%s" R="%s"' % (o['id'], l1[k] if k < len(l1) else '-', l2[k] if k < len(l2) else '-'))
            else:
                agree += len(l2)
        # ---- verdict
        for l in kf_lines:
            log(l)
        for k in open_kf:
            if not any(k['id'] in l for l in kf_lines) and not args.only:
                if not any(o.get('fn') == k.get('finding_fn') for b, o in work):
                    log('KNOWN-FINDING: property=%s %s [%s; finding harness not part of this tier, input predicate excluded from the proof]' % (pid, k['what'], k['id']))
        for n in notes:
            log('NOTE ' + n)
        nonwit = total_props
        evidence['coverage'] = {
            'evaluations': total_props,
            'distinct_nontrivial': discharged,
            'rule': 'evaluations = assertions (property, memory-safety, unwinding) decided by the SAT solver over all inputs within the bounds; distinct_nontrivial = obligations (harness x bound) fully discharged with a reachable witness',
            'obligations': len(ob_results), 'discharged': discharged,
            # size of what the solver decided: states = steps of the unwound SSA programs (one per symbolic program state),
            # transitions = clauses of the propositional encodings (the constraints relating successive states)
            'states': max(1, sum((r.get('program_steps') or 0) for b, o, r in ob_results)),
            'transitions': max(1, sum((r.get('sat_clauses') or 0) for b, o, r in ob_results)),
            'traces_validated_against_impl': agree,
            'explanation': 'Bounded symbolic execution (CBMC 6.11, SAT) of C generated by ll2c from LLVM IR of /repo\'s current sources; every obligation requires all assertions SUCCESS, unwinding assertions included, and its WITNESS assertion reachable. The translated C is cross-checked against a real g++ ASan/UBSan build on %d seeded random inputs.' % diff_total,
            'functions_encoded': {n: [f for f in b.encoded if any(s in f for s in SPEC.get('functions_of_interest', []))][:60] for n, b in builds.items()},
            'translation': {n: b.stats for n, b in builds.items()},
            'samples': samples,
            'solver_time_s': round(sum((r.get('solver_s') or 0) for b, o, r in ob_results), 2),
            'checker_cmd': ob_results[0][2]['cmd'] if ob_results else '',
            'known_findings': [k['id'] + ': ' + k['what'] for k in open_kf],
            'exhaustive': False,
        }
        evidence['assumptions'] = SPEC.get('assumptions', []) + [
            'clang-14 x86-64 LP64 IR semantics stand for the g++ build wherever the source is free of undefined behaviour',
            'CPPUTEST_USE_STD_CPP_LIB=0 configuration; environment models in engine/rt/env.c are the contracts of libc/OS',
            'claims hold only within the stated bounds of each obligation (see samples[].bounds)']
        evidence['wall_s'] = round(time.time() - t_start, 2)
        evidence['violations'] = len(violations)
        if engine_errors:
            evidence['coverage']['engine_errors'] = engine_errors
        if not args.only and not os.environ.get('VERIF_NO_EVIDENCE'):
            os.makedirs(os.path.join(VERIF, 'evidence'), exist_ok=True)
            json.dump(evidence, open(os.path.join(VERIF, 'evidence', pid + '.json'), 'w'), indent=1)
        for s in samples:
            log('  %-14s %-60s steps=%s vars=%s solver=%ss wall=%ss rss=%sMB' % (s['status'], s['obligation'][:60], s['program_steps'], s['sat_variables'], s['solver_s'], s['wall_s'], s['max_rss_mb']))
        log('[%s] tier=%s obligations=%d discharged=%d assertions=%d differential_agree=%d/%d wall=%.0fs' % (pid, args.tier, len(ob_results), discharged, total_props, agree, diff_total, time.time() - t_start))
        if violations:
            for oid, rpath, desc, how in violations:
                log('VIOLATION property=%s replay=%s' % (pid, rpath))
                log('  obligation %s: %s [%s]' % (oid, desc, how))
            return 1
        if engine_errors:
            for e in engine_errors:
                log('ENGINE-ERROR ' + e)
            return 2
        return 0
    finally:
        if args.keep:
            log('kept ' + tmp)
        else:
            shutil.rmtree(tmp, ignore_errors=True)


if __name__ == '__main__':
    sys.exit(main())
