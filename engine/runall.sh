#!/bin/sh
# runs the quick tier of every property given (default: all claimed in MANIFEST.json), one after the other
cd "$(dirname "$0")/.."
TIER=${TIER:-quick}
IDS="$@"
[ -z "$IDS" ] && IDS=$(python3 -c "import json;print(' '.join(c['property_id'] for c in json.load(open('MANIFEST.json'))['checks']))")
for id in $IDS; do
  s=$(date +%s)
  python3 engine/run.py $id --tier $TIER --jobs ${JOBS:-8} > /tmp/runall_$id.log 2>&1
  rc=$?
  echo "$id rc=$rc $(( $(date +%s) - s ))s $(grep '^\[' /tmp/runall_$id.log | tail -1)"
done
