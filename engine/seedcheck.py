#!/usr/bin/env python3
"""Confirm a seeded change and run the checks against it.

  python3 engine/seedcheck.py <dir with patch.diff, demo.cpp, meta.json> [--checks C13,C12] [--tier quick]

1. in a scratch worktree of /repo (outside /repo and /verif): apply the patch, build, run the existing
   test suite (must still pass), build+run the demonstration (must FAIL); revert, rebuild, demonstration must PASS;
2. copy patch/demo/meta into /verif/seeded/<id>/;
3. apply the patch to /repo itself, run the named checks, undo (`git checkout -- .`), record which check caught it.
"""
import sys, os, json, subprocess, shutil, re, argparse, time
V = os.path.dirname(os.path.dirname(os.path.abspath(__file__)))
WT = os.environ.get('SEEDWT', '/tmp/seedwt')

def sh(cmd, cwd=None, timeout=3600):
    p = subprocess.run(cmd, shell=isinstance(cmd, str), cwd=cwd, stdout=subprocess.PIPE, stderr=subprocess.STDOUT, timeout=timeout)
    return p.returncode, p.stdout.decode('utf-8', 'replace')

def build_and_test():
    rc, out = sh('cmake -G Ninja -S %s -B %s/_b -DCMAKE_BUILD_TYPE=RelWithDebInfo > /dev/null 2>&1; cmake --build %s/_b -j8 -- -k 0 2>&1 | tail -3' % (WT, WT, WT))
    rc, out = sh('ctest --test-dir %s/_b -j8 --timeout 600 2>&1 | tail -5' % WT)
    m = re.search(r'(\d+)% tests passed, (\d+) tests failed out of (\d+)', out)
    return (m is not None and m.group(2) == '0' and int(m.group(3)) >= 20), out.strip().splitlines()[-3:] if out.strip() else []

def demo(src):
    exe = WT + '/_b/demo_exe'
    ext = WT + '/_b/src/CppUTestExt/libCppUTestExt.a'
    libs = (ext + ' ' if os.path.exists(ext) else '') + WT + '/_b/src/CppUTest/libCppUTest.a'
    rc, out = sh('g++ -std=gnu++14 -g -I%s/include %s %s -o %s -lpthread 2>&1 | tail -5' % (WT, src, libs, exe))
    if not os.path.exists(exe):
        return None, out
    try:
        rc, out = sh('timeout 120 ' + exe, timeout=200)
    except Exception as e:
        rc, out = 124, str(e)
    os.remove(exe)
    return rc, out[-400:]

def main():
    ap = argparse.ArgumentParser(); ap.add_argument('dir'); ap.add_argument('--checks', default=None); ap.add_argument('--tier', default='quick'); ap.add_argument('--skip-confirm', action='store_true')
    a = ap.parse_args()
    d = os.path.abspath(a.dir)
    meta = json.load(open(os.path.join(d, 'meta.json')))
    pid = meta.get('property') or os.path.basename(d)
    patch = os.path.join(d, 'patch.diff')
    demo_src = os.path.join(d, 'demo.cpp')
    res = {'property': pid, 'confirmed_at': time.strftime('%Y-%m-%d %H:%M')}
    sh('git -C /repo worktree remove --force %s' % WT)
    rc, out = sh('git -C /repo worktree add --detach %s HEAD' % WT)
    caught = {}
    try:
        if not a.skip_confirm:
            ok0, _ = build_and_test()                       # clean tree first: the demonstration must pass
            rcc, outc = demo(demo_src)
            res['demo_rc_without_patch'] = rcc
        rc, out = sh('git -C %s apply %s' % (WT, patch))
        res['patch_applies'] = rc == 0
        if rc != 0:
            print('patch does not apply:', out); print(json.dumps(res)); return 2
        if not a.skip_confirm:
            ok, tail = build_and_test()
            res['existing_tests_pass_with_patch'] = ok; res['ctest_tail'] = tail
            rcd, outd = demo(demo_src)
            res['demo_rc_with_patch'] = rcd
            res['confirmed'] = bool(ok and rcd not in (0, None) and rcc == 0)
            print('confirm:', json.dumps(res))
            if not res['confirmed']:
                return 3
        sd = os.path.join(V, 'seeded', pid + ('' if not meta.get('variant') else '-' + meta['variant']))
        os.makedirs(sd, exist_ok=True)
        for f in ('patch.diff', 'demo.cpp'):
            shutil.copy(os.path.join(d, f), os.path.join(sd, f))
        checks = (a.checks.split(',') if a.checks else [pid])
        env = 'VERIF_REPO=%s VERIF_NO_EVIDENCE=1 ' % WT      # the checks read the patched scratch tree, /repo itself is never touched
        for c in checks:
            t0 = time.time()
            rc, out = sh(env + 'python3 engine/run.py %s --tier %s --jobs %s' % (c, a.tier, os.environ.get('JOBS', '8')), cwd=V, timeout=9000)
            viol = [l for l in out.splitlines() if l.startswith('VIOLATION')]
            eng = [l for l in out.splitlines() if l.startswith('ENGINE-ERROR')]
            caught[c] = {'exit': rc, 'violations': viol[:3], 'engine_errors': [e[:200] for e in eng[:3]], 'detail': [l.strip()[:220] for l in out.splitlines() if l.startswith('  obligation')][:3], 'wall_s': round(time.time() - t0)}
            print(c, 'exit', rc, viol[:1], [e[:160] for e in eng[:1]])
    finally:
        sh('git -C /repo worktree remove --force %s' % WT)
    meta.update({'confirmation': res, 'checks_run': caught, 'caught_by': [c for c, r in caught.items() if r['exit'] == 1 and r['violations']],
                 'what_i_ran': 'engine/seedcheck.py: scratch worktree of /repo HEAD: build + ctest + demo without and with the patch; then the quick checks run against the patched worktree (VERIF_REPO), worktree removed'})
    json.dump(meta, open(os.path.join(sd, 'meta.json'), 'w'), indent=1)
    print('caught_by:', meta['caught_by'])
    return 0

if __name__ == '__main__':
    sys.exit(main())
