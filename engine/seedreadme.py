#!/usr/bin/env python3
"""Writes seeded/README.md from seeded/*/meta.json (which seeded change is caught by which check)."""
import json, glob, os
V = os.path.dirname(os.path.dirname(os.path.abspath(__file__)))
rows = []
for m in sorted(glob.glob(os.path.join(V, 'seeded', '*', 'meta.json'))):
    d = json.load(open(m))
    name = os.path.basename(os.path.dirname(m))
    runs = d.get('checks_run', {})
    caught = d.get('caught_by', [])
    how = '; '.join('%s: %s' % (c, (r.get('detail') or r.get('violations') or r.get('engine_errors') or ['exit %s' % r.get('exit')])[0][:150]) for c, r in runs.items())
    rows.append((name, d.get('summary', '')[:230], d.get('needs', '')[:230], ', '.join(caught) if caught else ('NOT caught: ' + d['note_not_caught'] if d.get('note_not_caught') else 'NOT caught'), how))
with open(os.path.join(V, 'seeded', 'README.md'), 'w') as f:
    f.write('# Seeded changes\n\nEach directory holds `patch.diff` (applies to /repo HEAD), the demonstration `demo.cpp` written by an independent\n'
            'sub-agent that never saw /verif, and `meta.json` (what it breaks, what it needs to manifest, what was run to confirm it:\n'
            'existing suite still green, demonstration fails with the patch and passes without, and the result of the quick checks\n'
            'run against the patched tree). None of these changes is ever committed to /repo.\n\n')
    f.write('| change | what was changed | needs | caught by | how |\n|---|---|---|---|---|\n')
    for r in rows:
        f.write('| %s | %s | %s | %s | %s |\n' % tuple(x.replace('|', '/').replace('\n', ' ') for x in r))
print(len(rows), 'rows')
