#!/usr/bin/env python3
"""Prints the DESIGN.md 7.5 table (seeded change -> check/obligation that reports it) from seeded/*/meta.json."""
import json, glob, os, re
V = os.path.dirname(os.path.dirname(os.path.abspath(__file__)))
print('| seeded change | what it does | caught by | obligation | how |\n|---|---|---|---|---|')
for m in sorted(glob.glob(os.path.join(V, 'seeded', '*', 'meta.json'))):
    d = json.load(open(m))
    name = os.path.basename(os.path.dirname(m))
    caught = d.get('caught_by', [])
    note = d.get('note_not_caught', '')
    if not caught:
        print('| %s | %s | — (%s) |  |  |' % (name, d.get('summary', '')[:110].replace('|', '/'), note or 'not caught'))
        continue
    r = d['checks_run'][caught[0]]
    det = (r.get('detail') or [''])[0]
    ob = re.search(r'obligation (\S+)', det)
    how = 'solver counterexample, replayed' if 'reproduced on real build' in det else ('sampled differential input' if 'sampled' in det else det[:40])
    print('| %s | %s | %s | %s | %s |' % (name, d.get('summary', '')[:110].replace('|', '/'), ', '.join(caught), ob.group(1).rstrip(':') if ob else '', how))
