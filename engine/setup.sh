#!/bin/sh
# builds the IR->C translator from source with the installed LLVM-14 (offline, ~10 s)
set -e
D="$(cd "$(dirname "$0")" && pwd)"
mkdir -p "$D/bin"
g++ -O1 -w "$D/ll2c.cpp" $(llvm-config-14 --cxxflags) -o "$D/bin/ll2c" $(llvm-config-14 --ldflags) -lLLVM-14
echo "ll2c built: $D/bin/ll2c"
