/* C01 H1: one scripted test through the real runOneTest / Utest::run / setjmp machinery.
 * Symbolic: what each of 2 statements per phase does (continue / C++-style failing check /
 * C-style failing check / throw a foreign object), what the plugin reports, and the jump-stack
 * depth the test starts from.  Oracle: the lifecycle rules of the property, written below. */
#define ENV_CUSTOM_VSNPRINTF
#include "env.c"
#include "translated.h"
uint32_t env_vsnprintf(uint8_t* s, uint64_t n, uint8_t* f, uint8_t* va) { (void)f; (void)va; if (n > 1) { s[0] = '#'; s[1] = 0; } else if (n) s[0] = 0; return 1; }

#define NSTMT 2
static uint32_t act[3][NSTMT];          /* the script */
static uint32_t plug[2];                /* plugin reports an error in pre / post */
static uint32_t reached[3][NSTMT + 1];  /* trace */
static uint32_t order_err, pre_calls, post_calls, last_phase_seen;
static uint32_t printed_n; static uint64_t printed_line[8];

uint32_t h_action(uint32_t phase, uint32_t stmt) { return act[phase][stmt]; }
void h_trace(uint32_t phase, uint32_t stmt) {
  if (phase == 10) { pre_calls++; if (last_phase_seen != 0) order_err |= 1; last_phase_seen = 1; return; }
  if (phase == 11) { post_calls++; last_phase_seen = 9; return; }
  if (last_phase_seen == 9) order_err |= 2;                 /* test code after the post action */
  if (last_phase_seen == 0) order_err |= 4;                 /* test code before the pre action */
  reached[phase][stmt]++;
}
void h_printed(uint64_t line) { if (printed_n < 8) printed_line[printed_n] = line; printed_n++; }
uint32_t h_plugin_action(uint32_t pre) { return plug[pre ? 0 : 1]; }
uint32_t h_registry_outcome(uint32_t what, uint32_t rep) { (void)what; (void)rep; return 0; }
void h_rep_summary(uint32_t isFailure, uint64_t failures, uint64_t run, uint64_t ignored) { (void)isFailure; (void)failures; (void)run; (void)ignored; }

#ifdef LL2C_TRANSLATED
extern uint32_t _ZL13jmp_buf_index;     /* file-static of src/Platforms/Gcc/UtestPlatform.cpp, visible at C level */
#endif

static int fails(uint32_t a) { return a != 0; }

HARNESS(harness_lifecycle) {
  h_init();
  IN_ARR_U32(a, 6); IN_ARR_U32(pl, 2); IN_U32(depth);
  for (int p = 0; p < 3; p++) for (int i = 0; i < NSTMT; i++) { act[p][i] = a[p * NSTMT + i] & 3; ASSUME(act[p][i] <= MAXACT); }
  plug[0] = pl[0] & 1; plug[1] = pl[1] & 1;
#ifdef SCRIPT
  { static const uint32_t sc[8] = {SCRIPT}; for (int p = 0; p < 3; p++) for (int i = 0; i < NSTMT; i++) { if (sc[p * NSTMT + i] == 9) ASSUME(act[p][i] >= 1); else act[p][i] = sc[p * NSTMT + i]; } if (sc[6] != 9) plug[0] = sc[6]; if (sc[7] != 9) plug[1] = sc[7]; }
#endif
  ASSUME(depth <= 7);
#ifdef DEPTH_CONCRETE
  depth = DEPTH_CONCRETE;
#endif
#ifdef LL2C_TRANSLATED
  _ZL13jmp_buf_index = depth;           /* arbitrary nesting depth: the restore obligation is inductive */
#endif
  uint8_t* ctx_t = h_context_test(); uint8_t* ctx_r = h_context_result();
  h_run_one();
  /* ---- reference semantics */
  uint32_t exp_fail = plug[0] + plug[1];
  int setup_done = 1, phase_fail[3] = {0, 0, 0};
  for (int p = 0; p < 3; p++) {
    int runs = (p == 1) ? setup_done : 1;            /* body only if setup completed; setup and teardown always */
    int stopped = 0;
    for (int i = 0; i <= NSTMT; i++) {
      uint32_t want = (runs && !stopped) ? 1 : 0;
      CHECK(reached[p][i] == want, "a statement runs exactly when its phase runs and no earlier statement of the phase failed");
      if (i < NSTMT && runs && !stopped && fails(act[p][i])) { stopped = 1; phase_fail[p] = 1; }
    }
    if (p == 0 && phase_fail[0]) setup_done = 0;
  }
  exp_fail += phase_fail[0] + phase_fail[1] + phase_fail[2];
  OBSERVE(exp_fail);
  CHECK(h_failures() == exp_fail, "every failed check / escaped exception / plugin error is recorded exactly once");
  CHECK(printed_n == exp_fail, "every recorded failure is printed exactly once");
  CHECK(h_runs() == 1, "the test is counted as run once");
  CHECK((h_shell_failed() != 0) == (phase_fail[0] + phase_fail[1] + phase_fail[2] != 0), "the test is marked failed iff one of its own phases failed");
  CHECK(pre_calls == 1 && post_calls == 1 && order_err == 0, "plugin pre action before, post action after the test code, on every path");
  CHECK(h_context_test() == ctx_t && h_context_result() == ctx_r, "current test / result context restored");
  /* printed failures carry the line of the failing statement */
  {
    uint32_t k = 0;
    if (plug[0]) { CHECK(printed_line[k] == 901, "plugin pre failure location"); k++; }
    for (int p = 0; p < 3; p++) if (phase_fail[p]) {
      uint64_t line = 0; for (int i = NSTMT - 1; i >= 0; i--) if (reached[p][i] && fails(act[p][i])) line = 100 + p * 10 + i;
      uint32_t kind = 0; for (int i = 0; i < NSTMT; i++) if (reached[p][i] && fails(act[p][i])) { kind = act[p][i]; break; }
      if (kind == 3) CHECK(printed_line[k] == 1, "an escaped foreign exception is reported at the test's own location");
      else CHECK(printed_line[k] == line, "a failed check is printed with the line where it happened");
      k++;
    }
    if (plug[1]) { CHECK(printed_line[k] == 902, "plugin post failure location"); k++; }
  }
#ifdef LL2C_TRANSLATED
  CHECK(_ZL13jmp_buf_index == depth, "the jump-buffer stack is back at the depth the test started from");
  CHECK(!ll2c_jmp.pending && !ll2c_exc.pending, "no jump or exception escapes runOneTest");
#endif
#ifdef LL2C_TRANSLATED
  CHECK(env_terminate_calls == 0, "terminate is never reached");
#endif
  /* native world: the same script eleven more times must not run off the 10-entry jump-buffer array */
  NATIVE_ONLY(for (int rep = 0; rep < 11; rep++) { for (int p = 0; p < 3; p++) for (int i = 0; i <= NSTMT; i++) reached[p][i] = 0; last_phase_seen = 0; h_run_one(); })
  WITNESS("end");
}
