/* C01 H2/H3: the summary of a repetition and the value the command-line runner returns. */
#define ENV_CUSTOM_VSNPRINTF
#define ENV_MALLOC_CAP 240
#define ENV_OUT_CAP 24   /* only the head of the summary is inspected as text */
#include "env.c"
#include "translated.h"
/* numbers are recorded, rendered as '#': their digits are libc's business */
static uint64_t rec[16]; static uint32_t nrec;
uint32_t env_vsnprintf(uint8_t* s, uint64_t n, uint8_t* f, uint8_t* va) {
  va_list* ap = (va_list*)va;
  if (f[0] == '%' && f[1] == 'l' && f[2] == 'u' && f[3] == 0) { if (nrec < 16) rec[nrec] = va_arg(*ap, uint64_t); nrec++; }
  else if (f[0] == '%' && (f[1] == 'd' || f[1] == 'u') && f[2] == 0) { if (nrec < 16) rec[nrec] = va_arg(*ap, uint32_t); nrec++; }
  else ENV_ENGINE_ASSERT(0, "summary harness: unexpected format");
  if (n > 1) { s[0] = '#'; s[1] = 0; } else if (n) s[0] = 0;
  return 1;
}
uint32_t h_action(uint32_t phase, uint32_t stmt) { (void)phase; (void)stmt; return 0; }
void h_trace(uint32_t phase, uint32_t stmt) { (void)phase; (void)stmt; }
void h_printed(uint64_t line) { (void)line; }
uint32_t h_plugin_action(uint32_t pre) { (void)pre; return 0; }
static uint32_t outc[3][4];
static uint32_t sum_n, sum_err;
void h_rep_summary(uint32_t isFailure, uint64_t failures, uint64_t run, uint64_t ignored) {
  /* the summary of repetition k is built from the counts of repetition k alone */
  uint32_t k = sum_n & 3;
  if (failures != outc[0][k] || run != outc[1][k] || ignored != outc[2][k]) sum_err |= 1;
  if ((isFailure != 0) != !(outc[0][k] == 0 && outc[1][k] + outc[2][k] > 0)) sum_err |= 2;
  sum_n++;
}
uint32_t h_registry_outcome(uint32_t what, uint32_t rep) { return outc[what][rep & 3]; }

static int starts_with(const uint8_t* s, const char* p) { for (int i = 0; p[i]; i++) if (s[i] != (uint8_t)p[i]) return 0; return 1; }

HARNESS(harness_summary) {
  h_init();
  IN_U64(tests); IN_U64(run); IN_U64(checks); IN_U64(ignored); IN_U64(filtered); IN_U64(failures); IN_BOOL(color);
  ASSUME(run < (1ULL << 62) && ignored < (1ULL << 62));       /* counts of a real run: no wrap of run+ignored */
  h_summary(tests, run, checks, ignored, filtered, failures, color);
  int ok = failures == 0 && run + ignored > 0;
  const uint8_t* t = env_out + 1; if (color) t += ok ? 7 : 7;   /* "\n" then the colour escape when enabled */
  OBSERVE(ok);
  CHECK(env_out[0] == '\n', "summary starts on a new line");
  CHECK(starts_with(t, "OK (") == ok, "the summary reads OK exactly when there was no failure and at least one test ran or was ignored");
  CHECK(starts_with(t, "Errors (") == !ok, "otherwise it reads Errors");
  uint32_t k = 0;
  if (!ok && failures > 0) { CHECK(rec[k] == failures, "failure count printed"); k++; }
  CHECK(rec[k] == tests && rec[k + 1] == run && rec[k + 2] == checks && rec[k + 3] == ignored && rec[k + 4] == filtered, "summary carries the true counts in order: tests, ran, checks, ignored, filtered out");
  CHECK(nrec == k + 6, "six numbers (counts and time) after the optional failure count");
  WITNESS("end");
}
HARNESS(harness_exit_value) {
  h_init();
  IN_U64(repeat); IN_ARR_U32(f, 4); IN_ARR_U32(r, 4); IN_ARR_U32(g, 4);
  ASSUME(repeat <= 4);
  int all_ok = 1;
  for (int i = 0; i < 4; i++) {
    outc[0][i] = f[i] & 0xfffff; outc[1][i] = r[i] & 0xfffff; outc[2][i] = g[i] & 0xfffff;
    if ((uint64_t)i < repeat && !(outc[0][i] == 0 && outc[1][i] + outc[2][i] > 0)) all_ok = 0;
  }
  int32_t v = (int32_t)h_exit_value(repeat);
  OBSERVE(v);
  CHECK((v == 0) == all_ok, "the runner returns 0 iff every repetition had no failure and ran or ignored at least one test");
  CHECK(sum_n == repeat && sum_err == 0, "one summary per repetition, carrying the counts and the OK/Errors verdict of that repetition alone");
  WITNESS("end");
}
