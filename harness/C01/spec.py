SPEC = {
    'property': 'C01',
    'functions_of_interest': ['Utest3run', 'UtestShell10runOneTest', 'runOneTestInCurrentProcess', 'PlatformSpecific', 'failWith', 'addFailure', 'exitCurrentTest', 'TestResult'],
    'assumptions': ['setjmp/longjmp and Itanium C++ EH are modelled by ll2c --nlx (pending flags checked after every call; longjmp runs no destructors)',
                    'CPPUTEST_USE_STD_CPP_LIB=0: the std::exception catch arm is not encoded',
                    'vsnprintf renders "#" (failure text is property C14); time = 0'],
    'groups': [{
        'name': 'noeh', 'wrapper': 'w01.cpp', 'harness': 'h01.c',
        'config': {'nlx': True, 'exceptions': False, 'heapcheck': False},
        'defines': ['-DMAXACT=2'],
        'obligations': [
            {'fn': 'harness_lifecycle', 'unwind': 60, 'timeout': 900, 'bounds': 'build WITHOUT C++ exceptions; 2 statements per phase, each continue / C++-style fail / C-style fail; plugin error in pre and/or post; initial jump depth 0..7'},
        ],
    }, {
        'name': 'eh', 'wrapper': 'w01.cpp', 'harness': 'h01.c',
        'config': {'nlx': True, 'exceptions': True, 'heapcheck': False},
        'defines': ['-DMAXACT=3'],
        'obligations': [
            {'fn': 'harness_lifecycle', 'id': 'harness_lifecycle[exceptions]', 'unwind': 60, 'timeout': 900, 'bounds': 'build WITH C++ exceptions; 2 statements per phase, each continue / C++-style fail (throw) / C-style fail (longjmp) / throw int; plugin error in pre and/or post; initial jump depth 0..7'},
        ],
    }, {
        'name': 'summary', 'wrapper': 'w01.cpp', 'harness': 'h01b.c',
        'config': {'nlx': True, 'exceptions': False, 'heapcheck': False},
        'obligations': [
            {'fn': 'harness_summary', 'unwind': 170, 'timeout': 600, 'bounds': 'all six counters full 64-bit (run, ignored < 2^62), colour on/off'},
            {'fn': 'harness_exit_value', 'unwind': 12, 'timeout': 600, 'bounds': 'repeat count 0..4; per repetition failure/run/ignored counts < 2^20 (totals >= 2^31 would wrap the int cast: outside the claim)'},
        ],
    }],
}
