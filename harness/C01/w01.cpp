// C01 wrapper: a scripted test runs through the REAL UtestShell::runOneTest / Utest::run /
// PlatformSpecificSetJmp machinery; each phase statement asks the harness what to do.
#define private public
#define protected public
#include "CppUTest/TestHarness.h"
#include "CppUTest/TestHarness_c.h"
#include "CppUTest/TestOutput.h"
#include "CppUTest/TestResult.h"
#include "CppUTest/TestPlugin.h"
#include "CppUTest/TestRegistry.h"
#include "CppUTest/CommandLineTestRunner.h"
#include "CppUTest/PlatformSpecificFunctions.h"

extern "C" {
void h_env_install(void);
int h_action(int phase, int stmt);            // 0 continue, 1 C++-style failing check, 2 C-style failing check, 3 throw foreign
void h_trace(int phase, int stmt);            // records that a statement was reached
void h_printed(unsigned long line);           // records a printed failure (line number)
int h_plugin_action(int pre);                 // 1: the plugin reports an error
int h_registry_outcome(int what, int rep);    // fake registry for the exit-value harness
void h_rep_summary(int isFailure, unsigned long failures, unsigned long run, unsigned long ignored);   // what the summary of a repetition is built from
}

#define NSTMT 2
static void runPhase(int phase)
{
    for (int i = 0; i < NSTMT; i++) {
        h_trace(phase, i);
        switch (h_action(phase, i)) {
        case 1: FAIL_LOCATION("cpp", "t.cpp", (size_t)(100 + phase * 10 + i)); break;
        case 2: FAIL_TEXT_C_LOCATION("c", "t.c", (size_t)(100 + phase * 10 + i)); break;
#if CPPUTEST_HAVE_EXCEPTIONS
        case 3: throw 42;
#endif
        default: break;
        }
    }
    h_trace(phase, NSTMT);                      // phase completed
}

class ScriptedTest : public Utest
{
public:
    virtual void setup() CPPUTEST_OVERRIDE { runPhase(0); }
    virtual void testBody() CPPUTEST_OVERRIDE { runPhase(1); }
    virtual void teardown() CPPUTEST_OVERRIDE { runPhase(2); }
};
static ScriptedTest* theTest_;

class ScriptedShell : public UtestShell
{
public:
    ScriptedShell() : UtestShell("grp", "tst", "t.cpp", 1) {}
    virtual Utest* createTest() CPPUTEST_OVERRIDE { return theTest_; }
    virtual void destroyTest(Utest*) CPPUTEST_OVERRIDE {}
};

class RecOutput : public TestOutput
{
public:
    virtual void printBuffer(const char*) CPPUTEST_OVERRIDE {}
    virtual void flush() CPPUTEST_OVERRIDE {}
    virtual void printFailure(const TestFailure& f) CPPUTEST_OVERRIDE { h_printed(f.getFailureLineNumber()); }
    virtual void printTestsEnded(const TestResult& r) CPPUTEST_OVERRIDE { h_rep_summary(r.isFailure(), r.getFailureCount(), r.getRunCount(), r.getIgnoredCount()); }
};

class RecPlugin : public TestPlugin
{
public:
    RecPlugin() : TestPlugin("rec") {}
    virtual void preTestAction(UtestShell& t, TestResult& r) CPPUTEST_OVERRIDE
    {
        h_trace(10, 0);
        if (h_plugin_action(1)) r.addFailure(TestFailure(&t, "p.cpp", 901, "pre"));
    }
    virtual void postTestAction(UtestShell& t, TestResult& r) CPPUTEST_OVERRIDE
    {
        h_trace(11, 0);
        if (h_plugin_action(0)) r.addFailure(TestFailure(&t, "p.cpp", 902, "post"));
    }
};

static TestResult* result_;
static ScriptedShell* shell_;
static RecPlugin* plugin_;

extern "C" {
void h_init(void)
{
    static RecOutput out;
    static TestResult result(out);
    static ScriptedShell shell;
    static ScriptedTest test;
    static RecPlugin plugin;
    h_env_install();
    NullTestPlugin::instance();
    result_ = &result; shell_ = &shell; theTest_ = &test; plugin_ = &plugin;
}
void h_run_one(void) { shell_->runOneTest(plugin_, *result_); }
unsigned long h_failures(void) { return result_->getFailureCount(); }
unsigned long h_runs(void) { return result_->getRunCount(); }
int h_shell_failed(void) { return shell_->hasFailed(); }
// ---- H2: summary line of a repetition with arbitrary counters
void h_summary(unsigned long tests, unsigned long run, unsigned long checks, unsigned long ignored, unsigned long filtered, unsigned long failures, int color)
{
    static ConsoleTestOutput console;
    static TestResult r(console);
    if (color) console.color();
    r.testCount_ = tests; r.runCount_ = run; r.checkCount_ = checks; r.ignoredCount_ = ignored; r.filteredOutCount_ = filtered; r.failureCount_ = failures;
    r.testsEnded();
}
// ---- H3: value returned by the command line runner over arbitrary per-repetition outcomes
class FakeRegistry : public TestRegistry
{
public:
    int rep;
    FakeRegistry() : rep(0) {}
    virtual void runAllTests(TestResult& r) CPPUTEST_OVERRIDE
    {
        // like the real registry: counters are ADDED to the result it is handed, and the repetition's summary is printed from it
        r.testsStarted();
        r.failureCount_ += (size_t)h_registry_outcome(0, rep);
        r.runCount_ += (size_t)h_registry_outcome(1, rep);
        r.ignoredCount_ += (size_t)h_registry_outcome(2, rep);
        r.testsEnded();
        rep++;
    }
};
int h_exit_value(unsigned long repeat)
{
    static const char* av[1] = {"prog"};
    static FakeRegistry reg;
    static RecOutput out;
    static CommandLineTestRunner runner(1, av, &reg);
    runner.output_ = &out;
    runner.arguments_->repeat_ = repeat;
    return runner.runAllTests();
}
void* h_context_test(void) { return UtestShell::getCurrent(); }
void* h_context_result(void) { return shell_->getTestResult(); }
}
