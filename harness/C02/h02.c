/* C02: every registered test is run once, or ignored, or filtered out; selection follows the filters;
 * shuffle / reverse only permute. */
#define ENV_CUSTOM_VSNPRINTF
#include "env.c"
#include "translated.h"
uint32_t env_vsnprintf(uint8_t* s, uint64_t n, uint8_t* f, uint8_t* va) { (void)f; (void)va; if (n > 1) { s[0] = '#'; s[1] = 0; } else if (n) s[0] = 0; return 1; }
#ifndef NT
#define NT 2
#endif
#define SL 2
static uint32_t executed[5], started[5], ev_err, open_group, open_test, groups_started, groups_ended;
void h_event(uint32_t kind, uint32_t idx) {
  switch (kind) {
    case 0: if (open_group) ev_err |= 1; open_group = 1; groups_started++; break;
    case 1: if (!open_group || open_test) ev_err |= 2; open_group = 0; groups_ended++; break;
    case 2: if (!open_group || open_test) ev_err |= 4; open_test = 1; if (idx < 5) started[idx]++; break;
    case 3: if (!open_test) ev_err |= 8; open_test = 0; break;
    default: if (idx < 5) executed[idx]++; else ev_err |= 16; break;
  }
}
static int t_eq(const uint8_t* a, const uint8_t* b) { for (int i = 0; i <= SL; i++) { if (a[i] != b[i]) return 0; if (!a[i]) return 1; } return 1; }
static int t_contains(const uint8_t* hay, const uint8_t* nee) {
  int lh = 0, ln = 0; while (hay[lh]) lh++; while (nee[ln]) ln++;
  for (int i = 0; i + ln <= lh; i++) { int ok = 1; for (int j = 0; j < ln; j++) if (hay[i + j] != nee[j]) ok = 0; if (ok) return 1; }
  return 0;
}
static int t_accept(const uint8_t* target, const uint8_t* f, uint32_t strict, uint32_t invert) { int m = strict ? t_eq(target, f) : t_contains(target, f); return invert ? !m : m; }

static void body_selection(const uint32_t ngf, const uint32_t nnf) {
  h_init();
  uint8_t grp[3][SL + 1], nam[3][SL + 1], ft[6][SL + 1];
  uint32_t isign[3], fflag[12];
  /* inputs are declared one by one (no long harness loops: the unwinding bound then only has to cover the strings) */
#define STR2(dst, nm) { IN_ARR_U8(nm, SL); for (int i = 0; i < SL; i++) dst[i] = nm[i]; dst[SL] = 0; }
  STR2(grp[0], g0) STR2(nam[0], n0) STR2(grp[1], g1) STR2(nam[1], n1)
#if NT > 2
  STR2(grp[2], g2) STR2(nam[2], n2)
#endif
  STR2(ft[0], f0) STR2(ft[1], f1) STR2(ft[2], f2) STR2(ft[3], f3) STR2(ft[4], f4) STR2(ft[5], f5)
  { IN_BOOL(i0); IN_BOOL(i1); isign[0] = i0; isign[1] = i1; }
#if NT > 2
  { IN_BOOL(i2); isign[2] = i2; }
#endif
  { IN_BOOL(s0); IN_BOOL(v0); IN_BOOL(s1); IN_BOOL(v1); IN_BOOL(s2); IN_BOOL(v2); IN_BOOL(s3); IN_BOOL(v3); IN_BOOL(s4); IN_BOOL(v4); IN_BOOL(s5); IN_BOOL(v5);
    fflag[0] = s0; fflag[1] = v0; fflag[2] = s1; fflag[3] = v1; fflag[4] = s2; fflag[5] = v2; fflag[6] = s3; fflag[7] = v3; fflag[8] = s4; fflag[9] = v4; fflag[10] = s5; fflag[11] = v5; }
  IN_BOOL(runign);
  for (int t = 0; t < NT; t++) h_add_test(isign[t] & 1, grp[t], nam[t]);
  for (int k = 0; k < 6; k++) h_set_filter(k >= 3, k % 3, ft[k], fflag[2 * k] & 1, fflag[2 * k + 1] & 1);   /* slots 0..2 group filters, 3..5 name filters */
  h_install_filters(ngf, nnf);
  h_run(runign);
  /* ---- reference */
  uint64_t want_run = 0, want_ign = 0, want_filtered = 0;
  for (int t = 0; t < NT; t++) {
    int gok = ngf == 0, nok = nnf == 0;
    for (uint32_t k = 0; k < ngf; k++) if (t_accept(grp[t], ft[k], fflag[2 * k] & 1, fflag[2 * k + 1] & 1)) gok = 1;
    for (uint32_t k = 0; k < nnf; k++) if (t_accept(nam[t], ft[3 + k], fflag[6 + 2 * k] & 1, fflag[7 + 2 * k] & 1)) nok = 1;
    int sel = gok && nok, ign = isign[t] & 1;
    uint32_t exec = sel && (!ign || runign);
    CHECK(executed[t] == exec, "a test executes exactly once iff it is selected and (normal or run-ignored is on)");
    CHECK(started[t] == (uint32_t)sel, "start/end notifications exactly for selected tests");
    if (!sel) want_filtered++; else if (ign && !runign) want_ign++; else want_run++;
  }
  OBSERVE(want_run); OBSERVE(want_ign);
  CHECK(h_count(0) == NT, "every registered test is counted");
  CHECK(h_count(1) == want_run && h_count(2) == want_ign && h_count(3) == want_filtered, "run / ignored / filtered-out counts equal the reference selection");
  CHECK(h_count(1) + h_count(2) + h_count(3) == NT, "run + ignored + filtered out == registered");
  CHECK(ev_err == 0 && open_group == 0 && open_test == 0 && groups_started == groups_ended, "group and test notifications are balanced and properly nested");
  WITNESS("end");
}

#define SEL(a, b) HARNESS(harness_selection_##a##_##b) { body_selection(a, b); }
SEL(0, 0) SEL(1, 0) SEL(0, 1) SEL(1, 1) SEL(2, 0) SEL(0, 2) SEL(2, 1) SEL(1, 2) SEL(2, 2) SEL(3, 0) SEL(0, 3) SEL(3, 3)

HARNESS(harness_permutation) {
  h_init();
  static uint8_t g[2] = {'g', 0}, n[2] = {'n', 0};
  IN_U64(seed); IN_U32(opx);
  uint32_t op = opx % 3;
  for (int t = 0; t < NT; t++) h_add_test(0, g, n);
  /* addTest prepends: position p holds test NT-1-p */
  if (op == 0) h_shuffle(seed); else if (op == 1) h_reverse(); else { h_reverse(); h_shuffle(seed); }
  uint32_t seen[NT]; for (int t = 0; t < NT; t++) seen[t] = 0;
  for (int p = 0; p < NT; p++) {
    int32_t idx = (int32_t)h_at(p);
    OBSERVE(idx);
    CHECK(idx >= 0 && idx < NT, "the list still has a test at every position below N");
    if (idx >= 0 && idx < NT) seen[idx]++;
    if (op == 1) CHECK(idx == p, "reverse is the exact mirror of the registration order");
  }
  CHECK((int32_t)h_at(NT) == -1, "the list ends after N tests");
  for (int t = 0; t < NT; t++) CHECK(seen[t] == 1, "no test is lost or duplicated");
  CHECK(h_count(4) == NT, "countTests unchanged");
  if (op != 1) CHECK(env_srand_calls == 1 && env_last_seed == (uint32_t)seed, "the shuffle is seeded with the given seed");
  WITNESS("end");
}
