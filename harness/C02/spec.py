SPEC = {
    'property': 'C02',
    'functions_of_interest': ['TestRegistry', 'UtestShellPointerArray', 'TestFilter', 'UtestShell5match', 'UtestShell9shouldRun', 'IgnoredUtestShell', 'TestResult'],
    'assumptions': ['PlatformSpecificSetJmp replaced by a plain call (jump machinery is C01); runOneTestInCurrentProcess overridden to count executions (the real runOneTest with countRun stays)',
                    'rand() returns an arbitrary value in [0, RAND_MAX] on every call; srand records the seed'],
    'groups': [{
        'name': 'reg', 'wrapper': 'w02.cpp', 'harness': 'h02.c', 'config': {'heapcheck': False},
        'obligations':
            [{'fn': 'harness_selection_%d_%d' % (a, b), 'unwind': 8, 'timeout': 900, 'bounds': '2 tests (normal/ignored symbolic), group and name strings <= 2 bytes full byte range, %d group filter(s) and %d name filter(s) each <= 2 bytes with symbolic strict/invert flags, run-ignored symbolic' % (a, b)} for a in range(3) for b in range(3)] +
            [{'fn': 'harness_selection_%d_%d' % (a, b), 'unwind': 8, 'timeout': 1200, 'bounds': '2 tests, %d group and %d name filters (lists longer than two), strings <= 2 bytes, flags symbolic' % (a, b)} for a, b in ((3, 0), (0, 3))] +
            [{'fn': 'harness_selection_3_3', 'unwind': 8, 'timeout': 3600, 'tier': 'thorough', 'bounds': '2 tests, 3 group and 3 name filters'}] +
            [{'fn': 'harness_selection_%d_%d' % (a, b), 'unwind': 8, 'timeout': 3600, 'defines': ['-DNT=3'], 'tier': 'thorough', 'bounds': 'as above with 3 tests; %d group / %d name filters' % (a, b)} for a in range(3) for b in range(3)] + [
            {'fn': 'harness_permutation', 'unwind': 8, 'timeout': 600, 'defines': ['-DNT=4'], 'bounds': '4 tests; shuffle with arbitrary seed and arbitrary rand() results, reverse, reverse+shuffle'},
            {'fn': 'harness_permutation', 'unwind': 8, 'timeout': 3600, 'defines': ['-DNT=5'], 'tier': 'thorough', 'bounds': '5 tests'},
        ],
    }],
}
