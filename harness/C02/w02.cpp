// C02 wrapper: a registry of harness-named tests, filters, run / shuffle / reverse through the public API.
#define private public
#define protected public
#include "CppUTest/TestHarness.h"
#include "CppUTest/TestOutput.h"
#include "CppUTest/TestResult.h"
#include "CppUTest/TestRegistry.h"
#include "CppUTest/TestFilter.h"
#include "CppUTest/PlatformSpecificFunctions.h"

extern "C" {
void h_env_install(void);
void h_event(int kind, int idx);   // 0 group start, 1 group end, 2 test start, 3 test end, 4 executed
}
#define MAXT 5
static int indexOf(const UtestShell* t);

class CountShell : public UtestShell
{
public:
    CountShell() : UtestShell("g", "n", "f", 1) {}
    virtual void runOneTestInCurrentProcess(TestPlugin*, TestResult&) CPPUTEST_OVERRIDE { h_event(4, indexOf(this)); }
};
class CountIgnoredShell : public IgnoredUtestShell
{
public:
    CountIgnoredShell() : IgnoredUtestShell("g", "n", "f", 1) {}
    virtual void runOneTestInCurrentProcess(TestPlugin*, TestResult&) CPPUTEST_OVERRIDE { h_event(4, indexOf(this)); }
};
static CountShell normal_[MAXT];
static CountIgnoredShell ignored_[MAXT];
static UtestShell* shells_[MAXT];
static int nshells_;
static int indexOf(const UtestShell* t) { for (int i = 0; i < nshells_; i++) if (shells_[i] == t) return i; return -1; }

class EventOutput : public TestOutput
{
public:
    virtual void printBuffer(const char*) CPPUTEST_OVERRIDE {}
    virtual void flush() CPPUTEST_OVERRIDE {}
    virtual void printCurrentGroupStarted(const UtestShell& t) CPPUTEST_OVERRIDE { h_event(0, indexOf(&t)); }
    virtual void printCurrentGroupEnded(const TestResult&) CPPUTEST_OVERRIDE { h_event(1, -1); }
    virtual void printCurrentTestStarted(const UtestShell& t) CPPUTEST_OVERRIDE { h_event(2, indexOf(&t)); }
    virtual void printCurrentTestEnded(const TestResult&) CPPUTEST_OVERRIDE { h_event(3, -1); }
    virtual void printTestsStarted() CPPUTEST_OVERRIDE {}
    virtual void printTestsEnded(const TestResult&) CPPUTEST_OVERRIDE {}
};
static TestRegistry* reg_;
static TestResult* res_;
static TestFilter gf_[3], nf_[3];

static int plainSetJmp(void (*f)(void*), void* d) { f(d); return 1; }   // the jump machinery is property C01

extern "C" {
void h_init(void)
{
    static TestRegistry reg;
    static EventOutput out;
    static TestResult res(out);
    h_env_install();
    PlatformSpecificSetJmp = plainSetJmp;
    NullTestPlugin::instance();
    reg_ = &reg; res_ = &res; nshells_ = 0;
}
// add test #k: ignored or normal, with group/name strings owned by the harness; tests are added in index order
void h_add_test(int isIgnored, const char* group, const char* name)
{
    int k = nshells_;
    UtestShell* t = isIgnored ? (UtestShell*)&ignored_[k] : (UtestShell*)&normal_[k];
    t->setGroupName(group); t->setTestName(name);
    shells_[k] = t; nshells_ = k + 1;
    reg_->addTest(t);
}
void h_set_filter(int isName, int slot, const char* text, int strict, int invert)
{
    TestFilter* f = isName ? &nf_[slot] : &gf_[slot];
    *f = TestFilter(text);
    if (strict) f->strictMatching();
    if (invert) f->invertMatching();
}
void h_install_filters(int ngroup, int nname)
{
    if (ngroup >= 2) gf_[0].add(&gf_[1]);
    if (ngroup >= 3) gf_[1].add(&gf_[2]);
    if (nname >= 2) nf_[0].add(&nf_[1]);
    if (nname >= 3) nf_[1].add(&nf_[2]);
    reg_->setGroupFilters(ngroup ? &gf_[0] : 0);
    reg_->setNameFilters(nname ? &nf_[0] : 0);
}
void h_run(int runIgnored) { if (runIgnored) reg_->setRunIgnored(); reg_->runAllTests(*res_); }
unsigned long h_count(int what)
{
    switch (what) { case 0: return res_->getTestCount(); case 1: return res_->getRunCount(); case 2: return res_->getIgnoredCount(); case 3: return res_->getFilteredOutCount(); default: return reg_->countTests(); }
}
void h_shuffle(unsigned long seed) { reg_->shuffleTests(seed); }
void h_reverse(void) { reg_->reverseTests(); }
// position -> original index of the test at that position, -1 past the end
int h_at(int pos)
{
    UtestShell* t = reg_->getFirstTest();
    for (int i = 0; i < pos && t; i++) t = t->getNext();
    return t ? indexOf(t) : -1;
}
}
