/* C03: each check records a failure iff the mathematical predicate it names is false, and counts as
 * exactly one check (a passing CHECK_COMPARE counts none).  Oracles are written here from the
 * property text over 64-bit / IEEE operands; the implementation side is the real macro expansion. */
#define ENV_CUSTOM_VSNPRINTF
#include "env.c"
#include "translated.h"
#ifndef MAXL
#define MAXL 3
#endif

/* formatting is not the subject (C14 owns messages): operands render as '#' */
static uint32_t vsn_calls;   /* successive renderings differ, as the texts of two unequal operands do */
uint32_t env_vsnprintf(uint8_t* s, uint64_t n, uint8_t* f, uint8_t* va) { (void)f; (void)va; vsn_calls++; if (n > 2) { s[0] = '#'; s[1] = (uint8_t)('a' + (vsn_calls & 15)); s[2] = 0; } else if (n) s[0] = 0; return 2; }

static uint32_t exp_fail, exp_checks, exited;
static void post(void) {
  CHECK(h_failures() == exp_fail, "a failure is recorded iff the predicate is false (exactly one)");
  CHECK(h_printed() == exp_fail, "the failure is printed exactly once");
  CHECK(h_checks() == exp_checks, "the check is counted exactly once (a passing relational compare: not at all)");
  CHECK((h_shell_failed() != 0) == (exp_fail != 0), "the test is marked failed iff the check failed");
  CHECK(exited == exp_fail, "the test is left at the failing check and only then");
}
void h_exit_hook(void) { exited = 1; post(); WITNESS("exit path"); END_PATH(); }
#define EXPECT(pred, checks) do { exp_fail = (pred) ? 0 : 1; exp_checks = (checks); } while (0)
#define DONE() do { post(); WITNESS("normal path"); } while (0)

/* CHECK_EQUAL for every integer width and signedness */
static void body_harness_check_equal(const int KIND) {
  h_init(); IN_U64(a); IN_U64(b);
  OBSERVE(a == b);
  switch (KIND) {
    case 0: EXPECT((int8_t)a == (int8_t)b, 1); h_ce_char(a, b); break;     /* plain char: 8 bits either signedness */
    case 1: EXPECT((int8_t)a == (int8_t)b, 1); h_ce_schar(a, b); break;
    case 2: EXPECT((uint8_t)a == (uint8_t)b, 1); h_ce_uchar(a, b); break;
    case 3: EXPECT((int16_t)a == (int16_t)b, 1); h_ce_short(a, b); break;
    case 4: EXPECT((uint16_t)a == (uint16_t)b, 1); h_ce_ushort(a, b); break;
    case 5: EXPECT((int32_t)a == (int32_t)b, 1); h_ce_int(a, b); break;
    case 6: EXPECT((uint32_t)a == (uint32_t)b, 1); h_ce_uint(a, b); break;
    case 7: EXPECT((int64_t)a == (int64_t)b, 1); h_ce_long(a, b); break;
    case 8: EXPECT(a == b, 1); h_ce_ulong(a, b); break;
    case 9: EXPECT((int64_t)a == (int64_t)b, 1); h_ce_ll(a, b); break;
    case 10: EXPECT(a == b, 1); h_ce_ull(a, b); break;
    case 11: EXPECT((a != 0) == (b != 0), 1); h_ce_bool(a, b); break;
    case 12: EXPECT(a == b, 1); h_ce_ptr(a, b); break;
    case 13: EXPECT((int32_t)a == 0, 1); h_ce_zero(a); break;
    default: EXPECT(a == b, 1); h_ce_text(a, b); break;
  }
  DONE();
}
HARNESS(harness_check_equal_double) {
  h_init(); IN_DBL(a); IN_DBL(b);
  EXPECT(a == b, 1);                     /* IEEE equality: NaN equals nothing, +0 == -0 */
  h_ce_double(a, b);
  DONE();
}
/* CHECK_COMPARE: relational operators on signed/unsigned 32/64-bit */
static void body_harness_check_compare(const int KIND) {
  h_init(); IN_U64(a); IN_U64(b); IN_U32(op);
  ASSUME(op < 6);
  int lt, eq;
  switch (KIND) {
    case 0: lt = (int32_t)a < (int32_t)b; eq = (int32_t)a == (int32_t)b; break;
    case 1: lt = (uint32_t)a < (uint32_t)b; eq = (uint32_t)a == (uint32_t)b; break;
    case 2: lt = (int64_t)a < (int64_t)b; eq = a == b; break;
    default: lt = a < b; eq = a == b; break;
  }
  int pred = op == 0 ? lt : op == 1 ? (lt || eq) : op == 2 ? (!lt && !eq) : op == 3 ? !lt : op == 4 ? eq : !eq;
  EXPECT(pred, pred ? 0 : 1);
  OBSERVE(pred);
  switch (KIND) { case 0: h_cmp_int(a, b, op); break; case 1: h_cmp_uint(a, b, op); break; case 2: h_cmp_ll(a, b, op); break; default: h_cmp_ull(a, b, op); break; }
  DONE();
}
HARNESS(harness_check_bool) {
  h_init(); IN_U64(a); IN_U32(k);
  ASSUME(k < 6);
  int truth = (int32_t)a != 0;
  EXPECT((k == 2 || k == 5) ? !truth : truth, 1);
  h_check(k, a);
  DONE();
}
/* LONGS_EQUAL family, bytes, pointers, enums */
static void body_harness_longs(const int KIND) {
  h_init(); IN_U64(a); IN_U64(b);
  switch (KIND) {
    case 0: case 9: EXPECT(a == b, 1); break;
    case 1: EXPECT((int32_t)a == (int32_t)b, 1); break;
    case 2: case 5: case 4: case 10: case 11: EXPECT(a == b, 1); break;
    case 3: EXPECT((uint32_t)a == (uint32_t)b, 1); break;
    case 6: EXPECT(((int32_t)a & 0xff) == ((int32_t)b & 0xff), 1); break;     /* BYTES_EQUAL: low 8 bits */
    case 7: EXPECT((int8_t)a == (int8_t)b, 1); break;
    case 8: EXPECT((uint8_t)a == (uint8_t)b, 1); break;
    case 12: EXPECT((int32_t)a == (int32_t)b, 1); break;
    default: EXPECT((uint8_t)a == (uint8_t)b, 1); break;
  }
  OBSERVE(exp_fail);
  h_longs(KIND, a, b);
  DONE();
}
static void body_harness_bits(const int KIND) {
  h_init(); IN_U64(a); IN_U64(b); IN_U64(m);
  uint64_t w = KIND == 0 ? 0xffULL : KIND == 1 ? 0xffffULL : KIND == 2 ? 0xffffffffULL : ~0ULL;
  EXPECT(((a & w) & (m & w)) == ((b & w) & (m & w)), 1);
  OBSERVE(exp_fail);
  h_bits(KIND, a, b, m);
  DONE();
}
/* doubles: same value (same infinity) or |a-b| <= tolerance; NaN equals nothing */
static int t_doubles_equal(double a, double b, double t) {
  if (a != a || b != b || t != t) return 0;
  if (a == b) return 1;
  double d = a - b; if (d < 0) d = -d;
  return d <= t;
}
static void body_harness_doubles(const int KIND) {
  h_init(); IN_DBL(a); IN_DBL(b); IN_DBL(t);
  ASSUME(!(t < 0));                         /* non-negative (or NaN) tolerance */
  int want = t_doubles_equal(a, b, t);
  OBSERVE(want);
  CHECK((h_doubles_equal(a, b, t) != 0) == want, "doubles_equal: same value or within tolerance; NaN equals nothing");
  EXPECT(want, 1);
  if (KIND == 0) h_doubles(a, b, t); else h_c_real(a, b, t);
  DONE();
}
/* strings */
static uint64_t t_len(const uint8_t* s) { uint64_t n = 0; while (s[n]) n++; return n; }
static uint8_t t_lower(uint8_t c) { return (c >= 'A' && c <= 'Z') ? (uint8_t)(c + 32) : c; }
static int t_contains(const uint8_t* hay, const uint8_t* nee, int nocase) {
  uint64_t lh = t_len(hay), ln = t_len(nee);
  for (uint64_t i = 0; i + ln <= lh; i++) { int ok = 1; for (uint64_t j = 0; j < ln; j++) { uint8_t x = hay[i + j], y = nee[j]; if (nocase) { x = t_lower(x); y = t_lower(y); } if (x != y) ok = 0; } if (ok) return 1; }
  return 0;
}
static void body_harness_strings(const int KIND) {
  h_init();
  IN_ARR_U8(a, MAXL + 1); IN_ARR_U8(b, MAXL + 1); a[MAXL] = 0; b[MAXL] = 0;
  IN_BOOL(anull); IN_BOOL(bnull); IN_U64(n);
  uint8_t* pa = anull ? (uint8_t*)0 : &a[0]; uint8_t* pb = bnull ? (uint8_t*)0 : &b[0];
  int pred;
  if (anull || bnull) pred = anull && bnull;            /* NULL equals only NULL */
  else switch (KIND) {
    case 0: case 5: { uint64_t i = 0; while (a[i] && a[i] == b[i]) i++; pred = a[i] == b[i]; break; }
    case 1: { pred = 1; for (uint64_t i = 0; i < n && i <= MAXL; i++) { if (a[i] != b[i]) { pred = 0; break; } if (!a[i]) break; } break; }
    case 2: { uint64_t i = 0; while (a[i] && t_lower(a[i]) == t_lower(b[i])) i++; pred = t_lower(a[i]) == t_lower(b[i]); break; }
    case 3: pred = t_contains(b, a, 0); break;           /* STRCMP_CONTAINS(expected, actual): actual contains expected */
    default: pred = t_contains(b, a, 1); break;
  }
  EXPECT(pred, 1);
  OBSERVE(pred);
  if (KIND == 5) h_c_str(pa, pb); else h_str(KIND, pa, pb, n);
  DONE();
}
static void body_harness_memcmp(const int KIND) {
  h_init();
  IN_ARR_U8(a, MAXL + 1); IN_ARR_U8(b, MAXL + 1);
  IN_BOOL(anull); IN_BOOL(bnull); IN_U64(n);
  ASSUME(n <= MAXL + 1);
  uint8_t* pa = anull ? (uint8_t*)0 : &a[0]; uint8_t* pb = bnull ? (uint8_t*)0 : &b[0];
  int pred;
  if (n == 0) pred = 1;                                  /* a zero-length block always matches */
  else if (anull || bnull) pred = anull && bnull;
  else { pred = 1; for (uint64_t i = 0; i < n; i++) if (a[i] != b[i]) pred = 0; }
  EXPECT(pred, 1);
  OBSERVE(pred);
  if (KIND == 0) h_mem(pa, pb, n); else h_c_mem(pa, pb, n);
  DONE();
}
HARNESS(harness_fail) {
  h_init();
  EXPECT(0, 1);
  h_fail();
  CHECK(0, "FAIL() returned to the test body");
}
HARNESS(harness_c_fail) {
  h_init();
  EXPECT(0, 1);
  h_c_int(12, 0, 0);
  CHECK(0, "FAIL_TEXT_C returned to the test body");
}
/* C-language variants */
static void body_harness_c_int(const int KIND) {
  h_init(); IN_U64(a); IN_U64(b);
  switch (KIND) {
    case 0: EXPECT(((int32_t)a != 0) == ((int32_t)b != 0), 1); break;
    case 1: EXPECT((int32_t)a == (int32_t)b, 1); break;
    case 2: EXPECT((uint32_t)a == (uint32_t)b, 1); break;
    case 3: case 4: case 5: case 6: case 10: EXPECT(a == b, 1); break;
    case 7: case 8: case 9: EXPECT((uint8_t)a == (uint8_t)b, 1); break;
    default: EXPECT((int32_t)a != 0, 1); break;
  }
  OBSERVE(exp_fail);
  h_c_int(KIND, a, b);
  DONE();
}
HARNESS(harness_c_bits) {
  h_init(); IN_U64(a); IN_U64(b); IN_U64(m); IN_U64(size);
  ASSUME(size != 0);                        /* the C macro passes sizeof(actual) */
  EXPECT(((uint32_t)a & (uint32_t)m) == ((uint32_t)b & (uint32_t)m), 1);
  h_c_bits(a, b, m, size);
  DONE();
}

#define K1(f, k) HARNESS(f##_##k) { body_##f(k); }
K1(harness_check_equal, 0) K1(harness_check_equal, 1) K1(harness_check_equal, 2) K1(harness_check_equal, 3) K1(harness_check_equal, 4) K1(harness_check_equal, 5) K1(harness_check_equal, 6) K1(harness_check_equal, 7) K1(harness_check_equal, 8) K1(harness_check_equal, 9) K1(harness_check_equal, 10) K1(harness_check_equal, 11) K1(harness_check_equal, 12) K1(harness_check_equal, 13) K1(harness_check_equal, 14)
K1(harness_check_compare, 0) K1(harness_check_compare, 1) K1(harness_check_compare, 2) K1(harness_check_compare, 3)
K1(harness_longs, 0) K1(harness_longs, 1) K1(harness_longs, 2) K1(harness_longs, 3) K1(harness_longs, 4) K1(harness_longs, 5) K1(harness_longs, 6) K1(harness_longs, 7) K1(harness_longs, 8) K1(harness_longs, 9) K1(harness_longs, 10) K1(harness_longs, 11) K1(harness_longs, 12) K1(harness_longs, 13)
K1(harness_bits, 0) K1(harness_bits, 1) K1(harness_bits, 2) K1(harness_bits, 3)
K1(harness_doubles, 0) K1(harness_doubles, 1)
K1(harness_strings, 0) K1(harness_strings, 1) K1(harness_strings, 2) K1(harness_strings, 3) K1(harness_strings, 4) K1(harness_strings, 5)
K1(harness_memcmp, 0) K1(harness_memcmp, 1)
K1(harness_c_int, 0) K1(harness_c_int, 1) K1(harness_c_int, 2) K1(harness_c_int, 3) K1(harness_c_int, 4) K1(harness_c_int, 5) K1(harness_c_int, 6) K1(harness_c_int, 7) K1(harness_c_int, 8) K1(harness_c_int, 9) K1(harness_c_int, 10) K1(harness_c_int, 11)
