def ob(fn, kind=None, unwind=72, timeout=300, bounds='', **kw):
    d = {'fn': fn, 'unwind': unwind, 'timeout': timeout, 'bounds': bounds}
    if kind is not None:
        d['fn'] = '%s_%d' % (fn, kind)
    d.update(kw)
    return d
W = 'both 64-bit operand words fully symbolic'
S3 = 'strings/blocks <= 3 bytes (+NUL), full byte range, NULL-ness symbolic, length argument full 64-bit'
SPEC = {
    'property': 'C03',
    'functions_of_interest': ['UtestShell6assert', 'UtestShell4fail', 'doubles_equal', 'CHECK_', 'FAIL_', 'StrCmp', 'StrNCmp', 'MemCmp', 'StrStr'],
    'assumptions': ['failure-message constructors (*Failure::*Failure) have empty bodies and vsnprintf renders "#": message text is property C14',
                    'the test is left through PlatformSpecificLongJmp, replaced by a harness hook that checks the postcondition and ends the path',
                    'CBMC IEEE-754 bit-precise floating point for doubles_equal'],
    'groups': [{
        'name': 'checks', 'wrapper': 'w03.cpp', 'harness': 'h03.c',
        'config': {'empty_regex': ['^_ZN[0-9]+[A-Za-z]*FailureC[12]E', '^_ZN10UtestShell5printEPKcS1_m$']},
        'obligations':
            [ob('harness_check_equal', k, bounds=W + '; CHECK_EQUAL operand type #%d of 15' % k) for k in range(15)] +
            [ob('harness_check_equal_double', bounds='all double bit patterns', timeout=600)] +
            [ob('harness_check_compare', k, bounds=W + '; 6 relational operators; type #%d of 4' % k) for k in range(4)] +
            [ob('harness_check_bool', bounds='CHECK/CHECK_TRUE/CHECK_FALSE (+_TEXT), all int values')] +
            [ob('harness_longs', k, bounds=W + '; macro #%d of 14 (LONGS/UNSIGNED_LONGS/LONGLONGS/BYTES/SIGNED_BYTES/POINTERS/FUNCTIONPOINTERS/ENUMS)' % k) for k in range(14)] +
            [ob('harness_bits', k, bounds=W + ' and mask; BITS_EQUAL on %d-byte operands' % (1 << k)) for k in range(4)] +
            [ob('harness_doubles', k, bounds='all double bit patterns for both operands; tolerance any non-negative double, inf or NaN; ' + ('DOUBLES_EQUAL' if k == 0 else 'CHECK_EQUAL_C_REAL'), timeout=900, solver='kissat', unwind=8) for k in range(2)] +
            [ob('harness_strings', k, bounds=S3 + '; string check #%d of 6' % k, timeout=600, unwind=8) for k in range(6)] +
            [ob('harness_memcmp', k, bounds=S3, timeout=600, unwind=8) for k in range(2)] +
            [ob('harness_fail', bounds='FAIL()')] +
            [ob('harness_c_int', k, bounds=W + '; C entry point #%d of 13' % k) for k in range(12)] +
            [ob('harness_c_fail', bounds='FAIL_TEXT_C')] +
            [ob('harness_c_bits', bounds='all 64-bit operands, mask and size')],
    }],
}
