// C03 wrapper: every check macro expanded exactly as in a user's test, one entry point per
// macro x operand type.  Operands arrive as 64-bit words and are converted with the same cast
// a user's variable of that type would hold.
// the harness needs to install the current test/result without running a whole test: open the class up (layout is unaffected)
#define private public
#define protected public
#include "CppUTest/TestHarness.h"
#include "CppUTest/TestHarness_c.h"
#include "CppUTest/TestOutput.h"
#include "CppUTest/TestResult.h"
#include "CppUTest/PlatformSpecificFunctions.h"

extern "C" {
void h_env_install(void);
void h_exit_hook(void);   // harness: records that the test was left, checks the postcondition, ends the path
}

class CountingOutput : public TestOutput
{
public:
    unsigned long failuresPrinted;
    CountingOutput() : failuresPrinted(0) {}
    virtual void printBuffer(const char*) CPPUTEST_OVERRIDE {}
    virtual void flush() CPPUTEST_OVERRIDE {}
    virtual void printFailure(const TestFailure&) CPPUTEST_OVERRIDE { failuresPrinted++; }
};

static CountingOutput* out_;
static TestResult* result_;
static UtestShell* shell_;

typedef unsigned long long u64;
enum Colour { RED = -3, GREEN = 0, BLUE = 70000 };
enum SmallEnum { SE_A, SE_B = 200 };

extern "C" {
void h_init(void)
{
    static CountingOutput out;
    static TestResult result(out);
    static UtestShell shell("group", "name", "file.cpp", 7);
    h_env_install();
    PlatformSpecificLongJmp = h_exit_hook;
    out_ = &out; result_ = &result; shell_ = &shell;
    shell.setTestResult(&result);
    shell.setCurrentTest(&shell);
}
unsigned long h_failures(void) { return result_->getFailureCount(); }
unsigned long h_checks(void) { return result_->getCheckCount(); }
unsigned long h_printed(void) { return out_->failuresPrinted; }
int h_shell_failed(void) { return shell_->hasFailed(); }

#define GEN_CE(name, T) void h_ce_##name(u64 a, u64 b) { T x = (T)a; T y = (T)b; CHECK_EQUAL(x, y); }
GEN_CE(char, char) GEN_CE(schar, signed char) GEN_CE(uchar, unsigned char) GEN_CE(short, short) GEN_CE(ushort, unsigned short)
GEN_CE(int, int) GEN_CE(uint, unsigned int) GEN_CE(long, long) GEN_CE(ulong, unsigned long) GEN_CE(ll, long long) GEN_CE(ull, unsigned long long)
void h_ce_bool(u64 a, u64 b) { bool x = a != 0; bool y = b != 0; CHECK_EQUAL(x, y); }
void h_ce_ptr(u64 a, u64 b) { const void* x = (const void*)a; const void* y = (const void*)b; CHECK_EQUAL(x, y); }
void h_ce_double(double a, double b) { CHECK_EQUAL(a, b); }
void h_ce_zero(u64 a) { int x = (int)a; CHECK_EQUAL_ZERO(x); }
void h_ce_text(u64 a, u64 b) { long x = (long)a; long y = (long)b; CHECK_EQUAL_TEXT(x, y, "text"); }

#define GEN_CMP(name, T) void h_cmp_##name(u64 a, u64 b, int op) { T x = (T)a; T y = (T)b; \
    switch (op) { case 0: CHECK_COMPARE(x, <, y); break; case 1: CHECK_COMPARE(x, <=, y); break; case 2: CHECK_COMPARE(x, >, y); break; \
                  case 3: CHECK_COMPARE(x, >=, y); break; case 4: CHECK_COMPARE(x, ==, y); break; default: CHECK_COMPARE(x, !=, y); break; } }
GEN_CMP(int, int) GEN_CMP(uint, unsigned int) GEN_CMP(ll, long long) GEN_CMP(ull, unsigned long long)

void h_check(int kind, u64 a)
{
    int c = (int)a;
    switch (kind) {
    case 0: CHECK(c); break;
    case 1: CHECK_TRUE(c); break;
    case 2: CHECK_FALSE(c); break;
    case 3: CHECK_TEXT(c, "t"); break;
    case 4: CHECK_TRUE_TEXT(c, "t"); break;
    default: CHECK_FALSE_TEXT(c, "t"); break;
    }
}
void h_longs(int kind, u64 a, u64 b)
{
    switch (kind) {
    case 0: LONGS_EQUAL((long)a, (long)b); break;
    case 1: { int x = (int)a, y = (int)b; LONGS_EQUAL(x, y); break; }
    case 2: UNSIGNED_LONGS_EQUAL((unsigned long)a, (unsigned long)b); break;
    case 3: { unsigned x = (unsigned)a, y = (unsigned)b; UNSIGNED_LONGS_EQUAL(x, y); break; }
    case 4: LONGLONGS_EQUAL((long long)a, (long long)b); break;
    case 5: UNSIGNED_LONGLONGS_EQUAL(a, b); break;
    case 6: { int x = (int)a, y = (int)b; BYTES_EQUAL(x, y); break; }
    case 7: { signed char x = (signed char)a, y = (signed char)b; SIGNED_BYTES_EQUAL(x, y); break; }
    case 8: { unsigned char x = (unsigned char)a, y = (unsigned char)b; BYTES_EQUAL(x, y); break; }
    case 9: { long x = (long)a, y = (long)b; LONGS_EQUAL_TEXT(x, y, "t"); break; }
    case 10: POINTERS_EQUAL((void*)a, (void*)b); break;
    case 11: FUNCTIONPOINTERS_EQUAL((void (*)())a, (void (*)())b); break;
    case 12: { Colour x = (Colour)(int)a, y = (Colour)(int)b; ENUMS_EQUAL_INT(x, y); break; }
    default: { SmallEnum x = (SmallEnum)(unsigned char)a, y = (SmallEnum)(unsigned char)b; ENUMS_EQUAL_TYPE(unsigned char, x, y); break; }
    }
}
void h_bits(int kind, u64 a, u64 b, u64 m)
{
    switch (kind) {
    case 0: { unsigned char x = (unsigned char)a, y = (unsigned char)b; BITS_EQUAL(x, y, (unsigned char)m); break; }
    case 1: { unsigned short x = (unsigned short)a, y = (unsigned short)b; BITS_EQUAL(x, y, (unsigned short)m); break; }
    case 2: { unsigned x = (unsigned)a, y = (unsigned)b; BITS_EQUAL(x, y, (unsigned)m); break; }
    default: { unsigned long x = (unsigned long)a, y = (unsigned long)b; BITS_EQUAL(x, y, (unsigned long)m); break; }
    }
}
void h_doubles(double a, double b, double t) { DOUBLES_EQUAL(a, b, t); }
int h_doubles_equal(double a, double b, double t) { return doubles_equal(a, b, t); }
void h_str(int kind, const char* a, const char* b, unsigned long n)
{
    switch (kind) {
    case 0: STRCMP_EQUAL(a, b); break;
    case 1: STRNCMP_EQUAL(a, b, n); break;
    case 2: STRCMP_NOCASE_EQUAL(a, b); break;
    case 3: STRCMP_CONTAINS(a, b); break;
    default: STRCMP_NOCASE_CONTAINS(a, b); break;
    }
}
void h_mem(const void* a, const void* b, unsigned long n) { MEMCMP_EQUAL(a, b, n); }
void h_fail(void) { FAIL("always"); }
// C-language entry points, called the way the C macros call them
void h_c_int(int kind, u64 a, u64 b)
{
    switch (kind) {
    case 0: CHECK_EQUAL_C_BOOL_LOCATION((int)a, (int)b, 0, "f.c", 3); break;
    case 1: CHECK_EQUAL_C_INT_LOCATION((int)a, (int)b, 0, "f.c", 3); break;
    case 2: CHECK_EQUAL_C_UINT_LOCATION((unsigned)a, (unsigned)b, 0, "f.c", 3); break;
    case 3: CHECK_EQUAL_C_LONG_LOCATION((long)a, (long)b, 0, "f.c", 3); break;
    case 4: CHECK_EQUAL_C_ULONG_LOCATION((unsigned long)a, (unsigned long)b, 0, "f.c", 3); break;
    case 5: CHECK_EQUAL_C_LONGLONG_LOCATION((long long)a, (long long)b, 0, "f.c", 3); break;
    case 6: CHECK_EQUAL_C_ULONGLONG_LOCATION(a, b, 0, "f.c", 3); break;
    case 7: CHECK_EQUAL_C_CHAR_LOCATION((char)a, (char)b, 0, "f.c", 3); break;
    case 8: CHECK_EQUAL_C_UBYTE_LOCATION((unsigned char)a, (unsigned char)b, 0, "f.c", 3); break;
    case 9: CHECK_EQUAL_C_SBYTE_LOCATION((signed char)a, (signed char)b, 0, "f.c", 3); break;
    case 10: CHECK_EQUAL_C_POINTER_LOCATION((const void*)a, (const void*)b, 0, "f.c", 3); break;
    case 11: CHECK_C_LOCATION((int)a, "cond", 0, "f.c", 3); break;
    default: FAIL_TEXT_C_LOCATION("t", "f.c", 3); break;
    }
}
void h_c_bits(u64 a, u64 b, u64 m, unsigned long size) { CHECK_EQUAL_C_BITS_LOCATION((unsigned)a, (unsigned)b, (unsigned)m, size, 0, "f.c", 3); }
void h_c_real(double a, double b, double t) { CHECK_EQUAL_C_REAL_LOCATION(a, b, t, 0, "f.c", 3); }
void h_c_str(const char* a, const char* b) { CHECK_EQUAL_C_STRING_LOCATION(a, b, 0, "f.c", 3); }
void h_c_mem(const void* a, const void* b, unsigned long n) { CHECK_EQUAL_C_MEMCMP_LOCATION(a, b, n, 0, "f.c", 3); }
}
