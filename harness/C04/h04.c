/* C04 (table layer): one operation from an arbitrary table state.  Any arrangement of records in
 * the hash buckets is reachable by inserting them in a suitable order, so "k insertions with
 * symbolic addresses" is an arbitrary valid pre-state: which bucket a block falls in and whether
 * two blocks collide is chosen by the solver.  Then ONE operation; the oracle is a shadow set. */
#include "env.c"
#include "translated.h"
#ifndef NB
#define NB 3
#endif
enum { P_ALL = 0, P_DISABLED = 1, P_ENABLED = 2, P_CHECKING = 3 };
static uint8_t arena[32];
static uint64_t off[NB]; static uint32_t per[NB], stg[NB], present[NB];
/* which records a period query sees, from the property text */
static int t_in_period(uint32_t node_period, uint32_t q) { return q == P_ALL || node_period == q || (q == P_ENABLED && node_period != P_DISABLED); }

static void setup(void) {
  h_init();
  IN_ARR_U64(o, NB); IN_ARR_U32(p, NB); IN_ARR_U32(s, NB); IN_U32(k);
  ASSUME(k <= NB);
  for (int i = 0; i < NB; i++) {
    off[i] = o[i] & 31; per[i] = 1 + p[i] % 3; stg[i] = s[i] & 3; present[i] = (uint32_t)i < k;
    for (int j = 0; j < i; j++) ASSUME(off[i] != off[j]);            /* live blocks have distinct addresses */
    if (present[i]) h_add(i, arena + off[i], 8, per[i], stg[i]);
  }
}
static void check_unchanged_except(int removed) {
  /* every other record is still found under its own address */
  for (int i = 0; i < NB; i++) {
    int32_t r = (int32_t)h_retrieve(arena + off[i]);
    if (present[i] && i != removed) CHECK(r == i, "every other outstanding block is still tracked");
    else CHECK(r == -1, "a block that is not outstanding is not found");
  }
}
HARNESS(harness_remove) {
  setup();
  IN_U64(qoff); qoff &= 31;
  int want = -1; for (int i = 0; i < NB; i++) if (present[i] && off[i] == qoff) want = i;
  int32_t r = (int32_t)h_remove(arena + qoff);
  OBSERVE(r);
  CHECK(r == want, "removing an address yields exactly the record of that outstanding block, or nothing for a foreign address");
  check_unchanged_except(want);
  uint64_t n = 0; for (int i = 0; i < NB; i++) if (present[i] && i != want) n++;
  CHECK(h_total(P_ALL) == n, "the total drops by exactly the removed block");
  WITNESS("end");
}
HARNESS(harness_totals) {
  setup();
  IN_U32(q); q &= 3;
  uint64_t n = 0; for (int i = 0; i < NB; i++) if (present[i] && t_in_period(per[i], q)) n++;
  OBSERVE(n);
  CHECK(h_total(q) == n, "the reported total for a period is the number of outstanding blocks of that period");
  check_unchanged_except(-1);
  WITNESS("end");
}
HARNESS(harness_clear) {
  setup();
  IN_U32(q); q &= 3;
  h_clear(q);
  for (int i = 0; i < NB; i++) {
    int32_t r = (int32_t)h_retrieve(arena + off[i]);
    if (present[i] && !t_in_period(per[i], q)) CHECK(r == i, "clearing a period keeps the blocks of other periods");
    else CHECK(r == -1, "clearing a period drops exactly the blocks it names");
  }
  WITNESS("end");
}
HARNESS(harness_iterate_period) {
  setup();
  IN_U32(q); q &= 3;
  uint32_t seen[NB]; for (int i = 0; i < NB; i++) seen[i] = 0;
  int32_t cur = (int32_t)h_first(q);
  for (int step = 0; step < NB + 1 && cur >= 0; step++) {
    CHECK(cur < NB, "iteration yields records of the table");
    if (cur >= 0 && cur < NB) { seen[cur]++; cur = (int32_t)h_next(cur, q); }
  }
  CHECK(cur == -1, "iteration ends after at most k records");
  for (int i = 0; i < NB; i++) CHECK(seen[i] == ((present[i] && t_in_period(per[i], q)) ? 1u : 0u), "the report enumerates each outstanding block of the period exactly once, across all buckets");
  WITNESS("end");
}
HARNESS(harness_iterate_stage) {
  setup();
  IN_U32(q); q &= 3;
  uint32_t seen[NB]; for (int i = 0; i < NB; i++) seen[i] = 0;
  int32_t cur = (int32_t)h_first_stage(q);
  for (int step = 0; step < NB + 1 && cur >= 0; step++) {
    CHECK(cur < NB, "iteration yields records of the table");
    if (cur >= 0 && cur < NB) { seen[cur]++; cur = (int32_t)h_next_stage(cur, q); }
  }
  CHECK(cur == -1, "iteration ends after at most k records");
  for (int i = 0; i < NB; i++) CHECK(seen[i] == ((present[i] && stg[i] == q) ? 1u : 0u), "an allocation stage enumerates exactly its own outstanding blocks, each once");
  WITNESS("end");
}
