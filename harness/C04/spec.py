B = 'arbitrary table state of <= 3 outstanding blocks at arbitrary distinct addresses inside a 32-byte arena (bucket placement and collisions chosen by the solver, 4 buckets via the CPPUTEST_VERIF_HASH_TABLE_SIZE hook (73 in production; the code is uniform in the count)), arbitrary periods/stages; one operation with symbolic argument'
SPEC = {
    'property': 'C04',
    'functions_of_interest': ['MemoryLeakDetectorTable', 'MemoryLeakDetectorList', 'MemoryLeakDetectorNode', 'MemoryLeakDetector'],
    'assumptions': ['pre-states are built by insertions in a fixed node order with symbolic addresses/attributes (covers every arrangement of <= 3 records)'],
    'groups': [{
        'name': 'table', 'wrapper': 'w04.cpp', 'harness': 'h04.c', 'config': {'heapcheck': False, 'defines': ['-DCPPUTEST_VERIF_HASH_TABLE_SIZE=4']},
        'obligations': [
            {'fn': 'harness_remove', 'unwind': 6, 'timeout': 900, 'bounds': B + ': removeNode(address in the arena)'},
            {'fn': 'harness_totals', 'unwind': 6, 'timeout': 900, 'bounds': B + ': getTotalLeaks(period)'},
            {'fn': 'harness_clear', 'unwind': 6, 'timeout': 1800, 'tier': 'thorough', 'bounds': B + ': clearAllAccounting(period)'},
            {'fn': 'harness_clear', 'unwind': 6, 'timeout': 900, 'tier': 'quick', 'defines': ['-DNB=2'], 'bounds': B.replace('<= 3', '<= 2') + ': clearAllAccounting(period)'},
            {'fn': 'harness_iterate_period', 'unwind': 6, 'timeout': 900, 'bounds': B + ': getFirstLeak/getNextLeak(period) to the end'},
            {'fn': 'harness_iterate_stage', 'unwind': 6, 'timeout': 900, 'bounds': B + ': getFirstLeakForAllocationStage/getNext... to the end'},
        ],
    }],
}
