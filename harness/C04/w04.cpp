// C04 wrapper (table layer): the detector's bookkeeping table driven directly.
#define private public
#define protected public
#include "CppUTest/TestHarness.h"
#include "CppUTest/MemoryLeakDetector.h"

extern "C" { void h_env_install(void); }
#define MAXN 4
static MemoryLeakDetectorTable table_;
static MemoryLeakDetectorNode nodes_[MAXN];
static int indexOf(MemoryLeakDetectorNode* n) { for (int i = 0; i < MAXN; i++) if (n == &nodes_[i]) return i; return n ? -2 : -1; }

extern "C" {
void h_init(void) { h_env_install(); }
void h_add(int i, char* mem, unsigned long size, int period, int stage)
{
    nodes_[i].init(mem, (unsigned)(i + 1), size, 0, (MemLeakPeriod)period, (unsigned char)stage, "f.c", 1);
    table_.addNewNode(&nodes_[i]);
}
int h_remove(char* mem) { return indexOf(table_.removeNode(mem)); }
int h_retrieve(char* mem) { return indexOf(table_.retrieveNode(mem)); }
void h_clear(int period) { table_.clearAllAccounting((MemLeakPeriod)period); }
unsigned long h_total(int period) { return table_.getTotalLeaks((MemLeakPeriod)period); }
int h_first(int period) { return indexOf(table_.getFirstLeak((MemLeakPeriod)period)); }
int h_next(int i, int period) { return indexOf(table_.getNextLeak(&nodes_[i], (MemLeakPeriod)period)); }
int h_first_stage(int stage) { return indexOf(table_.getFirstLeakForAllocationStage((unsigned char)stage)); }
int h_next_stage(int i, int stage) { return indexOf(table_.getNextLeakForAllocationStage(&nodes_[i], (unsigned char)stage)); }
int h_node_period(int i) { return (int)nodes_[i].period_; }
}
