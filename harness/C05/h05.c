/* C05: tracked allocations return sound blocks for every size, or fail cleanly. */
#define ENV_CUSTOM_MALLOC
#define ENV_MALLOC_CAP 120
#include "env.c"
#include "translated.h"

static uint32_t reports, last_cat;
void h_report_cat(uint32_t c) { reports++; last_cat = c; }
#ifdef LL2C_TRANSLATED
void _ZN28MemoryLeakOutputStringBuffer41reportDeallocateNonAllocatedMemoryFailureEPKcmP19TestMemoryAllocatorP17MemoryLeakFailure(uint8_t* t, uint8_t* f, uint64_t l, uint8_t* a, uint8_t* r) { (void)t; (void)f; (void)l; (void)a; (void)r; h_report_cat(1); }
void _ZN28MemoryLeakOutputStringBuffer43reportAllocationDeallocationMismatchFailureEP22MemoryLeakDetectorNodePKcmP19TestMemoryAllocatorP17MemoryLeakFailure(uint8_t* t, uint8_t* n, uint8_t* f, uint64_t l, uint8_t* a, uint8_t* r) { (void)t; (void)n; (void)f; (void)l; (void)a; (void)r; h_report_cat(2); }
void _ZN28MemoryLeakOutputStringBuffer29reportMemoryCorruptionFailureEP22MemoryLeakDetectorNodePKcmP19TestMemoryAllocatorP17MemoryLeakFailure(uint8_t* t, uint8_t* n, uint8_t* f, uint64_t l, uint8_t* a, uint8_t* r) { (void)t; (void)n; (void)f; (void)l; (void)a; (void)r; h_report_cat(3); }
#endif

/* ---- underlying allocator model: records every request; serves requests up to LIMIT bytes, fails above
 * (a real allocator cannot satisfy a request near SIZE_MAX either) and whenever the harness says so */
#define LIMIT 112
static uint64_t req_n, req_last, req_ptr_size; static uint8_t* req_ptr; static uint32_t fail_now, realloc_moves, kernel_mode;
static uint8_t kernel_dummy[8];
static uint8_t* first_ptr; static uint64_t first_size;   /* first underlying block obtained since the harness reset them: the user block */
uint8_t* env_malloc(uint64_t n) {
  req_n++; req_last = n;
  if (kernel_mode) return kernel_dummy;   /* arithmetic only: the request is recorded, no memory is touched */
  if (fail_now) { fail_now = 0; return 0; }   /* failures are injected one allocation at a time */
  uint8_t* p = env_raw_alloc(n);
  req_ptr = p; req_ptr_size = n;
  if (!first_ptr) { first_ptr = p; first_size = n; }
  return p;
}
void env_free(uint8_t* p) { env_raw_free(p); }
uint8_t* env_realloc(uint8_t* p, uint64_t n) {
  req_n++; req_last = n;
  if (kernel_mode) return kernel_dummy;
  if (fail_now) { fail_now = 0; return 0; }   /* failure leaves the old block untouched */
  uint8_t* q = env_raw_alloc(n);
  uint64_t old = req_ptr_size;
  memcpy(q, p, old < n ? old : n);          /* sizes are concrete in these obligations: one array copy */
  env_raw_free(p);
  req_ptr = q; req_ptr_size = n;
  return q;
}
static uint32_t exited;
void h_exit_hook(void) {
  /* the default allocators fail the TEST when the platform malloc returns NULL: a clean failure */
  exited = 1;
  CHECK(h_total(0) == 0, "a failed request leaves no half-registered block behind");
  WITNESS("exit path");
  END_PATH();
}
#define NODE_BYTES 64     /* sizeof(MemoryLeakDetectorNode) on LP64, checked below through the real request */

/* H1: the size arithmetic at full width.  The underlying allocator only records what it is asked for. */
HARNESS(harness_request_size) {
  h_init(); kernel_mode = 1;
  IN_U64(size); IN_U32(fam); IN_BOOL(sep); IN_BOOL(re);
  fam %= 3;
  uint8_t dummy[8];
  uint64_t before = req_n;
  uint8_t* p = re ? h_raw_realloc_request(fam, dummy, size, sep) : h_raw_request(fam, size, sep);
  unsigned __int128 need = (unsigned __int128)size + 3 + (sep ? 0 : h_node_size());
  OBSERVE(p != 0);
  if (req_n != before) CHECK((unsigned __int128)req_last >= need, "what is requested from the underlying allocator covers user bytes + guard bytes (+ record): the size never wraps");
  else CHECK(p == 0, "a request whose accounted size does not fit in size_t is refused with NULL without calling the allocator");
  if (need <= LIMIT) CHECK(p == kernel_dummy && (req_last & 7) == 0, "a request that fits is passed to the allocator, with a pointer-aligned accounted size");
  WITNESS("end");
}
/* H2: a whole allocation of concrete size: layout inside the underlying block */
static void body_alloc(const uint64_t size) {
  h_init();
  IN_U32(fam); IN_BOOL(sep);
  fam %= 3;
  uint8_t* p = h_alloc(fam, size, sep);
  OBSERVE(p != 0);
  CHECK(p != 0, "the allocation is served");
  CHECK(p == first_ptr && first_size >= size + 3 + (sep ? 0 : h_node_size()), "the user block starts at the underlying block, which covers user bytes, guard bytes and (inline layout) the record");
  CHECK(h_total(0) == 1, "the block is tracked");
  for (uint64_t i = 0; i < size; i++) p[i] = (uint8_t)(0x5A + i);          /* use every requested byte */
  h_free(fam, p, sep);
  CHECK(reports == 0 && h_total(0) == 0, "using all requested bytes touches neither guard bytes nor bookkeeping");
  WITNESS("end");
}
HARNESS(harness_alloc_0) { body_alloc(0); }
HARNESS(harness_alloc_1) { body_alloc(1); }
HARNESS(harness_alloc_7) { body_alloc(7); }
HARNESS(harness_alloc_8) { body_alloc(8); }
HARNESS(harness_alloc_13) { body_alloc(13); }
HARNESS(harness_alloc_5) { body_alloc(5); }
HARNESS(harness_alloc_16) { body_alloc(16); }
HARNESS(harness_alloc_21) { body_alloc(21); }
HARNESS(harness_alloc_24) { body_alloc(24); }
HARNESS(harness_alloc_29) { body_alloc(29); }
HARNESS(harness_alloc_32) { body_alloc(32); }

/* H3: realloc of concrete sizes; the underlying realloc moves the block or fails */
static void body_realloc(const uint64_t oldsz, const uint64_t newsz, const uint32_t sep) {
  h_init();
  IN_ARR_U8(content, 4); IN_BOOL(failing);
  uint8_t* p = h_alloc(2, oldsz, sep);
  for (uint64_t i = 0; i < oldsz; i++) p[i] = content[i];
  fail_now = failing;
#ifdef KF_C05_2
  ASSUME(!failing);      /* known finding KF-C05-2: a failed realloc leaves the old block untracked */
#endif
  uint8_t* q = h_realloc(2, p, newsz, sep);
  fail_now = 0;
  OBSERVE(q != 0);
  if (q) {
    CHECK(!failing, "no block is handed out when the underlying realloc failed");
    for (uint64_t i = 0; i < oldsz && i < newsz; i++) CHECK(q[i] == content[i], "realloc preserves the first min(old,new) bytes");
    CHECK(h_total(0) == 1, "exactly the new block is tracked");
    h_free(2, q, sep);
    CHECK(reports == 0 && h_total(0) == 0, "the reallocated block has intact guard bytes and can be released");
  } else {
    CHECK(failing, "realloc fails only when the underlying realloc fails");
    CHECK(h_total(0) == 1, "a failed realloc leaves the old block tracked");
    for (uint64_t i = 0; i < oldsz; i++) CHECK(p[i] == content[i], "a failed realloc leaves the old block valid");
  }
  WITNESS("end");
}
HARNESS(harness_realloc_grow) { body_realloc(2, 4, 0); }
HARNESS(harness_realloc_shrink) { body_realloc(4, 1, 0); }
HARNESS(harness_realloc_grow_sep) { body_realloc(2, 4, 1); }
HARNESS(harness_realloc_zero) { body_realloc(3, 0, 0); }
HARNESS(finding_failed_realloc_untracks) {
  h_init();
  uint8_t* p = h_alloc(2, 4, 0);
  fail_now = 1;
  uint8_t* q = h_realloc(2, p, 8, 0);
  CHECK(q == 0, "realloc reports the failure");
  CHECK(h_total(0) == 1, "a failed realloc leaves the old block tracked");
  WITNESS("end");
}
