import importlib.util, os
STUBS = ['_ZN28MemoryLeakOutputStringBuffer41reportDeallocateNonAllocatedMemoryFailureEPKcmP19TestMemoryAllocatorP17MemoryLeakFailure',
         '_ZN28MemoryLeakOutputStringBuffer43reportAllocationDeallocationMismatchFailureEP22MemoryLeakDetectorNodePKcmP19TestMemoryAllocatorP17MemoryLeakFailure',
         '_ZN28MemoryLeakOutputStringBuffer29reportMemoryCorruptionFailureEP22MemoryLeakDetectorNodePKcmP19TestMemoryAllocatorP17MemoryLeakFailure']
SPEC = {
    'property': 'C05',
    'functions_of_interest': ['MemoryLeakDetector', 'TestMemoryAllocator', 'cpputest_'],
    'assumptions': ['underlying allocator model: serves requests <= 120 bytes (larger: bound error), fails when the harness says so; the full-width size arithmetic is checked with a recording-only allocator; realloc moves the block',
                    'report builders replaced by their category (C14 owns the text); 4 hash buckets (hook); failure of the platform malloc fails the test (default allocators) and is accepted as a clean failure',
                    'calloc/strdup/strndup under allocation failure and product overflow are decided in check C15 (same functions)'],
    'groups': [{
        'name': 'det', 'wrapper': '../C06/wdet.cpp', 'harness': 'h05.c',
        'config': {'stubs': STUBS, 'defines': ['-DCPPUTEST_VERIF_HASH_TABLE_SIZE=4'], 'heapcheck': False, 'empty_regex': ['^_ZN[0-9]+[A-Za-z]*FailureC[12]E']},
        'obligations': [
            {'fn': 'harness_request_size', 'unwind': 32, 'timeout': 600, 'optional_witness': ['exit path'], 'bounds': 'request size: EVERY 64-bit value; alloc and realloc path; family and bookkeeping layout symbolic'},
        ] + [{'fn': 'harness_alloc_%d' % n, 'unwind': 32, 'timeout': 900, 'optional_witness': ['exit path', 'end'], 'bounds': 'a %d-byte allocation; family and bookkeeping layout symbolic (a failing platform malloc fails the test in the default allocators: covered by C15)' % n} for n in (0, 1, 5, 7, 8, 13, 16, 21, 24)] + [{'fn': 'harness_alloc_%d' % n, 'unwind': 40, 'timeout': 1800, 'tier': 'thorough', 'optional_witness': ['exit path', 'end'], 'bounds': 'a %d-byte allocation; family and bookkeeping layout symbolic' % n} for n in (29, 32)] + [
            {'fn': 'harness_realloc_%s' % k, 'unwind': 32, 'timeout': 5400, 'tier': 'thorough', 'optional_witness': ['exit path'], 'bounds': 'realloc %s; contents and failure of the underlying realloc symbolic' % d} for k, d in (('grow', '2 -> 4 bytes, inline record'), ('shrink', '4 -> 1 bytes, inline record'), ('grow_sep', '2 -> 4 bytes, separate record'), ('zero', '3 -> 0 bytes, inline record'))] + [
            {'fn': 'finding_failed_realloc_untracks', 'unwind': 32, 'timeout': 900, 'expect': 'fail', 'optional_witness': ['exit path'], 'bounds': 'alloc 4; realloc to 8 with a failing underlying realloc'},
        ],
    }, {
        # ONE hash bucket (as in C07 group plugin1): the realloc obligations, which take 12-25 min with four buckets
        'name': 'det1', 'wrapper': '../C06/wdet.cpp', 'harness': 'h05.c',
        'config': {'stubs': STUBS, 'defines': ['-DCPPUTEST_VERIF_HASH_TABLE_SIZE=1'], 'heapcheck': False, 'empty_regex': ['^_ZN[0-9]+[A-Za-z]*FailureC[12]E']},
        'obligations': [{'fn': 'harness_realloc_%s' % k, 'unwind': 32, 'timeout': 420, 'optional_witness': ['exit path'], 'bounds': 'ONE hash bucket; realloc %s; contents and failure of the underlying realloc symbolic' % d} for k, d in (('grow', '2 -> 4 bytes, inline record'), ('shrink', '4 -> 1 bytes, inline record'), ('grow_sep', '2 -> 4 bytes, separate record'), ('zero', '3 -> 0 bytes, inline record'))],
    }, {
        # calloc's count x size arithmetic (the harness is shared with check C15, which owns allocation failure):
        # element sizes just above 2^64/k make overflowing products wrap to a SMALL number >= count
        'name': 'calloc', 'wrapper': '../C15/w15.cpp', 'harness': '../C15/h15s.c',
        'config': {'memleak': False, 'empty_regex': ['^_ZN[0-9]+[A-Za-z]*FailureC[12]E', '^_ZN10UtestShell5printEPKcS1_m$']},
        'obligations': [{'fn': 'harness_calloc_oom_%s' % k, 'unwind': 18, 'timeout': 600, 'bounds': 'calloc(num, %s): num any 64-bit value whose product with the element size, modulo 2^64, is <= 16 (products that overflow and wrap to a small number included); allocation failure symbolic' % d} for k, d in (('q62', '2^62+1'), ('q60', '2^60+1'), ('max', 'SIZE_MAX'))],
    }],
}
