/* C06: misuse is reported exactly.  One block of concrete size, allocating and releasing family,
 * type checking, the overwritten position/value and the released address are symbolic. */
#define ENV_MALLOC_CAP 120
#include "env.c"      /* real build: the real vsnprintf renders the real misuse message, whose first word gives the category */
#include "translated.h"

static uint32_t reports, last_cat;
void h_exit_hook(void) { CHECK(0, "the test is never left by these operations"); END_PATH(); }
void h_report_cat(uint32_t c) { reports++; last_cat = c; }
#ifdef LL2C_TRANSLATED
/* translated world: the three report builders (text assembly in a 4096-byte buffer, property C14) are replaced
 * by their category; in the real build the recording reporter derives the category from the real message */
void _ZN28MemoryLeakOutputStringBuffer41reportDeallocateNonAllocatedMemoryFailureEPKcmP19TestMemoryAllocatorP17MemoryLeakFailure(uint8_t* t, uint8_t* f, uint64_t l, uint8_t* a, uint8_t* r) { (void)t; (void)f; (void)l; (void)a; (void)r; h_report_cat(1); }
void _ZN28MemoryLeakOutputStringBuffer43reportAllocationDeallocationMismatchFailureEP22MemoryLeakDetectorNodePKcmP19TestMemoryAllocatorP17MemoryLeakFailure(uint8_t* t, uint8_t* n, uint8_t* f, uint64_t l, uint8_t* a, uint8_t* r) { (void)t; (void)n; (void)f; (void)l; (void)a; (void)r; h_report_cat(2); }
void _ZN28MemoryLeakOutputStringBuffer29reportMemoryCorruptionFailureEP22MemoryLeakDetectorNodePKcmP19TestMemoryAllocatorP17MemoryLeakFailure(uint8_t* t, uint8_t* n, uint8_t* f, uint64_t l, uint8_t* a, uint8_t* r) { (void)t; (void)n; (void)f; (void)l; (void)a; (void)r; h_report_cat(3); }
#endif

static void body_release(const uint64_t size) {
  h_init();
  IN_U32(fa); IN_U32(ff); IN_BOOL(sep); IN_BOOL(typecheck); IN_U64(pos); IN_U8(val); IN_U32(which);
  fa %= 3; ff %= 3; which %= 5;
  ASSUME(pos < size + 3);
  if (!typecheck) h_period(8);
  uint8_t* p = h_alloc(fa, size, sep);
  CHECK(p != 0, "allocation succeeds");
  CHECK(h_total(0) == 1, "the block is outstanding");
  uint8_t old = p[pos]; p[pos] = val;                 /* one write anywhere in user bytes or guard bytes */
  int guard_changed = pos >= size && val != old;
  uint8_t foreign[4];
  switch (which) {
    case 0: {                                         /* release the block itself */
      h_free(ff, p, sep);
      if (typecheck && fa != ff) CHECK(reports == 1 && last_cat == 2, "mismatched families are reported as allocation/deallocation type mismatch (type checking on)");
      else if (guard_changed) CHECK(reports == 1 && last_cat == 3, "a changed guard byte is reported as memory corruption");
      else CHECK(reports == 0, "a correctly paired release of an intact block reports nothing");
      CHECK(h_total(0) == 0, "the released block is no longer outstanding");
      break; }
    case 1: if (size >= 2) { h_free(ff, p + 1, sep); CHECK(reports == 1 && last_cat == 1, "an interior address is reported as deallocating non-allocated memory"); CHECK(h_total(0) == 1, "the block stays outstanding"); } break;
    case 2: h_free(ff, foreign, sep); CHECK(reports == 1 && last_cat == 1, "a foreign address is reported as deallocating non-allocated memory"); CHECK(h_total(0) == 1, "the block stays outstanding"); break;
    case 3: h_free(ff, 0, sep); CHECK(reports == 0, "releasing NULL reports nothing"); CHECK(h_total(0) == 1, "the block stays outstanding"); break;
    default: {                                        /* poison on release: the plugin-level free invalidates first */
      p[pos] = old;
      h_invalidate(p);
      for (uint64_t i = 0; i < size; i++) CHECK(p[i] == 0xCD, "user bytes are overwritten before the memory is returned");
      h_free(fa, p, sep);
      CHECK(reports == 0, "poisoning does not disturb the guard bytes");
      break; }
  }
  OBSERVE(reports); OBSERVE(last_cat);
  WITNESS("end");
}
HARNESS(harness_release_0) { body_release(0); }
HARNESS(harness_release_1) { body_release(1); }
HARNESS(harness_release_5) { body_release(5); }
HARNESS(harness_release_8) { body_release(8); }
/* already released: the second release of the same address */
HARNESS(harness_double_release) {
  h_init(); IN_U32(fa); IN_BOOL(sep); fa %= 3;
  uint8_t* p = h_alloc(fa, 4, sep);
  h_free(fa, p, sep);
  CHECK(reports == 0 && h_total(0) == 0, "first release is fine");
  h_free(fa, p, sep);
  CHECK(reports == 1 && last_cat == 1, "releasing an already released address is reported as deallocating non-allocated memory");
  CHECK(h_total(0) == 0, "nothing is outstanding");
  WITNESS("end");
}
