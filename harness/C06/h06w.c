/* C06, wrapper allocators ("all pairs of allocating/releasing families and wrapper allocators"): the detector's mismatch decision
 * reads exactly one thing from a wrapper, actualAllocator(); h06.c decides the decision for the plain families, this file decides
 * that a wrapper (of a wrapper) answers with its underlying family.  Whole alloc/release scenarios through stacked accounting
 * wrappers gave no verdict in 30 min (the accountant's and the wrapper's own linked lists live in heap objects): not claimed. */
#include "h06.c"
/* what the detector compares for a wrapper (of a wrapper) is the underlying family */
HARNESS(harness_wrapper_family) {
  h_init(); h_init_wrappers();
  IN_U32(unused); (void)unused;
  for (int d = 0; d < 3; d++) for (int b = 0; b < 3; b++) CHECK(h_actual_family(3 * d + b) == b, "the family compared for a wrapper, at any depth, is the underlying new / new[] / malloc family");
  WITNESS("end");
}
