STUBS = ['_ZN28MemoryLeakOutputStringBuffer41reportDeallocateNonAllocatedMemoryFailureEPKcmP19TestMemoryAllocatorP17MemoryLeakFailure',
         '_ZN28MemoryLeakOutputStringBuffer43reportAllocationDeallocationMismatchFailureEP22MemoryLeakDetectorNodePKcmP19TestMemoryAllocatorP17MemoryLeakFailure',
         '_ZN28MemoryLeakOutputStringBuffer29reportMemoryCorruptionFailureEP22MemoryLeakDetectorNodePKcmP19TestMemoryAllocatorP17MemoryLeakFailure']
B = 'one block of %d user bytes; allocating/releasing family in {new, new[], malloc}, bookkeeping layout (inline/separate), type checking on/off, one write at any position of user+guard bytes with any value, released address in {block, interior, foreign, NULL}, or poison-then-release'
SPEC = {
    'property': 'C06',
    'functions_of_interest': ['MemoryLeakDetector', 'TestMemoryAllocator'],
    'assumptions': ['the three report builders of MemoryLeakOutputStringBuffer are replaced by their category in the translated world (text is property C14); 4 hash buckets (hook)',
                    'the failure reporter returns (like the reporter of the repository\'s own detector tests) instead of leaving the test'],
    'groups': [{
        'name': 'det', 'wrapper': 'wdet.cpp', 'harness': 'h06.c',
        'config': {'stubs': STUBS, 'defines': ['-DCPPUTEST_VERIF_HASH_TABLE_SIZE=4'], 'heapcheck': False},
        'obligations': [{'fn': 'harness_release_%d' % n, 'unwind': 32, 'timeout': 900, 'bounds': B % n} for n in (0, 1, 5, 8)] + [
            {'fn': 'harness_double_release', 'unwind': 32, 'timeout': 1800, 'tier': 'thorough', 'bounds': 'one block of 4 bytes, family and layout symbolic; release, release again'}],
    }],
}
