STUBS = ['_ZN28MemoryLeakOutputStringBuffer41reportDeallocateNonAllocatedMemoryFailureEPKcmP19TestMemoryAllocatorP17MemoryLeakFailure',
         '_ZN28MemoryLeakOutputStringBuffer43reportAllocationDeallocationMismatchFailureEP22MemoryLeakDetectorNodePKcmP19TestMemoryAllocatorP17MemoryLeakFailure',
         '_ZN28MemoryLeakOutputStringBuffer29reportMemoryCorruptionFailureEP22MemoryLeakDetectorNodePKcmP19TestMemoryAllocatorP17MemoryLeakFailure']
B = 'one block of %d user bytes; allocating/releasing family in {new, new[], malloc}, bookkeeping layout (inline/separate), type checking on/off, one write at any position of user+guard bytes with any value, released address in {block, interior, foreign, NULL}, or poison-then-release'
SPEC = {
    'property': 'C06',
    'functions_of_interest': ['MemoryLeakDetector', 'TestMemoryAllocator'],
    'assumptions': ['the three report builders of MemoryLeakOutputStringBuffer are replaced by their category in the translated world (text is property C14); 4 hash buckets (hook)',
                    'the failure reporter returns (like the reporter of the repository\'s own detector tests) instead of leaving the test'],
    'groups': [{
        'name': 'det', 'wrapper': 'wdet.cpp', 'harness': 'h06.c',
        'config': {'stubs': STUBS, 'defines': ['-DCPPUTEST_VERIF_HASH_TABLE_SIZE=4'], 'heapcheck': False},
        'obligations': [{'fn': 'harness_release_%d' % n, 'unwind': 32, 'timeout': 900, 'bounds': B % n} for n in (0, 1, 5, 8)] + [
            {'fn': 'harness_double_release', 'unwind': 32, 'timeout': 1800, 'tier': 'thorough', 'bounds': 'one block of 4 bytes, family and layout symbolic; release, release again'}],
    }, {
        # wrapper allocators: separate wrapper TU (instantiating them next to the detector harnesses makes every dispatch site explode)
        'name': 'wrap', 'wrapper': 'wwrap.cpp', 'harness': 'h06w.c',
        'config': {'stubs': STUBS, 'defines': ['-DCPPUTEST_VERIF_HASH_TABLE_SIZE=4'], 'heapcheck': False},
        'obligations': [{'fn': 'harness_wrapper_family', 'unwind': 32, 'timeout': 600, 'bounds': 'accounting wrappers of depth 0, 1, 2 over each of the three families: the family the detector compares'}],
    }, {
        # plugin level: "the user bytes of a block released through delete, delete[] or free are overwritten BEFORE the memory is returned":
        # the real mem_leak_* / threadsafe_mem_leak_* entry points (harness shared with C10)
        'name': 'plugin', 'wrapper': '../C10/w10.cpp', 'harness': '../C10/h10.c',
        'config': {'memleak': True, 'heapcheck': False, 'defines': ['-DCPPUTEST_VERIF_HASH_TABLE_SIZE=4'],
                   'empty_regex': ['^_ZN[0-9]+[A-Za-z]*FailureC[12]E', '^_ZN[0-9]+[A-Za-z]*FailureD[012]E'],
                   'stubs': ['_ZN18MemoryLeakDetector11allocMemoryEP19TestMemoryAllocatormPKcmb', '_ZN18MemoryLeakDetector11allocMemoryEP19TestMemoryAllocatormb',
                             '_ZN18MemoryLeakDetector13deallocMemoryEP19TestMemoryAllocatorPvPKcmb', '_ZN18MemoryLeakDetector13deallocMemoryEP19TestMemoryAllocatorPvb',
                             '_ZN18MemoryLeakDetector13reallocMemoryEP19TestMemoryAllocatorPcmPKcmb', '_ZN18MemoryLeakDetector16invalidateMemoryEPc']},
        'obligations': [{'fn': 'harness_entry_%d_%d' % (k, m), 'unwind': 40, 'timeout': 600, 'diff_runs': 20, 'optional_witness': ['exit path', 'skipped', 'end'],
                         'bounds': 'release through %s in %s mode: poisoned before it leaves the accounting' % (n, ('default', 'thread-safe')[m - 1])}
                        for k, n in ((6, 'operator delete'), (7, 'operator delete[]'), (10, 'free')) for m in (1, 2)],
    }],
}
