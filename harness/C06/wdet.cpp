// Detector-level wrapper (shared by C04/C05/C06/C07): a real MemoryLeakDetector of static storage
// with a recording failure reporter and the three default allocator families.
#define private public
#define protected public
#include "CppUTest/TestHarness.h"
#include "CppUTest/MemoryLeakDetector.h"
#include "CppUTest/TestMemoryAllocator.h"
#include "CppUTest/PlatformSpecificFunctions.h"

extern "C" {
void h_env_install(void);
void h_report_cat(int category);
void h_exit_hook(void);   // called when the code under test leaves the test (e.g. the platform malloc returned NULL)    // 1 deallocating non-allocated, 2 allocation/deallocation mismatch, 3 memory corruption, 0 other
}
class Rep : public MemoryLeakFailure
{
public:
    virtual void fail(char* text) CPPUTEST_OVERRIDE
    {
        // real build: the category is the first word of the real message
        h_report_cat(text[0] == 'D' ? 1 : text[0] == 'A' ? 2 : text[0] == 'M' ? 3 : 0);
    }
};
static void h_install_exit_hook(void) { PlatformSpecificLongJmp = h_exit_hook; }
static MemoryLeakDetector* det_;
static TestMemoryAllocator* fam_[9];   // 0-2 the default families (3-8: wrapper allocators, only in wwrap.cpp)

extern "C" {
void h_init(void)
{
    static Rep rep;
    h_env_install();
    h_install_exit_hook();
    fam_[0] = defaultNewAllocator(); fam_[1] = defaultNewArrayAllocator(); fam_[2] = defaultMallocAllocator();
    NullUnknownAllocator::defaultAllocator();
    static MemoryLeakDetector det(&rep);
    det_ = &det;
    det.enable();
}
char* h_alloc(int fam, unsigned long size, int separate) { return det_->allocMemory(fam_[fam], size, "a.c", 11, separate != 0); }
void h_free(int fam, char* p, int separate) { det_->deallocMemory(fam_[fam], p, "f.c", 22, separate != 0); }
char* h_realloc(int fam, char* p, unsigned long size, int separate) { return det_->reallocMemory(fam_[fam], p, size, "r.c", 33, separate != 0); }
void h_invalidate(char* p) { det_->invalidateMemory(p); }
unsigned long h_total(int period) { return det_->totalMemoryLeaks((MemLeakPeriod)period); }
void h_period(int op)
{
    switch (op) { case 0: det_->enable(); break; case 1: det_->disable(); break; case 2: det_->startChecking(); break; case 3: det_->stopChecking(); break;
                  case 4: det_->increaseAllocationStage(); break; case 5: det_->decreaseAllocationStage(); break; case 6: det_->markCheckingPeriodLeaksAsNonCheckingPeriod(); break;
                  case 7: det_->enableAllocationTypeChecking(); break; default: det_->disableAllocationTypeChecking(); break; }
}
void h_clear(int period) { det_->clearAllAccounting((MemLeakPeriod)period); }
void h_dealloc_stage(void) { det_->deallocAllMemoryInCurrentAllocationStage(); }
unsigned long h_alloc_number(void) { return det_->getCurrentAllocationNumber(); }
// the size arithmetic in isolation: what is asked of the underlying allocator for a request of `size` bytes
char* h_raw_request(int fam, unsigned long size, int separate) { return det_->allocateMemoryWithAccountingInformation(fam_[fam], size, "a.c", 11, separate != 0); }
char* h_raw_realloc_request(int fam, char* p, unsigned long size, int separate) { return det_->reallocateMemoryWithAccountingInformation(fam_[fam], p, size, "a.c", 11, separate != 0); }
unsigned long h_node_size(void) { return sizeof(MemoryLeakDetectorNode); }
}
