// C06 wrapper allocators: a separate translation unit (and group), because in the closed world of ll2c every
// allocator class that is instantiated becomes a candidate of every allocator->alloc_memory() dispatch site:
// linking the accounting wrappers into the detector-level wrapper made the detector obligations intractable.
#include "wdet.cpp"
extern "C" {
// wrapper allocators (C06: "all pairs of allocating/releasing families and wrapper allocators"); only the harnesses that use them pay for them
void h_init_wrappers(void)
{
    static MemoryAccountant accountant;
    static AccountingTestMemoryAllocator w1a(accountant, fam_[0]), w1b(accountant, fam_[1]), w1c(accountant, fam_[2]);
    static AccountingTestMemoryAllocator w2a(accountant, &w1a), w2b(accountant, &w1b), w2c(accountant, &w1c);
    fam_[3] = &w1a; fam_[4] = &w1b; fam_[5] = &w1c; fam_[6] = &w2a; fam_[7] = &w2b; fam_[8] = &w2c;
}
// the family the detector compares for allocator #fam (the only thing its mismatch decision reads from a wrapper)
int h_actual_family(int fam)
{
    TestMemoryAllocator* a = fam_[fam]->actualAllocator();
    return a == fam_[0] ? 0 : a == fam_[1] ? 1 : a == fam_[2] ? 2 : -1;
}
}
