/* C07: per-test leak verdict.  Concrete allocation scripts over two consecutive tests; expected-leak
 * counts, ignore flags and the tests' own pass/fail outcome are symbolic. */
#define ENV_MALLOC_CAP 120
#ifdef LL2C_TRANSLATED
#define ENV_CUSTOM_VSNPRINTF     /* translated world: text is not the subject; the real build formats the real report (its entries are counted) */
#endif
#include "env.c"
#include "translated.h"
#ifdef LL2C_TRANSLATED
uint32_t env_vsnprintf(uint8_t* s, uint64_t n, uint8_t* f, uint8_t* va) { (void)f; (void)va; if (n > 1) { s[0] = '#'; s[1] = 0; } else if (n) s[0] = 0; return 1; }
#endif
static uint32_t reports;
void h_report_cat(uint32_t c) { (void)c; reports++; }
void h_exit_hook(void) { CHECK(0, "the plugin never leaves the test"); END_PATH(); }
static uint8_t* listed[4]; static uint32_t nlisted;
#ifdef LL2C_TRANSLATED
uint32_t h_is_translated(void) { return 1; }
#else
uint32_t h_is_translated(void) { return 0; }
#endif
void h_listed_count(uint64_t n) { nlisted = (uint32_t)n; }
#ifdef LL2C_TRANSLATED
/* the report TEXT is property C14: the report builder is replaced by a recorder of which blocks are listed */
void _ZN28MemoryLeakOutputStringBuffer16reportMemoryLeakEP22MemoryLeakDetectorNode(uint8_t* t, uint8_t* node) { (void)t; if (nlisted < 4) listed[nlisted] = h_node_memory(node); nlisted++; }
void _ZN28MemoryLeakOutputStringBuffer24startMemoryLeakReportingEv(uint8_t* t) { (void)t; nlisted = 0; }
void _ZN28MemoryLeakOutputStringBuffer23stopMemoryLeakReportingEv(uint8_t* t) { (void)t; }
void _ZN28MemoryLeakOutputStringBuffer41reportDeallocateNonAllocatedMemoryFailureEPKcmP19TestMemoryAllocatorP17MemoryLeakFailure(uint8_t* t, uint8_t* f, uint64_t l, uint8_t* a, uint8_t* r) { (void)t; (void)f; (void)l; (void)a; (void)r; reports++; }
void _ZN28MemoryLeakOutputStringBuffer43reportAllocationDeallocationMismatchFailureEP22MemoryLeakDetectorNodePKcmP19TestMemoryAllocatorP17MemoryLeakFailure(uint8_t* t, uint8_t* n, uint8_t* f, uint64_t l, uint8_t* a, uint8_t* r) { (void)t; (void)n; (void)f; (void)l; (void)a; (void)r; reports++; }
void _ZN28MemoryLeakOutputStringBuffer29reportMemoryCorruptionFailureEP22MemoryLeakDetectorNodePKcmP19TestMemoryAllocatorP17MemoryLeakFailure(uint8_t* t, uint8_t* n, uint8_t* f, uint64_t l, uint8_t* a, uint8_t* r) { (void)t; (void)n; (void)f; (void)l; (void)a; (void)r; reports++; }
#endif

/* script codes per test: bit0 = allocate a block in this test and keep it; bit1 = allocate and release a block inside
 * this test; bit2 (second test only) = release the block the FIRST test leaked */
static void body(const uint32_t s1, const uint32_t s2) {
  h_init();
  IN_U64(e1x); IN_U64(e2x); IN_BOOL(ig1); IN_BOOL(ig2); IN_BOOL(own1); IN_BOOL(own2);
  uint64_t e1 = e1x & 3, e2 = e2x & 3;
  CHECK(h_overloaded(), "leak detection overloads are on");
  uint8_t* a = 0; uint8_t* b = 0;
  /* ---- test 1 */
  h_pre();
  if (e1) h_expect(e1);
  if (ig1) h_ignore();
  if (s1 & 2) { uint8_t* t = h_new(); h_delete(t); }
  uint8_t* a2 = 0;
  if (s1 & 8) a2 = h_new();                    /* bit3 (first test only): a SECOND block allocated in this test and kept */
  if (s1 & 1) a = h_new();
  if (own1) h_own_failure();
  uint64_t f0 = h_failures();
  h_post();
  uint64_t live1 = ((s1 & 1) ? 1 : 0) + ((s1 & 8) ? 1 : 0);
  int leakfail1 = !ig1 && e1 != live1 && !own1;
  OBSERVE(leakfail1);
  CHECK(h_failures() == f0 + (leakfail1 ? 1 : 0), "test 1 gets a leak failure iff it passed its own checks, did not ignore leaks and its outstanding blocks differ from the expected number");
  if (leakfail1) {
    CHECK(nlisted == live1, "the leak report lists exactly the blocks of this test that are still outstanding");
#ifdef LL2C_TRANSLATED
    if (live1 == 1) CHECK(listed[0] == a, "... namely this block");
    if (live1 == 2) CHECK((listed[0] == a && listed[1] == a2) || (listed[0] == a2 && listed[1] == a), "... namely these two blocks, each once");
#endif
  }
  /* ---- test 2 */
  h_pre();
  if (e2) h_expect(e2);
  if (ig2) h_ignore();
  if ((s2 & 4) && a) { h_delete(a); a = 0; }
  if (s2 & 2) { uint8_t* t = h_new(); h_delete(t); }
  if (s2 & 1) b = h_new();
  if (own2) h_own_failure();
  uint64_t f1 = h_failures();
  h_post();
  uint64_t live2 = (s2 & 1) ? 1 : 0;                  /* only blocks allocated inside test 2 count; releasing test 1's block does not offset */
  int leakfail2 = !ig2 && e2 != live2 && !own2;
  OBSERVE(leakfail2);
  CHECK(h_failures() == f1 + (leakfail2 ? 1 : 0), "a block leaked by test 1 is not charged to test 2, and releasing it there does not offset a new leak");
  if (leakfail2) {
    CHECK(nlisted == live2, "the report of test 2 lists only its own outstanding blocks");
#ifdef LL2C_TRANSLATED
    if (live2) CHECK(listed[0] == b, "... namely this block");
#endif
  }
  CHECK(h_total(3) == 0, "after the post action no block is left in the checking period");
  CHECK(reports == 0, "no misuse is reported");
  WITNESS("end");
}
HARNESS(harness_two_tests_1_0) { body(1, 0); }
HARNESS(harness_two_tests_2_1) { body(2, 1); }
HARNESS(harness_two_tests_1_5) { body(1, 5); }
HARNESS(harness_two_tests_1_4) { body(1, 4); }
HARNESS(harness_two_tests_3_3) { body(3, 3); }
HARNESS(harness_two_tests_0_0) { body(0, 0); }
HARNESS(harness_two_tests_9_0) { body(9, 0); }
HARNESS(harness_two_tests_9_5) { body(9, 5); }
HARNESS(harness_two_tests_11_3) { body(11, 3); }
HARNESS(harness_two_tests_9_4) { body(9, 4); }   /* two leaks in test 1 (run with ONE hash bucket: they share a chain); test 2 clean */
