STUBS = ['_ZN28MemoryLeakOutputStringBuffer16reportMemoryLeakEP22MemoryLeakDetectorNode', '_ZN28MemoryLeakOutputStringBuffer24startMemoryLeakReportingEv', '_ZN28MemoryLeakOutputStringBuffer23stopMemoryLeakReportingEv',
         '_ZN28MemoryLeakOutputStringBuffer41reportDeallocateNonAllocatedMemoryFailureEPKcmP19TestMemoryAllocatorP17MemoryLeakFailure',
         '_ZN28MemoryLeakOutputStringBuffer43reportAllocationDeallocationMismatchFailureEP22MemoryLeakDetectorNodePKcmP19TestMemoryAllocatorP17MemoryLeakFailure',
         '_ZN28MemoryLeakOutputStringBuffer29reportMemoryCorruptionFailureEP22MemoryLeakDetectorNodePKcmP19TestMemoryAllocatorP17MemoryLeakFailure']
D = {'1_0': 'test 1 leaks a block; test 2 allocates nothing', '2_1': 'test 1 allocates and releases; test 2 leaks', '1_5': 'test 1 leaks; test 2 releases that block and leaks a new one',
     '1_4': 'test 1 leaks; test 2 only releases that block', '3_3': 'both tests allocate+release one block and leak another', '0_0': 'no allocation at all'}
D1 = dict(D); D1.update({'9_0': 'test 1 leaks two blocks; test 2 allocates nothing', '9_5': 'test 1 leaks two blocks; test 2 releases one of them and leaks a new one',
      '11_3': 'test 1 allocates+releases one block and leaks two; test 2 allocates+releases one and leaks one', '9_4': 'test 1 leaks two blocks; test 2 only releases one of them'})
SPEC = {
    'property': 'C07',
    'max_jobs': 1,   # ~13 GB per obligation
    'functions_of_interest': ['MemoryLeakWarningPlugin', 'MemoryLeakDetector', 'mem_leak_operator'],
    'assumptions': ['compiled with leak detection on; test code allocates through the real global operator new/delete overloads into a static detector installed as the global one',
                    'report text builders replaced by a recorder of the listed blocks (text is C14); 4 hash buckets (hook); allocation scripts are concrete per obligation, all flags/counts symbolic'],
    'groups': [{
        'name': 'plugin', 'wrapper': 'w07.cpp', 'harness': 'h07.c',
        'config': {'memleak': True, 'stubs': STUBS, 'defines': ['-DCPPUTEST_VERIF_HASH_TABLE_SIZE=4'], 'heapcheck': False, 'empty_regex': ['^_ZN[0-9]+[A-Za-z]*FailureC[12]E', '^_ZN[0-9]+[A-Za-z]*FailureD[012]E']},
        'obligations': [{'fn': 'harness_two_tests_%s' % k, 'tier': ('quick' if k in ('1_0', '0_0') else 'thorough'),   # 2_1 and 3_3: the SAT back end runs out of the 25 GB cap (not claimed)
                         'unwind': 6, 'timeout': 2400, 'cbmc_flags': ['--max-field-sensitivity-array-size', '128'], 'unwindset': ['_ZN12SimpleString6StrCmpEPKcS1_.0:28', '_ZN12SimpleString6StrLenEPKc.0:40', '_ZN12SimpleString7StrNCpyEPcPKcm.0:40', 'env_fputs.0:40'], 'bounds': 'two consecutive tests: %s; expected-leak counts 0..3, ignore flags and own pass/fail of both tests symbolic' % d} for k, d in D.items() if k not in ('2_1', '3_3')],
    }, {
        # one hash bucket: any two live blocks share a chain, so the chain walks of the leak report and of the
        # end-of-period marking are exercised with a successor present (seeded C07-r4)
        'name': 'plugin1', 'wrapper': 'w07.cpp', 'harness': 'h07.c',
        'config': {'memleak': True, 'stubs': STUBS, 'defines': ['-DCPPUTEST_VERIF_HASH_TABLE_SIZE=1'], 'heapcheck': False, 'empty_regex': ['^_ZN[0-9]+[A-Za-z]*FailureC[12]E', '^_ZN[0-9]+[A-Za-z]*FailureD[012]E']},
        'obligations': [{'fn': 'harness_two_tests_%s' % k, 'tier': 'quick', 'unwind': 6, 'timeout': 2400, 'cbmc_flags': ['--max-field-sensitivity-array-size', '128'], 'unwindset': ['_ZN12SimpleString6StrCmpEPKcS1_.0:28', '_ZN12SimpleString6StrLenEPKc.0:40', '_ZN12SimpleString7StrNCpyEPcPKcm.0:40', 'env_fputs.0:40'],
                         'bounds': 'two consecutive tests, ONE hash bucket (all live blocks share a chain): %s; expected-leak counts 0..3, ignore flags and own pass/fail of both tests symbolic' % d} for k, d in D1.items()],
    }],
}
