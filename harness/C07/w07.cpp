// C07 wrapper: the real MemoryLeakWarningPlugin around a static detector installed as the global one;
// test code allocates through the real global operator new / delete overloads.
#define private public
#define protected public
#include "CppUTest/TestHarness.h"
#include "CppUTest/TestOutput.h"
#include "CppUTest/TestResult.h"
#include "CppUTest/MemoryLeakDetector.h"
#include "CppUTest/MemoryLeakWarningPlugin.h"
#include "CppUTest/TestMemoryAllocator.h"
#include "CppUTest/PlatformSpecificFunctions.h"

extern "C" {
void h_env_install(void);
void h_report_cat(int category);
void h_exit_hook(void);
int h_is_translated(void);            // 1 in the translated world (failure text is emptied there), 0 in the real build
void h_listed_count(unsigned long n); // real build: number of leak entries in the text of the leak failure
}
class Rep : public MemoryLeakFailure
{
public:
    virtual void fail(char* text) CPPUTEST_OVERRIDE { h_report_cat(text[0] == 'D' ? 1 : text[0] == 'A' ? 2 : text[0] == 'M' ? 3 : 0); }
};
class QuietOutput : public TestOutput
{
public:
    virtual void printBuffer(const char*) CPPUTEST_OVERRIDE {}
    virtual void flush() CPPUTEST_OVERRIDE {}
    virtual void printFailure(const TestFailure& f) CPPUTEST_OVERRIDE
    {
        if (h_is_translated()) return;
        // real build: count the entries of the real leak report carried by the failure
        SimpleString m = f.getMessage();
        h_listed_count(m.count("Alloc num ("));
    }
};
#undef new
#undef delete
static MemoryLeakDetector* det_;
static MemoryLeakWarningPlugin* plugin_;
static TestResult* result_;
static UtestShell* shell_;

extern "C" {
void h_init(void)
{
    h_env_install();
    PlatformSpecificLongJmp = h_exit_hook;
    MemoryLeakWarningPlugin::turnOffNewDeleteOverloads();       // construct the fixtures with plain allocation
    defaultNewAllocator(); defaultNewArrayAllocator(); defaultMallocAllocator(); NullUnknownAllocator::defaultAllocator();
    static Rep rep;
    static MemoryLeakDetector det(&rep);
    static QuietOutput out;
    static TestResult result(out);
    static UtestShell shell("g", "n", "f.cpp", 5);
    MemoryLeakWarningPlugin::setGlobalDetector(&det, &rep);
    static MemoryLeakWarningPlugin plugin("leaks", &det);
    det_ = &det; plugin_ = &plugin; result_ = &result; shell_ = &shell;
    MemoryLeakWarningPlugin::turnOnDefaultNotThreadSafeNewDeleteOverloads();   // from here on new/delete are tracked
}
void h_pre(void) { plugin_->preTestAction(*shell_, *result_); }
void h_post(void) { plugin_->postTestAction(*shell_, *result_); }
void h_expect(unsigned long n) { plugin_->expectLeaksInTest(n); }
void h_ignore(void) { plugin_->ignoreAllLeaksInTest(); }
void h_own_failure(void) { result_->addFailure(TestFailure(shell_, "f.cpp", 9, "own")); }
void* h_new(void) { return ::operator new(4); }
void h_delete(void* p) { ::operator delete(p); }
unsigned long h_failures(void) { return result_->getFailureCount(); }
unsigned long h_total(int period) { return det_->totalMemoryLeaks((MemLeakPeriod)period); }
int h_overloaded(void) { return MemoryLeakWarningPlugin::areNewDeleteOverloaded(); }
char* h_node_memory(MemoryLeakDetectorNode* n) { return n->memory_; }
}
