/* C08 v0 feasibility */
#include "h08_pool.h"

static uint32_t failed, cat;
void h_exit_hook(void) { CHECK(0, "the test is never left through the framework's own exit"); END_PATH(); }
static int want_fail, want_cat;
void h_fail_hook(uint8_t* m) {
  failed++;
  cat = m[0] == '#' ? 100 + m[1] : m[14] * 256 + m[25];
  OBSERVE(cat);
  CHECK(want_fail, "a failure is reported only if the actual calls deviate from the expectations");
  WITNESS("failure path");
  END_PATH();
}

HARNESS(harness_v0) {
  h_init();
  IN_U32(ve); IN_U32(va);
  h_expect_one('a');
  h_exp_param('p', ve);
  want_fail = !(ve == va);
  h_actual('a');
  h_act_param('p', va);
  h_check();
  CHECK(!want_fail, "no failure reported only if calls match");
  WITNESS("end");
}
HARNESS(harness_v1) {
  h_init();
  IN_U32(ve); IN_U32(va);
  h_expect_one('a');
  h_exp_param('p', ve);
  want_fail = 1;
  h_actual('a');
  h_act_param('q', va);
  h_check();
  CHECK(!want_fail, "no failure reported only if calls match");
  WITNESS("end");
}
