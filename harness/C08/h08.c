/* C08: the mock verdict is exact - a mocked scenario passes iff the actual calls match the expectations.
 *
 * A real MockSupport object is driven step by step through a HISTORY: expectations, actual calls (function,
 * object, parameter, return value), checkExpectations.  The histories come from enumerated families (see decode()):
 * every history is one concrete path through the real engine; WHICH history runs is a symbolic input of the
 * obligation, and so are the return values attached to the expectations and the caller's default.  Names, counts,
 * parameter values and objects are enumerated, not symbolic: one symbolic value of these makes the shape of the
 * engine's candidate lists symbolic, which this technique does not survive (measured, see spec.py).
 * The failure reporter hands the first failure to h_fail_hook, which compares its category and the step at which it
 * arrives with the oracle and ends the path (a failing mock check leaves the test).
 *
 * Oracle (from the property text): the expectations are a multiset of calls (function, parameter, object) with
 * multiplicities.  Actual calls are compared in call order; each consumes one unit of the first declared
 * expectation it agrees with completely.  The first call that cannot consume anything is the first deviation; its
 * diagnosis is the first attribute, in the order the call supplies them (function, object, parameter, end of
 * call), that no still-open expectation accepts.  At checkExpectations an open expectation is a deviation, and under
 * strict order so is a call that consumed an expectation out of its turn.  No deviation <=> no failure. */
#include "h08_pool.h"

/* ---------------------------------------------------------------- failure categories = the Mock*Failure classes */
enum { C_NONE, C_UNFULFILLED, C_UNEXPECTED_CALL, C_ORDER, C_PARAM, C_MISSING_PARAM, C_UNEXPECTED_OBJECT, C_OBJECT_MISSING, C_OTHER };
static uint32_t stub_cat;      /* translated world: set by the constructor stubs */
#ifdef LL2C_TRANSLATED
/* translated world: message construction (C14's subject; strings of 50-250 bytes) is replaced by the category of
 * the failure class.  The object is left unconstructed: the reporter never returns, so nobody reads or destroys it. */
void _ZN35MockExpectedCallsDidntHappenFailureC2EP10UtestShellRK21MockExpectedCallsList(uint8_t* t, uint8_t* s, uint8_t* l) { (void)t; (void)s; (void)l; stub_cat = C_UNFULFILLED; }
void _ZN33MockUnexpectedCallHappenedFailureC2EP10UtestShellRK12SimpleStringRK21MockExpectedCallsList(uint8_t* t, uint8_t* s, uint8_t* n, uint8_t* l) { (void)t; (void)s; (void)n; (void)l; stub_cat = C_UNEXPECTED_CALL; }
void _ZN20MockCallOrderFailureC2EP10UtestShellRK21MockExpectedCallsList(uint8_t* t, uint8_t* s, uint8_t* l) { (void)t; (void)s; (void)l; stub_cat = C_ORDER; }
void _ZN35MockUnexpectedInputParameterFailureC2EP10UtestShellRK12SimpleStringRK14MockNamedValueRK21MockExpectedCallsList(uint8_t* t, uint8_t* s, uint8_t* n, uint8_t* p, uint8_t* l) { (void)t; (void)s; (void)n; (void)p; (void)l; stub_cat = C_PARAM; }
void _ZN36MockUnexpectedOutputParameterFailureC2EP10UtestShellRK12SimpleStringRK14MockNamedValueRK21MockExpectedCallsList(uint8_t* t, uint8_t* s, uint8_t* n, uint8_t* p, uint8_t* l) { (void)t; (void)s; (void)n; (void)p; (void)l; stub_cat = C_OTHER; }
void _ZN39MockExpectedParameterDidntHappenFailureC2EP10UtestShellRK12SimpleStringRK21MockExpectedCallsListS7_(uint8_t* t, uint8_t* s, uint8_t* n, uint8_t* l, uint8_t* m) { (void)t; (void)s; (void)n; (void)l; (void)m; stub_cat = C_MISSING_PARAM; }
void _ZN35MockNoWayToCompareCustomTypeFailureC2EP10UtestShellRK12SimpleString(uint8_t* t, uint8_t* s, uint8_t* n) { (void)t; (void)s; (void)n; stub_cat = C_OTHER; }
void _ZN32MockNoWayToCopyCustomTypeFailureC2EP10UtestShellRK12SimpleString(uint8_t* t, uint8_t* s, uint8_t* n) { (void)t; (void)s; (void)n; stub_cat = C_OTHER; }
void _ZN27MockUnexpectedObjectFailureC2EP10UtestShellRK12SimpleStringPKvRK21MockExpectedCallsList(uint8_t* t, uint8_t* s, uint8_t* n, uint8_t* o, uint8_t* l) { (void)t; (void)s; (void)n; (void)o; (void)l; stub_cat = C_UNEXPECTED_OBJECT; }
void _ZN36MockExpectedObjectDidntHappenFailureC2EP10UtestShellRK12SimpleStringRK21MockExpectedCallsList(uint8_t* t, uint8_t* s, uint8_t* n, uint8_t* l) { (void)t; (void)s; (void)n; (void)l; stub_cat = C_OBJECT_MISSING; }
/* any failure of the framework's own checks inside the mock engine (FAIL("...This cannot happen"), a typed getter
 * used on the wrong type, malloc returning NULL) is a violation here; the real build arrives at h_exit_hook instead */
void _ZN10UtestShell4failEPKcS1_mRK14TestTerminator(uint8_t* t, uint8_t* text, uint8_t* file, uint64_t line, uint8_t* term) { (void)t; (void)text; (void)file; (void)line; (void)term; CHECK(0, "the mock engine never fails one of the framework's own checks"); END_PATH(); }
void _ZN10UtestShell8failWithERK11TestFailureRK14TestTerminator(uint8_t* t, uint8_t* f, uint8_t* term) { (void)t; (void)f; (void)term; CHECK(0, "the mock engine never fails one of the framework's own checks"); END_PATH(); }
/* MockNamedValue::setValue(int): same effect as the original (type_ = "int", value_.intValue_ = value), but the
 * inactive bytes of the 16-byte value union are cleared as well.  The original stores 4 bytes into a union that
 * lives in an uninitialised stack object; the symbolic executor then no longer sees a constant there even for
 * constant values, and every later comparison forks. */
void _ZN12SimpleStringC2EPKc(uint8_t*, uint8_t*);
uint8_t* _ZN12SimpleStringaSERKS_(uint8_t*, uint8_t*);
void _ZN12SimpleStringD2Ev(uint8_t*);
void _ZN14MockNamedValue8setValueEi(uint8_t* self, uint32_t value) {
  uint64_t tmp[2];
  _ZN12SimpleStringC2EPKc((uint8_t*)tmp, (uint8_t*)"int");
  _ZN12SimpleStringaSERKS_(self + 24, (uint8_t*)tmp);
  _ZN12SimpleStringD2Ev((uint8_t*)tmp);
  struct w2 { uint64_t a, b; } whole = { value, 0 };
  *(struct w2*)(self + 40) = whole;
}
#endif
void h_exit_hook(void) { CHECK(0, "the mock engine never fails one of the framework's own checks"); END_PATH(); }

static int starts(const uint8_t* m, const char* p) { for (int i = 0; p[i]; i++) if (m[i] != (uint8_t)p[i]) return 0; return 1; }
/* real build: the category is the first line of the real message */
static uint32_t cat_of_message(const uint8_t* m) {
  if (starts(m, "Mock Failure: Expected call WAS NOT fulfilled.")) return C_UNFULFILLED;
  if (starts(m, "Mock Failure: Unexpected call to function: ") || starts(m, "Mock Failure: Unexpected additional (")) return C_UNEXPECTED_CALL;
  if (starts(m, "Mock Failure: Out of order calls")) return C_ORDER;
  if (starts(m, "Mock Failure: Unexpected parameter name to function \"") || starts(m, "Mock Failure: Unexpected parameter value to parameter \"")) return C_PARAM;
  if (starts(m, "Mock Failure: Expected parameter for function \"")) return C_MISSING_PARAM;
  if (starts(m, "MockFailure: Function called on an unexpected object: ")) return C_UNEXPECTED_OBJECT;
  if (starts(m, "Mock Failure: Expected call on object for function \"")) return C_OBJECT_MISSING;
  return C_OTHER;
}

/* ---------------------------------------------------------------- the scenario and its oracle */
#define MAXE 2
#define MAXA 3
typedef struct { int f, hasp, p, haso, wantr; uint32_t v, o, n, rv, used; } call_t;
static call_t ex[MAXE], ac[MAXA];
static int NE, NA;
static uint32_t strict, ignore_others;
static uint32_t due;          /* category that has to be reported at the current step (C_NONE: nothing may be reported) */
static uint32_t order_bad;    /* a call consumed an expectation out of its turn (strict order) */
static uint32_t checked_calls;
static int pending = -1;      /* actual call whose end-of-call verdict is still outstanding */
static int pending_match;     /* expectation it consumes, -1: none */
static uint32_t pending_cat;
#ifdef KF_C08_1
static uint32_t kf_guard = 1;
#else
static uint32_t kf_guard = 0;
#endif
#ifdef KF_C08_2
static uint32_t kf2_guard = 1;
#else
static uint32_t kf2_guard = 0;
#endif
static uint32_t kf_both;     /* the history ends with an open expectation AND an out-of-turn call */

void h_fail_hook(uint8_t* m) {
#ifdef LL2C_TRANSLATED
  (void)m; (void)cat_of_message; uint32_t cat = stub_cat;
#else
  uint32_t cat = cat_of_message(m);
#endif
  OBSERVE(cat);
  /* open finding KF-C08-1: under strict order an open expectation hides an earlier out-of-turn call (reported as "not fulfilled") */
  if (kf_guard) ASSUME(!kf_both);
  CHECK(due != C_NONE, "a failure is reported only when the actual calls deviate from the expectations, and only at the step where the deviation shows");
  CHECK(cat == due, "the reported failure carries the diagnosis of the first deviation");
  WITNESS("failure path");
  END_PATH();
}

static int same_spec(const call_t* a, const call_t* b) {
  if (a->f != b->f || a->hasp != b->hasp || a->haso != b->haso) return 0;
  if (a->hasp && (a->p != b->p || a->v != b->v)) return 0;
  if (a->haso && a->o != b->o) return 0;
  return 1;
}
/* both could accept one and the same actual call without being the same expectation */
static int ambiguous(const call_t* a, const call_t* b) {
  if (a->f != b->f || a->hasp != b->hasp) return 0;
  if (a->hasp && (a->p != b->p || a->v != b->v)) return 0;
  return a->haso != b->haso;       /* same function and parameter; one names an object, the other accepts any */
}
static int is_ignored(const call_t* a) {
  if (!ignore_others) return 0;
  for (int i = 0; i < NE; i++) if (ex[i].f == a->f) return 0;
  return 1;
}
/* expectation that stands at position k (1-based) of the expected sequence, -1: none */
static int expected_at(uint32_t k) {
  uint32_t s = 0;
  for (int i = 0; i < NE; i++) { if (k > s && k <= s + ex[i].n) return i; s += ex[i].n; }
  return -1;
}
/* verdict of actual call a, attribute by attribute; sets what is due at which stage */
enum { ST_NAME, ST_OBJECT, ST_PARAM, ST_END };
static uint32_t call_cat; static int call_stage, call_match;
static void judge(const call_t* a) {
  int c[MAXE], any = 0;
  call_match = -1; call_cat = C_NONE; call_stage = ST_END;
  for (int i = 0; i < NE; i++) { c[i] = ex[i].f == a->f && ex[i].used < ex[i].n; any |= c[i]; }
  if (!any) { call_cat = C_UNEXPECTED_CALL; call_stage = ST_NAME; return; }
  if (a->haso) {
    any = 0;
    for (int i = 0; i < NE; i++) { c[i] = c[i] && (!ex[i].haso || ex[i].o == a->o); any |= c[i]; }
    if (!any) { call_cat = C_UNEXPECTED_OBJECT; call_stage = ST_OBJECT; return; }
  }
  if (a->hasp) {
    any = 0;
    for (int i = 0; i < NE; i++) { c[i] = c[i] && ex[i].hasp && ex[i].p == a->p && ex[i].v == a->v; any |= c[i]; }
    if (!any) { call_cat = C_PARAM; call_stage = ST_PARAM; return; }
  }
  int missing_param = 0;
  for (int i = 0; i < NE; i++) {
    if (!c[i]) continue;
    if (ex[i].hasp && !a->hasp) { missing_param = 1; continue; }
    if (ex[i].haso && !a->haso) continue;
    if (call_match < 0) call_match = i;
  }
  if (call_match < 0) call_cat = missing_param ? C_MISSING_PARAM : C_OBJECT_MISSING;
}
/* the end of a call: its deviation, if any, is due now */
static void settle_pending(void) {
  if (pending < 0) return;
  if (pending_cat != C_NONE) due = pending_cat;
}
/* open finding KF-C08-2: an expectation that names an object and is still a candidate when actual call k passes that
 * object keeps its "object was passed" mark if the call's parameter then rules it out (nobody resets a candidate that is
 * dropped from the list); a later call to the same function WITHOUT an object is then accepted for it.  The histories
 * excluded: call k succeeds, leaves such a mark, and a later actual call names the same function and no object. */
static int leaves_stale_object_mark(int k) {
  const call_t* a = &ac[k];
  if (!a->haso || !a->hasp || call_cat != C_NONE) return 0;
  int stale = 0;
  for (int i = 0; i < NE; i++)
    if (ex[i].f == a->f && ex[i].used < ex[i].n && ex[i].haso && ex[i].o == a->o && !(ex[i].hasp && ex[i].p == a->p && ex[i].v == a->v)) stale = 1;
  if (!stale) return 0;
  for (int j = k + 1; j < NA; j++) if (ac[j].f == a->f && !ac[j].haso) return 1;
  return 0;
}
static void consume(int m, uint32_t position) {
  ex[m].used++;
  if (strict) { int e = expected_at(position); if (e < 0 || !same_spec(&ex[e], &ex[m])) order_bad = 1; }
}

/* ---------------------------------------------------------------- the enumerated family of histories
 * A history is a number s in mixed radix: flags, then one digit group per expectation, then one per actual call.
 *   flags        : strict order off/on  x  ignoreOtherCalls off/on
 *   expectation  : function (the first one is always "a"; later ones a|b)  x  count  x  parameter  x  object
 *   actual call  : function a|b  x  parameter  x  object  x  asks for its return value no/yes
 * digit sets  FULL: count 0|1|2, parameter none|p=1|p=2|q=1, object none|o1|o2, return value asked no|yes
 *             CORE: count 1|2,   parameter none|p=1|p=2,     object none|o1,    return value always asked */
enum { FULL, CORE };
static uint32_t take(uint32_t* s, uint32_t radix) { uint32_t d = *s % radix; *s /= radix; return d; }
static void set_param(call_t* c, uint32_t d) { c->hasp = d != 0; c->p = d == 3 ? 'q' : 'p'; c->v = d == 2 ? 2 : 1; }
static uint32_t family_size(const int ne, const int na, const int mode) {
  uint32_t e1 = mode == FULL ? 3 * 4 * 3 : 2 * 3 * 2, a1 = mode == FULL ? 2 * 4 * 3 * 2 : 2 * 3 * 2, t = 4;
  for (int i = 0; i < ne; i++) t *= i ? 2 * e1 : e1;
  for (int k = 0; k < na; k++) t *= a1;
  return t;
}
static void decode(uint32_t s, const int ne, const int na, const int mode) {
  NE = ne; NA = na;
  strict = take(&s, 2); ignore_others = take(&s, 2);
  for (int i = 0; i < ne; i++) {
    call_t* e = &ex[i];
    e->f = i && take(&s, 2) ? 'b' : 'a';
    e->n = mode == FULL ? take(&s, 3) : 1 + take(&s, 2);
    set_param(e, take(&s, mode == FULL ? 4 : 3));
    uint32_t o = take(&s, mode == FULL ? 3 : 2); e->haso = o != 0; e->o = o == 2;
    e->used = 0; e->wantr = 0;
  }
  for (int k = 0; k < na; k++) {
    call_t* a = &ac[k];
    a->f = take(&s, 2) ? 'b' : 'a';
    set_param(a, take(&s, mode == FULL ? 4 : 3));
    uint32_t o = take(&s, mode == FULL ? 3 : 2); a->haso = o != 0; a->o = o == 2;
    a->wantr = mode == FULL ? take(&s, 2) : 1;
  }
}

/* one history against the real MockSupport; the oracle moves in lockstep */
static void run_history(uint32_t dflt) {
  if (strict) h_strict();
  if (ignore_others) h_ignore_others();
  for (int i = 0; i < NE; i++) {
    h_expect(ex[i].n, ex[i].f);
    if (ex[i].haso) h_exp_object(ex[i].o);
    if (ex[i].hasp) h_exp_param(ex[i].p, ex[i].v);
    h_exp_return(ex[i].rv);
  }
  for (int k = 0; k < NA; k++) {
    call_t* a = &ac[k];
    int ign = is_ignored(a);
    /* a new call first brings the previous one to its end */
    due = C_NONE; settle_pending();
    if (due == C_NONE && pending >= 0 && pending_match >= 0) consume(pending_match, checked_calls);
    if (!ign && due == C_NONE) {
      judge(a);
      if (call_stage == ST_NAME) due = call_cat;
      if (kf2_guard) ASSUME(!leaves_stale_object_mark(k));
    }
    h_actual(a->f);
    CHECK(due == C_NONE, "a deviation that shows at this step is reported at this step");
    pending = -1;
    if (ign) {
      if (a->haso) h_act_object(a->o);
      if (a->hasp) h_act_param(a->p, a->v);
      if (a->wantr) { uint32_t r = h_act_return(dflt); OBSERVE(r); CHECK(r == dflt, "an ignored call returns the caller's default"); }
      continue;
    }
    checked_calls++;
    if (a->haso) {
      if (call_stage == ST_OBJECT) due = call_cat;
      h_act_object(a->o);
      CHECK(due == C_NONE, "a deviation that shows at this step is reported at this step");
    }
    if (a->hasp) {
      if (call_stage == ST_PARAM) due = call_cat;
      h_act_param(a->p, a->v);
      CHECK(due == C_NONE, "a deviation that shows at this step is reported at this step");
    }
    pending = k; pending_match = call_match; pending_cat = call_stage == ST_END ? call_cat : C_NONE;
    if (a->wantr) {
      settle_pending();
      uint32_t r = h_act_return(dflt);
      CHECK(due == C_NONE, "a deviation that shows at this step is reported at this step");
      OBSERVE(r);
      if (pending_match >= 0) CHECK(r == ex[pending_match].rv, "an actual call returns the return value of the expectation it consumed");
      if (pending_match >= 0) consume(pending_match, checked_calls);
      pending = -1;
    }
  }
  /* checkExpectations: the last call ends; then open expectations, then the order */
  due = C_NONE; settle_pending();
  if (due == C_NONE) {
    if (pending >= 0 && pending_match >= 0) consume(pending_match, checked_calls);
    pending = -1;
    int open = 0;
    for (int i = 0; i < NE; i++) if (ex[i].used != ex[i].n) open = 1;
    due = order_bad ? C_ORDER : open ? C_UNFULFILLED : C_NONE;
    kf_both = open && order_bad;
  }
  OBSERVE(due);
  h_check();
  CHECK(due == C_NONE, "checkExpectations fails the test when an expectation is open or, under strict order, a call came out of turn");
  WITNESS("end");
}

/* histories lo, lo+stride, ... (count of them) of family (ne, na, mode); which one runs is a symbolic input, and so
 * are the return values attached to the expectations and the caller's default */
static void batch(const int ne, const int na, const int mode, const uint32_t lo, const uint32_t stride, const uint32_t count) {
  h_init();
  IN_U32(pick); IN_ARR_U32(er, MAXE); IN_U32(dflt);
  uint32_t chosen = pick % count;
  OBSERVE(chosen);
  ENV_ENGINE_ASSERT(lo + (count - 1) * stride < family_size(ne, na, mode), "batch lies inside its family");
  for (uint32_t j = 0; j < count; j++) {
    if (chosen != j) continue;
    decode(lo + j * stride, ne, na, mode);
    for (int i = 0; i < ne; i++) ex[i].rv = er[i];
    /* precondition of the property: matching is unambiguous */
    for (int i = 0; i < ne; i++) for (int k = i + 1; k < ne; k++) ASSUME(!ambiguous(&ex[i], &ex[k]));
    run_history(dflt);
    return;
  }
}
#define BATCH(name, ne, na, mode, lo, stride, count) HARNESS(harness_##name) { batch(ne, na, mode, lo, stride, count); }
#include "h08_batches.h"

/* open finding KF-C08-1 (expected to FAIL): strict order; expectNCalls(2, "a"), expectOneCall("b"); actual calls b, a.
 * The call to b comes out of turn (first deviation), one call to a stays open; the failure reported is "expected call
 * WAS NOT fulfilled", not "out of order calls". */
/* open finding KF-C08-2 (expected to FAIL): expectOneCall("a").onObject(o1).withParameter("p", 2); expectOneCall("a").withParameter("p", 1);
 * actualCall("a").onObject(o1).withParameter("p", 1); actualCall("a").withParameter("p", 2) - the second call names no object,
 * the only open expectation demands o1: "expected call on object ... did not happen" is due, but the scenario PASSES. */
HARNESS(finding_stale_object_mark) {
  h_init();
  IN_U32(dflt2);
  kf2_guard = 0;
  NE = 2; NA = 2; strict = 0; ignore_others = 0;
  ex[0] = (call_t){ .f = 'a', .n = 1, .hasp = 1, .p = 'p', .v = 2, .haso = 1, .o = 0 }; ex[1] = (call_t){ .f = 'a', .n = 1, .hasp = 1, .p = 'p', .v = 1 };
  ac[0] = (call_t){ .f = 'a', .hasp = 1, .p = 'p', .v = 1, .haso = 1, .o = 0, .wantr = 1 }; ac[1] = (call_t){ .f = 'a', .hasp = 1, .p = 'p', .v = 2 };
  run_history(dflt2);
}
HARNESS(finding_order_hidden_by_unfulfilled) {
  h_init();
  IN_U32(dflt);
  kf_guard = 0;
  NE = 2; NA = 2; strict = 1; ignore_others = 0;
  ex[0] = (call_t){ .f = 'a', .n = 2 }; ex[1] = (call_t){ .f = 'b', .n = 1 };
  ac[0] = (call_t){ .f = 'b', .wantr = 1 }; ac[1] = (call_t){ .f = 'a', .wantr = 1 };
  run_history(dflt);
}
