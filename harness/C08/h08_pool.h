/* C08: environment for the mock engine.
 * Solver world: every allocation is served from small STATIC blocks, one pool per size class, first fit
 * (a released block is handed out again at once).  Static typed storage keeps pointers and the bytes of the
 * short concrete strings (function / parameter / type names) visible to constant propagation; CBMC heap objects
 * do not, and then every list walk unwinds to the bound (measured: no verdict in 900 s for 1 expectation / 1 call).
 * Native worlds (differential runs, replays): plain malloc. */
#define ENV_CUSTOM_MALLOC
#define ENV_CUSTOM_NEW
#include "env.c"

#ifdef LL2C_CBMC
/* one block = one static array + one scalar live flag (scalars and small arrays are constant-propagated by symex) */
#define BLK(t, n, w) static t n[w]; static uint8_t n##_live;
#define TRY(n) if (!n##_live) { n##_live = 1; return (uint8_t*)n; }
#define REL(n) if (p == (uint8_t*)n) { ENV_ENGINE_ASSERT(n##_live, "release of a block that is not allocated"); n##_live = 0; return 1; }
#define X4(M, n) M(n##0) M(n##1) M(n##2) M(n##3)
#define X8(M, n) X4(M, n) M(n##4) M(n##5) M(n##6) M(n##7)
#define X16(M, n) X8(M, n) M(n##8) M(n##9) M(n##10) M(n##11) M(n##12) M(n##13) M(n##14) M(n##15)
#define X24(M, n) X16(M, n) M(n##16) M(n##17) M(n##18) M(n##19) M(n##20) M(n##21) M(n##22) M(n##23)
#define POOL(X, t, n, w) \
  X(BLKD_##n, n) \
  static uint8_t* n##alloc(void) { X(TRY, n) ENV_ENGINE_ASSERT(0, "allocation pool " #n " exhausted (bound too small)"); return 0; } \
  static int n##free(uint8_t* p) { X(REL, n) return 0; }
/* string buffers (bytes) */
#define BLKD_s8_(n) BLK(uint8_t, n, 8)
#define BLKD_s32_(n) BLK(uint8_t, n, 32)
POOL(X24, uint8_t, s8_, 8)
POOL(X8, uint8_t, s32_, 32)
/* objects (words) */
#define BLKD_o8_(n) BLK(uint64_t, n, 1)
#define BLKD_o16_(n) BLK(uint64_t, n, 2)
#define BLKD_o88_(n) BLK(uint64_t, n, 11)
#define BLKD_o160_(n) BLK(uint64_t, n, 20)
POOL(X8, uint64_t, o8_, 1)
POOL(X16, uint64_t, o16_, 2)
POOL(X8, uint64_t, o88_, 11)
POOL(X4, uint64_t, o160_, 20)
uint8_t* env_malloc(uint64_t n) {
  env_malloc_calls++; env_last_malloc_size = n;
  ENV_ENGINE_ASSERT(n <= 32, "string buffer larger than the model's block (bound too small)");
  return n <= 8 ? s8_alloc() : s32_alloc();
}
void env_free(uint8_t* p) {
  env_free_calls++;
  if (!p) return;
  int ok = s8_free(p) || s32_free(p);
  ENV_ENGINE_ASSERT(ok, "free of a foreign pointer");
}
uint8_t* env_realloc(uint8_t* p, uint64_t n) { (void)p; (void)n; ENV_ENGINE_ASSERT(0, "realloc is not used by the mock engine"); return 0; }
uint8_t* _Znwm(uint64_t n) {
  ENV_ENGINE_ASSERT(n == 8 || n == 16 || n == 88 || n == 160, "operator new of a size the model has no pool for");
  return n == 8 ? o8_alloc() : n == 16 ? o16_alloc() : n == 88 ? o88_alloc() : o160_alloc();
}
void _ZdlPv(uint8_t* p) {
  if (!p) return;
  int ok = o16_free(p) || o88_free(p) || o160_free(p) || o8_free(p);
  ENV_ENGINE_ASSERT(ok, "delete of a foreign pointer");
}
uint8_t* _Znam(uint64_t n) { (void)n; ENV_ENGINE_ASSERT(0, "operator new[] is not used by the mock engine"); return 0; }
void _ZdaPv(uint8_t* p) { (void)p; ENV_ENGINE_ASSERT(0, "operator delete[] is not used by the mock engine"); }
void _ZdlPvm(uint8_t* p, uint64_t n) { (void)n; _ZdlPv(p); }
void _ZdaPvm(uint8_t* p, uint64_t n) { (void)n; _ZdaPv(p); }
#else
uint8_t* env_malloc(uint64_t n) { env_malloc_calls++; env_last_malloc_size = n; return (uint8_t*)malloc(n ? n : 1); }
void env_free(uint8_t* p) { env_free_calls++; free(p); }
uint8_t* env_realloc(uint8_t* p, uint64_t n) { return (uint8_t*)realloc(p, n); }
#ifdef LL2C_TRANSLATED
uint8_t* _Znwm(uint64_t n) { return (uint8_t*)malloc(n ? n : 1); }
uint8_t* _Znam(uint64_t n) { return (uint8_t*)malloc(n ? n : 1); }
void _ZdlPv(uint8_t* p) { free(p); }
void _ZdaPv(uint8_t* p) { free(p); }
void _ZdlPvm(uint8_t* p, uint64_t n) { (void)n; free(p); }
void _ZdaPvm(uint8_t* p, uint64_t n) { (void)n; free(p); }
#endif
#endif
#include "translated.h"

