# C08: the mock verdict is exact.  Obligations = the BATCH(...) lines of h08_batches.h (one source of truth).
import os, re
HERE = os.path.dirname(os.path.abspath(__file__))
STUBS = [
    # Mock*Failure constructors: message construction (property C14) is replaced by the category of the failure class
    '_ZN35MockExpectedCallsDidntHappenFailureC2EP10UtestShellRK21MockExpectedCallsList',
    '_ZN33MockUnexpectedCallHappenedFailureC2EP10UtestShellRK12SimpleStringRK21MockExpectedCallsList',
    '_ZN20MockCallOrderFailureC2EP10UtestShellRK21MockExpectedCallsList',
    '_ZN35MockUnexpectedInputParameterFailureC2EP10UtestShellRK12SimpleStringRK14MockNamedValueRK21MockExpectedCallsList',
    '_ZN36MockUnexpectedOutputParameterFailureC2EP10UtestShellRK12SimpleStringRK14MockNamedValueRK21MockExpectedCallsList',
    '_ZN39MockExpectedParameterDidntHappenFailureC2EP10UtestShellRK12SimpleStringRK21MockExpectedCallsListS7_',
    '_ZN35MockNoWayToCompareCustomTypeFailureC2EP10UtestShellRK12SimpleString',
    '_ZN32MockNoWayToCopyCustomTypeFailureC2EP10UtestShellRK12SimpleString',
    '_ZN27MockUnexpectedObjectFailureC2EP10UtestShellRK12SimpleStringPKvRK21MockExpectedCallsList',
    '_ZN36MockExpectedObjectDidntHappenFailureC2EP10UtestShellRK12SimpleStringRK21MockExpectedCallsList',
    # same effect, but clears the inactive bytes of the value union too (see h08.c)
    '_ZN14MockNamedValue8setValueEi',
    # a failing check of the framework inside the mock engine is a violation (harness assertion)
    '_ZN10UtestShell4failEPKcS1_mRK14TestTerminator',
    '_ZN10UtestShell8failWithERK11TestFailureRK14TestTerminator',
]
DIGITS = {'FULL': 'expected count 0|1|2, parameter none|p=1|p=2|q=1, object none|o1|o2, return value asked no|yes',
          'CORE': 'expected count 1|2, parameter none|p=1|p=2, object none|o1, return value always asked'}
def obligations():
    obs = []
    for l in open(os.path.join(HERE, 'h08_batches.h')):
        m = re.match(r'BATCH\((\w+), (\d+), (\d+), (\w+), (\d+), (\d+), (\d+)\)\s*/\* tier=(\w+) family=(\w+)/\w+ size=(\d+)', l)
        if not m:
            continue
        name, ne, na, mode, lo, stride, count, tier, fam, size = m.groups()
        ne, na, lo, stride, count, size = int(ne), int(na), int(lo), int(stride), int(count), int(size)
        bounds = ('%d histories of the enumerated family %s (%d histories: strict order off/on x ignoreOtherCalls off/on x %d expectation(s) x %d actual call(s); '
                  'functions a|b, %s): numbers %d, %d, ... step %d; which of them runs is a symbolic input, as are the return values attached to the expectations '
                  'and the default passed by the caller (32 bit each); ambiguous expectation pairs excluded (precondition of the property)'
                  % (count, fam, size, ne, na, DIGITS[mode], lo, lo + stride, stride))
        obs.append({'fn': 'harness_' + name, 'tier': tier, 'unwind': 24, 'unwindset': ['batch.%d:%d' % (k, count + 2) for k in range(8)],
                    'timeout': 1500 if tier == 'quick' else 3600, 'object_bits': 13, 'bounds': bounds, 'optional_witness': ['failure path', 'end'], 'diff_runs': 150})
    return obs
SPEC = {
    'property': 'C08',
    'level': 'other',   # solver-decided batches of enumerated call histories: see assumptions
    'functions_of_interest': ['MockSupport', 'MockCheckedActualCall', 'MockCheckedExpectedCall', 'MockExpectedCallsList', 'MockNamedValueList'],
    'assumptions': [
        'bounded HISTORY exploration by enumeration: every history of the stated families is one concrete path through the real mock engine inside the symbolic executor; '
        'the choice of the history, the return values and the caller\'s default are the symbolic inputs.  Function names, parameter names, parameter values, expected counts and object '
        'identities are enumerated, not symbolic: a symbolic value of any of them makes the SHAPE of the candidate lists symbolic, and that was measured to be out of reach '
        '(1 expectation with one parameter / 1 actual call with a symbolic parameter value: no verdict in 1200 s, 5 GB; see the final report)',
        'parameter values are drawn from {1, 2}: the engine only compares them for equality (MockNamedValue::equals, property C09 for all values)',
        'failure categories are the Mock*Failure classes: in the translated world their constructors are stubs that record the class (the text is property C14); the real build '
        'classifies the first line of the real message.  "Unexpected call" vs "unexpected additional call" and "unexpected parameter name" vs "value" are not told apart',
        'the reporter installed with setMockFailureStandardReporter ends the path at the first failure (a failing mock check leaves the test): "fails once" is part of the model, not checked',
        'an expectation without onObject accepts a call on any object (documented behaviour); a pair of expectations that differ only in that one names an object and the other does not is ambiguous and excluded',
        'actual calls supply their attributes in the order function, object, parameter; identical expectations are consumed in declaration order',
        'MockNamedValue::setValue(int) is replaced in the translated world by an equivalent that also clears the inactive bytes of the 16-byte value union (otherwise constants are lost to the symbolic executor); the real build runs the original',
        'allocations come from static first-fit pools per size class (8/32-byte strings, 8/16/88/160-byte objects); memory safety of the engine is not the subject (heapcheck off)',
        'left out: output parameters, parameters of other types and custom types, ignoreOtherParameters, more than one parameter per call, scopes, the data store, disable/enable/tracing, histories beyond 2 expectations / 3 actual calls',
    ],
    'groups': [{
        'name': 'mock', 'wrapper': 'w08.cpp', 'harness': 'h08.c',
        'config': {'ext': True, 'heapcheck': False, 'stubs': STUBS},
        # open findings: KF-C08-1 (diagnosis precedence under strict order: histories that end with an open expectation AND an out-of-turn call are excluded),
        # KF-C08-2 (stale "object was passed" mark: histories in which a successful call leaves such a mark and a later call to that function names no object are excluded)
        'defines': [],   # KF-C08-2 is fixed in /repo; the open KF-C08-1 is added by run.py from known_findings.json
        'obligations': obligations() + [{'fn': 'finding_order_hidden_by_unfulfilled', 'expect': 'fail', 'unwind': 8, 'timeout': 600, 'bounds': 'strict order; expectNCalls(2,a); expectOneCall(b); actual b, a (open known finding KF-C08-1)'}],
    }, {
        # same histories with object o1 = the NULL pointer: an expectation .onObject(NULL) is an expectation on a specific object
        'name': 'mock_null', 'wrapper': 'w08.cpp', 'harness': 'h08.c',
        'config': {'ext': True, 'heapcheck': False, 'stubs': STUBS, 'defines': ['-DO1_IS_NULL']},
        'defines': [],
        'obligations': [dict(o, id=o['fn'] + '[o1=NULL]', bounds=o['bounds'] + '; object o1 is the NULL pointer') for o in obligations() if 'e1a1' in o['fn'] and o['tier'] == 'quick'][:2],
    }],
}
