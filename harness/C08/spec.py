SPEC = {
    'property': 'C08',
    'functions_of_interest': ['MockSupport', 'MockCheckedActualCall', 'MockCheckedExpectedCall', 'MockExpectedCallsList'],
    'assumptions': [],
    'groups': [{
        'name': 'mock', 'wrapper': 'w08.cpp', 'harness': 'h08.c',
        'config': {'ext': True, 'heapcheck': False,
                   'empty_regex': ['^_ZN11MockFailure29addExpectationsAndCallHistory', '^_ZN11MockFailure38addExpectationsAndCallHistoryRelatedTo']},
        'obligations': [
            {'fn': 'harness_v0', 'unwind': 60, 'timeout': 600, 'cbmc_flags': ['--max-field-sensitivity-array-size', '256'], 'bounds': 'v0', 'optional_witness': ['failure path']},
        ],
    }],
}
