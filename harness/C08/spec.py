STUBS = [
    '_ZN35MockExpectedCallsDidntHappenFailureC2EP10UtestShellRK21MockExpectedCallsList',
    '_ZN33MockUnexpectedCallHappenedFailureC2EP10UtestShellRK12SimpleStringRK21MockExpectedCallsList',
    '_ZN20MockCallOrderFailureC2EP10UtestShellRK21MockExpectedCallsList',
    '_ZN35MockUnexpectedInputParameterFailureC2EP10UtestShellRK12SimpleStringRK14MockNamedValueRK21MockExpectedCallsList',
    '_ZN36MockUnexpectedOutputParameterFailureC2EP10UtestShellRK12SimpleStringRK14MockNamedValueRK21MockExpectedCallsList',
    '_ZN39MockExpectedParameterDidntHappenFailureC2EP10UtestShellRK12SimpleStringRK21MockExpectedCallsListS7_',
    '_ZN35MockNoWayToCompareCustomTypeFailureC2EP10UtestShellRK12SimpleString',
    '_ZN32MockNoWayToCopyCustomTypeFailureC2EP10UtestShellRK12SimpleString',
    '_ZN27MockUnexpectedObjectFailureC2EP10UtestShellRK12SimpleStringPKvRK21MockExpectedCallsList',
    '_ZN36MockExpectedObjectDidntHappenFailureC2EP10UtestShellRK12SimpleStringRK21MockExpectedCallsList',
    '_ZN10UtestShell4failEPKcS1_mRK14TestTerminator',
    '_ZN10UtestShell8failWithERK11TestFailureRK14TestTerminator',
]
def ob(script, **kw):
    d = {'fn': 'harness_' + script, 'unwind': 24, 'timeout': 600, 'bounds': script, 'optional_witness': ['failure path'],
         'cbmc_flags': ['--max-field-sensitivity-array-size', '256']}
    d.update(kw)
    return d
SPEC = {
    'property': 'C08',
    'functions_of_interest': ['MockSupport', 'MockCheckedActualCall', 'MockCheckedExpectedCall', 'MockExpectedCallsList'],
    'assumptions': [],
    'groups': [{
        'name': 'mock', 'wrapper': 'w08.cpp', 'harness': 'h08.c',
        'config': {'ext': True, 'heapcheck': False, 'stubs': STUBS},
        'defines': ['-DKF_C08_1'],
        'obligations': [ob(s) for s in ['ap__ap', 'ap__aq', 'a__b']],
    }],
}
