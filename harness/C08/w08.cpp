// C08 wrapper: a real MockSupport object of its own (not the global mock()) is driven step by step
// by the harness: expectations, actual calls, checkExpectations.  The failure reporter installed with
// setMockFailureStandardReporter hands the message of a failure to the harness (h_fail_hook), which
// checks the diagnosis and the step at which it arrives and ends the path there: a failing mock check
// leaves the test.  (In the translated world the Mock*Failure constructors are stubs of the harness
// that record the failure class; the message pointer is not looked at there.)
#define private public
#define protected public
#include "CppUTest/TestHarness.h"
#include "CppUTest/TestOutput.h"
#include "CppUTest/TestResult.h"
#include "CppUTest/PlatformSpecificFunctions.h"
#include "CppUTestExt/MockSupport.h"
#include "CppUTestExt/MockFailure.h"

extern "C" {
void h_env_install(void);
void h_exit_hook(void);
void h_fail_hook(const char* message);
}
class NullOutput : public TestOutput
{
public:
    virtual void printBuffer(const char*) CPPUTEST_OVERRIDE {}
    virtual void flush() CPPUTEST_OVERRIDE {}
    virtual void printFailure(const TestFailure&) CPPUTEST_OVERRIDE {}
};
static UtestShell* shell_;
class RecReporter : public MockFailureReporter
{
public:
    virtual void failTest(const MockFailure& failure) CPPUTEST_OVERRIDE { h_fail_hook(failure.message_.asCharString()); }
    virtual UtestShell* getTestToFail() CPPUTEST_OVERRIDE { return shell_; }
};
static MockSupport* mock_;
static MockExpectedCall* exp_;
static MockActualCall* act_;
static int obj_[2];
static char fname_[2], pname_[2];
// names: one character handed in by the harness (concrete per obligation: a symbolic byte would make every
// string length, and with it every allocation size, symbolic for the symbolic execution)
static const char* fn(int c) { fname_[0] = (char)c; fname_[1] = 0; return fname_; }
static const char* pn(int c) { pname_[0] = (char)c; pname_[1] = 0; return pname_; }

extern "C" {
void h_init(void)
{
    static NullOutput out;
    static TestResult result(out);
    static UtestShell shell("group", "name", "file.cpp", 7);
    static RecReporter reporter;
    static MockSupport support;
    h_env_install();
    PlatformSpecificLongJmp = h_exit_hook;
    shell.setTestResult(&result);
    shell.setCurrentTest(&shell);
    shell_ = &shell;
    support.setMockFailureStandardReporter(&reporter);
    support.setActiveReporter(NULLPTR);            // what mock() does on every use: active = standard reporter
    support.crashOnFailure(false);
    mock_ = &support;
}
void h_strict(void) { mock_->strictOrder(); }
void h_ignore_others(void) { mock_->ignoreOtherCalls(); }
void h_expect(unsigned n, int fch) { exp_ = &mock_->expectNCalls(n, fn(fch)); }
void h_exp_param(int pch, int value) { exp_->withParameter(pn(pch), value); }
// object o1 is the NULL object in the -DO1_IS_NULL variant: an expectation on NULL is still an expectation on a specific object
#ifdef O1_IS_NULL
#define OBJ(osel) (((osel) & 1) ? (void*)&obj_[1] : (void*)0)
#else
#define OBJ(osel) ((void*)&obj_[(osel) & 1])
#endif
void h_exp_object(int osel) { exp_->onObject(OBJ(osel)); }
void h_exp_return(int value) { exp_->andReturnValue(value); }
void h_actual(int fch) { act_ = &mock_->actualCall(fn(fch)); }
void h_act_object(int osel) { act_->onObject(OBJ(osel)); }
void h_act_param(int pch, int value) { act_->withParameter(pn(pch), value); }
int h_act_return(int dflt) { return act_->returnIntValueOrDefault(dflt); }
void h_check(void) { mock_->checkExpectations(); }
}
