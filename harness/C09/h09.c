/* C09: mock parameter values compare by mathematical value, symmetrically; getters return the
 * stored integer exactly or fail the test. */
#define ENV_CUSTOM_VSNPRINTF
#include "env.c"
#include "translated.h"
uint32_t env_vsnprintf(uint8_t* s, uint64_t n, uint8_t* f, uint8_t* va) { (void)f; (void)va; if (n > 1) { s[0] = '#'; s[1] = 0; } else if (n) s[0] = 0; return 1; }

static uint32_t exited;
static int get_active; static int get_t, get_g; static uint64_t get_bits;
static int t_is_signed(int t) { return t == 0 || t == 2 || t == 4; }
static uint64_t t_canon(int t, uint64_t bits) {          /* the stored value, widened to 64 bits with its own signedness */
  switch (t) { case 0: return (uint64_t)(int64_t)(int32_t)bits; case 1: return (uint32_t)bits; default: return bits; }
}
static int t_nonneg(int t, uint64_t bits) { return !t_is_signed(t) || (int64_t)t_canon(t, bits) >= 0; }
static int t_math_equal(int ta, uint64_t a, int tb, uint64_t b) {
  if (t_nonneg(ta, a) != t_nonneg(tb, b)) return 0;      /* a negative number never equals a non-negative one */
  return t_canon(ta, a) == t_canon(tb, b);
}
/* does the value fit getter type g exactly? */
static int t_fits(int t, uint64_t bits, int g) {
  uint64_t c = t_canon(t, bits); int nn = t_nonneg(t, bits);
  switch (g) {
    case 0: return nn ? c <= 0x7fffffffULL : (int64_t)c >= -0x80000000LL;
    case 1: return nn && c <= 0xffffffffULL;
    case 2: case 4: return nn ? c <= 0x7fffffffffffffffULL : 1;
    default: return nn;
  }
}
void h_exit_hook(void) {
  exited = 1;
  CHECK(h_failures() == 1, "leaving the test records exactly one failure");
  WITNESS("exit path");
  END_PATH();
}

static void body_int_pair(const int ta, const int tb) {
  h_init(); IN_U64(a); IN_U64(b);
  uint32_t r = h_equals(ta, a, tb, b);
  int want = t_math_equal(ta, a, tb, b);
  OBSERVE(r);
  CHECK((r & 1) == (uint32_t)want, "equals(expected, actual) <=> same mathematical integer");
  CHECK(((r >> 1) & 1) == (uint32_t)want, "equals is symmetric: the answer does not depend on which side is the expectation");
  CHECK(!exited && h_failures() == 0, "comparing never fails the test");
  WITNESS("end");
}
#define P1(a, b) HARNESS(harness_int_pair_##a##_##b) { body_int_pair(a, b); }
#define ROW(a) P1(a, 0) P1(a, 1) P1(a, 2) P1(a, 3) P1(a, 4) P1(a, 5)
ROW(0) ROW(1) ROW(2) ROW(3) ROW(4) ROW(5)

/* bool, pointers, function pointers: identity within the own type; never equal across types */
static void body_scalar_other(const int ta, const int tb) {
  h_init(); IN_U64(a); IN_U64(b);
  uint32_t r = h_equals(ta, a, tb, b);
  int want = 0;
  if (ta == tb) want = (ta == 6) ? ((a != 0) == (b != 0)) : (a == b);
  OBSERVE(r);
  CHECK(r == (want ? 3u : 0u), "bool/pointer/function pointer: identity within the own type, never equal to another type");
  WITNESS("end");
}
#define S1(a, b) HARNESS(harness_scalar_other_##a##_##b) { body_scalar_other(a, b); }
#define SROW(a) S1(a, 0) S1(a, 1) S1(a, 2) S1(a, 3) S1(a, 4) S1(a, 5) S1(a, 6) S1(a, 7) S1(a, 8) S1(a, 9)
SROW(6) SROW(7) SROW(8) SROW(9)
HARNESS(harness_strings) {
  h_init();
  IN_ARR_U8(s, 4); IN_ARR_U8(t, 4); s[3] = 0; t[3] = 0;
  uint32_t r = h_equals_str(s, t);
  int want = 1; for (int i = 0; i < 4; i++) { if (s[i] != t[i]) { want = 0; break; } if (!s[i]) break; }
  OBSERVE(r);
  CHECK(r == (want ? 3u : 0u), "strings compare by content");
  WITNESS("end");
}
HARNESS(harness_membuf) {
  h_init();
  IN_ARR_U8(s, 3); IN_ARR_U8(t, 3); IN_U64(ns); IN_U64(nt);
  ASSUME(ns <= 3 && nt <= 3);
  uint32_t r = h_equals_mem(s, ns, t, nt);
  int want = ns == nt; for (uint64_t i = 0; want && i < ns; i++) if (s[i] != t[i]) want = 0;
  OBSERVE(r);
  CHECK(r == (want ? 3u : 0u), "memory buffers compare by length and content");
  WITNESS("end");
}
static int t_doubles_equal(double a, double b, double t) {
  if (a != a || b != b || t != t) return 0;
  if (a == b) return 1;
  double d = a - b; if (d < 0) d = -d;
  return d <= t;
}
HARNESS(harness_doubles) {
  h_init(); IN_DBL(x); IN_DBL(tx); IN_DBL(y); IN_DBL(ty);
  ASSUME(!(tx < 0) && !(ty < 0));
  uint32_t r = h_equals_dbl(x, tx, y, ty);
  OBSERVE(r);
  CHECK((r & 1) == (uint32_t)t_doubles_equal(x, y, tx), "doubles compare by the tolerance of the value equals() is called on (the expectation); NaN equals nothing");
  CHECK(((r >> 1) & 1) == (uint32_t)t_doubles_equal(y, x, ty), "doubles, other direction");
  WITNESS("end");
}
static void body_cross(const int other, const int t) {
  h_init(); IN_U64(bits); IN_DBL(d);
  uint32_t r = h_equals_cross(other, t, bits, d);
  OBSERVE(r);
  CHECK(r == 0, "values of different non-integer types never compare equal");
  WITNESS("end");
}
#define X1(o, t) HARNESS(harness_cross_##o##_##t) { body_cross(o, t); }
#define XROW(o) X1(o, 0) X1(o, 1) X1(o, 2) X1(o, 3) X1(o, 4) X1(o, 5) X1(o, 6) X1(o, 7) X1(o, 8) X1(o, 9)
XROW(0) XROW(1) XROW(2)
X1(0, 11) X1(0, 12) X1(1, 10) X1(1, 12) X1(2, 10) X1(2, 11)
/* getters */
static void body_getter(const int t, const int g) {
  h_init(); IN_U64(bits);
  uint64_t r = h_get(t, bits, g);
  /* reached only if the getter returned: then it must have returned exactly the stored integer */
  int rn; uint64_t rc;
  switch (g) { case 0: case 2: case 4: rn = (int64_t)r >= 0; rc = r; break; default: rn = 1; rc = r; break; }
  OBSERVE(r);
  CHECK(h_failures() == 0 && !exited, "a getter that returns did not fail the test");
  CHECK(rn == t_nonneg(t, bits) && rc == t_canon(t, bits), "a getter that returns yields exactly the stored integer (otherwise it must fail the test)");
  WITNESS("end");
}
#define G1(a, b) HARNESS(harness_getter_##a##_##b) { body_getter(a, b); }
#define GROW(a) G1(a, 0) G1(a, 1) G1(a, 2) G1(a, 3) G1(a, 4) G1(a, 5)
GROW(0) GROW(1) GROW(2) GROW(3) GROW(4) GROW(5)
