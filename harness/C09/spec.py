def ob(fn, unwind=40, timeout=300, bounds='', **kw):
    d = {'fn': fn, 'unwind': unwind, 'timeout': timeout, 'bounds': bounds, 'optional_witness': ['exit path']}
    d.update(kw)
    return d
T = ['int', 'unsigned', 'long', 'unsigned long', 'long long', 'unsigned long long']
SPEC = {
    'property': 'C09',
    'functions_of_interest': ['MockNamedValue', 'doubles_equal'],
    'assumptions': ['failure message construction stubbed empty; the failing getter leaves the test through a harness hook'],
    'groups': [{
        'name': 'nv', 'wrapper': 'w09.cpp', 'harness': 'h09.c',
        'config': {'ext': True, 'empty_regex': ['^_ZN[0-9]+[A-Za-z]*FailureC[12]E']},
        'obligations':
            [ob('harness_int_pair_%d_%d' % (a, b), bounds='equals(%s, %s): both values fully symbolic (64-bit words)' % (T[a], T[b])) for a in range(6) for b in range(6)] +
            [ob('harness_scalar_other_%d_%d' % (a, b), bounds='type #%d (bool/void*/const void*/function pointer) against scalar type #%d, all values' % (a, b)) for a in range(6, 10) for b in range(10)] +
            [ob('harness_strings', bounds='strings <= 3 bytes'), ob('harness_membuf', bounds='buffers <= 3 bytes, sizes symbolic')] +
            [ob('harness_doubles', bounds='all double bit patterns, both tolerances any non-negative double/inf/NaN', solver='kissat', timeout=900)] +
            [ob('harness_cross_%d_%d' % (o, t), bounds='string/memory buffer/double (#%d) against type #%d' % (o, t)) for o in range(3) for t in list(range(10)) + [x for x in (10, 11, 12) if x != 10 + o]] +
            [ob('harness_getter_%d_%d' % (a, b), optional_witness=['exit path', 'end'], bounds='stored %s read through the %s getter, all values' % (T[a], T[b])) for a in range(6) for b in range(6)],
    }],
}

for _o in SPEC['groups'][0]['obligations']:
    _f = _o['fn']
    _o['diff_runs'] = 100
    if _f.startswith('harness_scalar_other_'):
        _a, _b = _f.split('_')[-2:]
        if _a != _b and _b not in ('0', '5'):
            _o['tier'] = 'thorough'
    if _f.startswith('harness_cross_'):
        _a, _b = _f.split('_')[-2:]
        if _b not in ('0', '3', '6', '7', '10', '11', '12'):
            _o['tier'] = 'thorough'
