// C09 wrapper: MockNamedValue values are set through the public typed setters and compared /
// read back through the public API.
#define private public
#define protected public
#include "CppUTest/TestHarness.h"
#include "CppUTest/TestOutput.h"
#include "CppUTest/TestResult.h"
#include "CppUTest/PlatformSpecificFunctions.h"
#include "CppUTestExt/MockNamedValue.h"

extern "C" {
void h_env_install(void);
void h_exit_hook(void);
}
class CountingOutput : public TestOutput
{
public:
    virtual void printBuffer(const char*) CPPUTEST_OVERRIDE {}
    virtual void flush() CPPUTEST_OVERRIDE {}
    virtual void printFailure(const TestFailure&) CPPUTEST_OVERRIDE {}
};
static TestResult* result_;
typedef unsigned long long u64;

// type codes: 0 int, 1 unsigned, 2 long, 3 unsigned long, 4 long long, 5 unsigned long long,
//             6 bool, 7 void*, 8 const void*, 9 function pointer
static void setByCode(MockNamedValue& v, int t, u64 bits)
{
    switch (t) {
    case 0: v.setValue((int)bits); break;
    case 1: v.setValue((unsigned int)bits); break;
    case 2: v.setValue((long)bits); break;
    case 3: v.setValue((unsigned long)bits); break;
    case 4: v.setValue((long long)bits); break;
    case 5: v.setValue((unsigned long long)bits); break;
    case 6: v.setValue(bits != 0); break;
    case 7: v.setValue((void*)bits); break;
    case 8: v.setValue((const void*)bits); break;
    default: v.setValue((void (*)())bits); break;
    }
}

extern "C" {
void h_init(void)
{
    static CountingOutput out;
    static TestResult result(out);
    static UtestShell shell("group", "name", "file.cpp", 7);
    h_env_install();
    PlatformSpecificLongJmp = h_exit_hook;
    result_ = &result;
    shell.setTestResult(&result);
    shell.setCurrentTest(&shell);
}
unsigned long h_failures(void) { return result_->getFailureCount(); }

// bit0: a.equals(b), bit1: b.equals(a)
int h_equals(int ta, u64 va, int tb, u64 vb)
{
    MockNamedValue a("p"), b("p");
    setByCode(a, ta, va);
    setByCode(b, tb, vb);
    return (a.equals(b) ? 1 : 0) | (b.equals(a) ? 2 : 0);
}
int h_equals_str(const char* s, const char* t)
{
    MockNamedValue a("p"), b("p");
    a.setValue(s); b.setValue(t);
    return (a.equals(b) ? 1 : 0) | (b.equals(a) ? 2 : 0);
}
int h_equals_mem(const unsigned char* s, unsigned long ns, const unsigned char* t, unsigned long nt)
{
    MockNamedValue a("p"), b("p");
    a.setMemoryBuffer(s, ns); b.setMemoryBuffer(t, nt);
    return (a.equals(b) ? 1 : 0) | (b.equals(a) ? 2 : 0);
}
int h_equals_dbl(double x, double tolx, double y, double toly)
{
    MockNamedValue a("p"), b("p");
    a.setValue(x, tolx); b.setValue(y, toly);
    return (a.equals(b) ? 1 : 0) | (b.equals(a) ? 2 : 0);
}
// other: 0 string, 1 memory buffer, 2 double vs a scalar of type code t
int h_equals_cross(int other, int t, u64 bits, double d)
{
    static const unsigned char buf[2] = {1, 2};
    MockNamedValue a("p"), b("p");
    if (other == 0) a.setValue("s"); else if (other == 1) a.setMemoryBuffer(buf, 2); else a.setValue(d);
    if (t < 10) setByCode(b, t, bits); else if (t == 10) b.setValue("s"); else if (t == 11) b.setMemoryBuffer(buf, 2); else b.setValue(d);
    return (a.equals(b) ? 1 : 0) | (b.equals(a) ? 2 : 0);
}
// read a stored integer of type code t back through integer getter g (same codes 0..5)
u64 h_get(int t, u64 bits, int g)
{
    MockNamedValue a("p");
    setByCode(a, t, bits);
    switch (g) {
    case 0: return (u64)(long long)a.getIntValue();
    case 1: return (u64)a.getUnsignedIntValue();
    case 2: return (u64)(long long)a.getLongIntValue();
    case 3: return (u64)a.getUnsignedLongIntValue();
    case 4: return (u64)a.getLongLongIntValue();
    default: return (u64)a.getUnsignedLongLongIntValue();
    }
}
}
