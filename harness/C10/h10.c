/* C10: thread-safe allocation mode, decided by reduction to sequential obligations on the real wrappers
 * (interleavings themselves are NOT explored - see DESIGN.md C10): with the thread-safe overloads on,
 * (1) every detector operation reached from one of the 11 entry points runs with the detector's lock held,
 * (2) the lock is released when the entry point returns, (3) all 11 table entries are switched together.
 * Mutual exclusion => serialisability is the (assumed) textbook step that turns this into C04. */
#define ENV_MALLOC_CAP 5000
#define ENV_NO_SHADOW
#define ENV_CUSTOM_VSNPRINTF
#define ENV_CUSTOM_MALLOC
#include "env.c"
#include "translated.h"
uint32_t env_vsnprintf(uint8_t* s, uint64_t n, uint8_t* f, uint8_t* va) { (void)f; (void)va; if (n > 1) { s[0] = '#'; s[1] = 0; } else if (n) s[0] = 0; return 1; }

static uint32_t det_calls, det_calls_unlocked, misuse_now, exited, watching, dealloc_seen, invalidated, poison_calls;
/* platform heap calls made by the detector while an entry point is being watched must happen under the lock */
static void heap_seen(void) { if (watching && !env_mutex_held) det_calls_unlocked++; }
uint8_t* env_malloc(uint64_t n) { heap_seen(); return env_raw_alloc(n); }
void env_free(uint8_t* p) { heap_seen(); env_raw_free(p); }
uint8_t* env_realloc(uint8_t* p, uint64_t n) { heap_seen(); uint8_t* q = env_raw_alloc(n); if (p) { memcpy(q, p, n < 4 ? n : 4); env_raw_free(p); } return q; }
/* both worlds: the detector poisons released memory through PlatformSpecificMemset - it must hold the lock while it does */
uint8_t* h_memset_hook(uint8_t* p, uint32_t c, uint64_t n) { if (watching && !env_mutex_held) det_calls_unlocked++; if (c == 0xCD) poison_calls++; memset(p, (int)c, n); return p; }
static uint8_t token[16];
#ifdef LL2C_TRANSLATED
/* translated world: the detector's operations are contract stubs that observe the lock (the detector itself is C04-C06);
 * the real build runs the real detector */
static void det_enter(void) { det_calls++; if (watching && !env_mutex_held) det_calls_unlocked++; }
uint8_t* _ZN18MemoryLeakDetector11allocMemoryEP19TestMemoryAllocatormPKcmb(uint8_t* t, uint8_t* a, uint64_t n, uint8_t* f, uint64_t l, uint8_t sep) { (void)t; (void)a; (void)n; (void)f; (void)l; (void)sep; det_enter(); return token; }
uint8_t* _ZN18MemoryLeakDetector11allocMemoryEP19TestMemoryAllocatormb(uint8_t* t, uint8_t* a, uint64_t n, uint8_t sep) { (void)t; (void)a; (void)n; (void)sep; det_enter(); return token; }
void _ZN18MemoryLeakDetector13deallocMemoryEP19TestMemoryAllocatorPvPKcmb(uint8_t* t, uint8_t* a, uint8_t* p, uint8_t* f, uint64_t l, uint8_t sep) { (void)t; (void)a; (void)p; (void)f; (void)l; (void)sep; det_enter(); dealloc_seen = 1; if (misuse_now) h_real_reporter_fail(); }
void _ZN18MemoryLeakDetector13deallocMemoryEP19TestMemoryAllocatorPvb(uint8_t* t, uint8_t* a, uint8_t* p, uint8_t sep) { (void)t; (void)a; (void)p; (void)sep; det_enter(); dealloc_seen = 1; if (misuse_now) h_real_reporter_fail(); }
uint8_t* _ZN18MemoryLeakDetector13reallocMemoryEP19TestMemoryAllocatorPcmPKcmb(uint8_t* t, uint8_t* a, uint8_t* p, uint64_t n, uint8_t* f, uint64_t l, uint8_t sep) { (void)t; (void)a; (void)p; (void)n; (void)f; (void)l; (void)sep; det_enter(); return token; }
void _ZN18MemoryLeakDetector16invalidateMemoryEPc(uint8_t* t, uint8_t* p) { (void)t; (void)p; det_enter(); if (!dealloc_seen) invalidated = 1;   /* poisoning only reaches a block that is still in the accounting */ }
#endif

void h_exit_hook(void) {
  exited = 1;
  /* a misuse was reported and the test is being left (longjmp) from inside the wrapper */
  CHECK(env_mutex_held == 0, "a misuse report never leaves the detector's lock held");
  WITNESS("exit path");
  END_PATH();
}
static int is_release(int kind) { return kind == 6 || kind == 7 || kind == 10; }

static void body_entry(const int kind, const uint32_t mode_) {
  const uint32_t mode = mode_ == 3 ? 2 : mode_;       /* mode 3 = thread-safe mode restored after a save/disable bracket: same obligations as mode 2 */
  h_init();
  IN_U32(unused); (void)unused;
  h_mode(2);                                    /* a block to release / reallocate, obtained in thread-safe mode */
  uint8_t* blk = 0;
  if (kind == 6) blk = h_entry(0, 0); else if (kind == 7) blk = h_entry(3, 0); else if (kind == 9 || kind == 10) blk = h_entry(8, 0);
  h_mode(mode_);
  if (mode == 0 && (is_release(kind) || kind == 9)) { WITNESS("skipped"); return; }   /* releasing a tracked block with overloads off is a usage error */
  uint32_t l0 = env_mutex_lock_calls, u0 = env_mutex_unlock_calls, d0 = det_calls;
  watching = (mode == 2); invalidated = 0; dealloc_seen = 0;
  uint32_t p0 = poison_calls;
  uint8_t* r = h_entry(kind, blk);
  watching = 0;
  if (is_release(kind) && mode != 0) {
    /* C06 at the plugin level: the user bytes are poisoned BEFORE the block leaves the accounting */
#ifdef LL2C_TRANSLATED
    CHECK(invalidated, "a released block is poisoned, and before it is released");
#else
    CHECK(poison_calls == p0 + 1, "a released block is poisoned, and before it is released");
#endif
  }
  OBSERVE(env_mutex_lock_calls - l0); OBSERVE(env_mutex_unlock_calls - u0);
  if (mode == 2) {
    CHECK(env_mutex_lock_calls == l0 + 1 && env_mutex_unlock_calls == u0 + 1, "thread-safe mode: the entry point takes the detector's lock exactly once and releases it");
    CHECK(det_calls_unlocked == 0, "thread-safe mode: every detector operation runs with the lock held");
#ifdef LL2C_TRANSLATED
    CHECK(det_calls > d0, "thread-safe mode goes through the detector");
#endif
  } else {
    CHECK(env_mutex_lock_calls == l0 && env_mutex_unlock_calls == u0, "the other modes do not touch the lock: all entry points are switched together");
#ifdef LL2C_TRANSLATED
    CHECK((det_calls > d0) == (mode == 1), "default mode goes through the detector, switched-off mode does not");
#endif
  }
  CHECK(env_mutex_held == 0 && env_mutex_errors == 0, "the lock is free again when the entry point returns; no double lock / stray unlock");
  if (!is_release(kind)) CHECK(r != 0, "the allocation is served");
  CHECK(!exited, "no failure");
  WITNESS("end");
}
#define E1(k) HARNESS(harness_entry_##k##_0) { body_entry(k, 0); } HARNESS(harness_entry_##k##_1) { body_entry(k, 1); } HARNESS(harness_entry_##k##_2) { body_entry(k, 2); } HARNESS(harness_entry_##k##_3) { body_entry(k, 3); }
E1(0) E1(2) E1(3) E1(5) E1(6) E1(7) E1(8) E1(9) E1(10)   /* the nothrow overloads (1, 4) exist only with the standard C++ library: not in the verified configuration */

/* known finding: a misuse detected in thread-safe mode leaves by longjmp with the lock held */
HARNESS(finding_misuse_leaves_lock_held) {
  h_init();
  h_mode(2);
  static uint8_t foreign[8];
  misuse_now = 1;
  h_entry(10, foreign);                  /* free() of an address that was never allocated */
  CHECK(exited == 0, "not reached when the misuse ends the test");
  WITNESS("end");
}
