/* C10, platform layer: the default PlatformSpecificMutexLock / Unlock of the Gcc platform really acquire and
 * release THE mutex they are given (pthread_mutex_lock/unlock are recording models: a held flag per object).
 * Without this the lock-coverage obligations of h10.c speak about a lock that excludes nobody. */
#define ENV_CUSTOM_PTHREAD
#include "env.c"
#include "translated.h"
static uint32_t p_lock_calls, p_unlock_calls, p_errors;
static uint8_t* p_held_obj;
static uint32_t rec_lock(uint8_t* m)   { p_lock_calls++; if (p_held_obj) p_errors++; p_held_obj = m; return 0; }
static uint32_t rec_unlock(uint8_t* m) { p_unlock_calls++; if (p_held_obj != m) p_errors++; p_held_obj = 0; return 0; }
#ifdef LL2C_TRANSLATED
uint32_t ll2c_ext_pthread_mutex_lock(uint8_t* m) { return rec_lock(m); }
uint32_t ll2c_ext_pthread_mutex_unlock(uint8_t* m) { return rec_unlock(m); }
#else
/* real build: the platform file's calls bind to these definitions instead of libpthread's */
int pthread_mutex_lock(void* m) { return (int)rec_lock((uint8_t*)m); }
int pthread_mutex_unlock(void* m) { return (int)rec_unlock((uint8_t*)m); }
#endif

HARNESS(harness_platform_mutex) {
  static uint64_t mtx_a[8], mtx_b[8];
  IN_U32(which); IN_U32(rounds);
  ASSUME(which < 2 && rounds >= 1 && rounds <= 3);
  uint8_t* m = which ? (uint8_t*)mtx_b : (uint8_t*)mtx_a;
  p_lock_calls = p_unlock_calls = p_errors = 0; p_held_obj = 0;
  for (uint32_t i = 0; i < rounds; i++) {
    h_plat_lock(m);
    CHECK(p_held_obj == m, "the platform's lock operation acquires the mutex it was given");
    CHECK(p_lock_calls == i + 1, "one acquisition per lock call");
    h_plat_unlock(m);
    CHECK(p_held_obj == 0 && p_unlock_calls == i + 1, "the platform's unlock operation releases the mutex it was given");
  }
  CHECK(p_errors == 0, "no double acquisition, no release of another mutex");
  OBSERVE(p_lock_calls); OBSERVE(p_unlock_calls);
  WITNESS("end");
}
