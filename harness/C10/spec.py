STUBS = ['_ZN18MemoryLeakDetector11allocMemoryEP19TestMemoryAllocatormPKcmb', '_ZN18MemoryLeakDetector11allocMemoryEP19TestMemoryAllocatormb',
         '_ZN18MemoryLeakDetector13deallocMemoryEP19TestMemoryAllocatorPvPKcmb', '_ZN18MemoryLeakDetector13deallocMemoryEP19TestMemoryAllocatorPvb',
         '_ZN18MemoryLeakDetector13reallocMemoryEP19TestMemoryAllocatorPcmPKcmb', '_ZN18MemoryLeakDetector16invalidateMemoryEPc']
N = ['operator new', 'operator new nothrow', 'operator new (file, line)', 'operator new[]', 'operator new[] nothrow', 'operator new[] (file, line)', 'operator delete', 'operator delete[]', 'malloc', 'realloc', 'free']
SPEC = {
    'property': 'C10',
    'functions_of_interest': ['threadsafe_mem_leak', 'MemLeakScopedMutex', 'ScopedMutexLock', 'SimpleMutex', 'turnOn', 'turnOff', 'mem_leak_'],
    'assumptions': ['INTERLEAVINGS ARE NOT EXPLORED: the solver decides lock coverage, lock release and the all-together table switch of each real wrapper; "every access under one correct mutex => every concurrent run is equivalent to a sequential one" is the assumed textbook step (then C04-C06 apply)',
                    'mutex = held flag with lock/unlock/error counters; in the translated world the detector operations are contract stubs that observe the lock, the real build runs the real detector',
                    'group plat: pthread_mutex_lock/unlock are recording models; the platform mutex operations are reached through the PlatformSpecificMutex* pointers as initialised by the platform file (h_env_install not called)', 'the misuse-report path (longjmp out of the locked region) is the open known finding KF-C10-1'],
    'groups': [{
        'name': 'ts', 'wrapper': 'w10.cpp', 'harness': 'h10.c',
        'config': {'memleak': True, 'stubs': STUBS, 'heapcheck': False, 'empty_regex': ['^_ZN[0-9]+[A-Za-z]*FailureC[12]E', '^_ZN[0-9]+[A-Za-z]*FailureD[012]E'], 'defines': ['-DCPPUTEST_VERIF_HASH_TABLE_SIZE=4']},
        'obligations': [{'fn': 'harness_entry_%d_%d' % (k, m), 'unwind': 40, 'timeout': 600, 'diff_runs': 20, 'optional_witness': ['exit path', 'skipped', 'end'], 'bounds': 'entry point %s, one call, overload mode %s' % (N[k], ('off', 'default (not thread-safe)', 'thread-safe', 'thread-safe, restored after saveAndDisable/restore')[m])} for k in (0, 2, 3, 5, 6, 7, 8, 9, 10) for m in range(4)] + [
            {'fn': 'finding_misuse_leaves_lock_held', 'unwind': 40, 'timeout': 900, 'expect': 'fail', 'optional_witness': ['end'], 'bounds': 'thread-safe mode; free() of a foreign address (misuse) reported through the real MemoryLeakWarningReporter'}],
    }, {
        'name': 'plat', 'wrapper': 'wplat.cpp', 'harness': 'h10p.c',
        'config': {'heapcheck': False},
        'obligations': [{'fn': 'harness_platform_mutex', 'unwind': 5, 'timeout': 300, 'diff_runs': 20, 'bounds': 'the default PlatformSpecificMutexLock/Unlock of src/Platforms/Gcc/UtestPlatform.cpp on either of two mutex objects, 1..3 lock/unlock rounds; pthread_mutex_lock/unlock are recording models (held flag per object)'}],
    }],
}
