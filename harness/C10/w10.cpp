// C10 wrapper: the global operator new/delete and malloc/realloc/free entry points with the
// thread-safe overloads switched on, over the plugin's own global detector.
#define private public
#define protected public
#include "CppUTest/TestHarness.h"
#include "CppUTest/TestOutput.h"
#include "CppUTest/TestResult.h"
#include "CppUTest/MemoryLeakDetector.h"
#include "CppUTest/MemoryLeakWarningPlugin.h"
#include "CppUTest/TestMemoryAllocator.h"
#include "CppUTest/PlatformSpecificFunctions.h"
#include "CppUTest/MemoryLeakDetectorMallocMacros.h"
#undef new
#undef malloc
#undef free
#undef realloc
#undef calloc

extern "C" {
void h_env_install(void);
void h_exit_hook(void);
void* h_memset_hook(void* p, int c, size_t n);   // harness: observes whether the detector poisons memory with the lock held
}
class QuietOutput : public TestOutput
{
public:
    virtual void printBuffer(const char*) CPPUTEST_OVERRIDE {}
    virtual void flush() CPPUTEST_OVERRIDE {}
    virtual void printFailure(const TestFailure&) CPPUTEST_OVERRIDE {}
};

extern "C" {
void h_init(void)
{
    static QuietOutput out;
    static TestResult result(out);
    static UtestShell shell("g", "n", "f.cpp", 5);
    h_env_install();
    PlatformSpecificLongJmp = h_exit_hook;
    PlatformSpecificMemset = h_memset_hook;
    shell.setTestResult(&result);
    shell.setCurrentTest(&shell);
    defaultNewAllocator(); defaultNewArrayAllocator(); defaultMallocAllocator(); NullUnknownAllocator::defaultAllocator();
    MemoryLeakWarningPlugin::getGlobalDetector()->enable();       // creates the global detector and reporter exactly as production does
}
void h_mode(int m)
{
    if (m == 0) MemoryLeakWarningPlugin::turnOffNewDeleteOverloads();
    else if (m == 1) MemoryLeakWarningPlugin::turnOnDefaultNotThreadSafeNewDeleteOverloads();
    else MemoryLeakWarningPlugin::turnOnThreadSafeNewDeleteOverloads();
    if (m == 3) {       // thread-safe mode that went through a save/disable/restore bracket (as the runner does around its own allocations)
        MemoryLeakWarningPlugin::saveAndDisableNewDeleteOverloads();
        MemoryLeakWarningPlugin::restoreNewDeleteOverloads();
    }
}
// the 11 entry points of the overload table
void* h_entry(int kind, void* p)
{
    switch (kind) {
    case 0: return ::operator new(4);
    case 2: return ::operator new(4, "x.cpp", (size_t)3);
    case 3: return ::operator new[](4);
    case 5: return ::operator new[](4, "x.cpp", (size_t)3);
    case 6: ::operator delete(p); return 0;
    case 7: ::operator delete[](p); return 0;
    case 8: return cpputest_malloc_location_with_leak_detection(4, "x.c", 3);
    case 9: return cpputest_realloc_location_with_leak_detection(p, 8, "x.c", 3);
    default: cpputest_free_location_with_leak_detection(p, "x.c", 3); return 0;
    }
}
void h_real_reporter_fail(void) { static char msg[] = "Deallocating non-allocated memory"; MemoryLeakWarningPlugin::getGlobalFailureReporter()->fail(msg); }
unsigned long h_total(void) { return MemoryLeakWarningPlugin::getGlobalDetector()->totalMemoryLeaks(mem_leak_period_all); }
}
