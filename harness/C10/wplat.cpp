// C10, platform layer: the mutex operations the framework installs by default on this platform
// (PlatformSpecificMutexLock/Unlock as initialised by src/Platforms/Gcc/UtestPlatform.cpp) are reached
// through the global function pointers, exactly as MemLeakScopedMutex/SimpleMutex reach them.
// h_env_install is NOT called in this group: the pointers keep the values the platform file gave them.
#include "CppUTest/TestHarness.h"
#include "CppUTest/PlatformSpecificFunctions.h"

extern "C" {
void h_plat_lock(void* m)   { PlatformSpecificMutexLock((PlatformSpecificMutex) m); }
void h_plat_unlock(void* m) { PlatformSpecificMutexUnlock((PlatformSpecificMutex) m); }
}
