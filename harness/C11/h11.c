/* C11: separate-process mode contains every way a test can die.
 *
 * The fault schedule is the formula's input: fork() returns -1 | 0 | pid>0, every waitpid() call returns
 * either -1 with an arbitrary errno (EINTR is one of the values) or the child's pid together with an
 * arbitrary 16-bit wait status word.  The reference semantics below is written from the property text and
 * from the documented encoding of wait statuses (wait(2)), not from the code under test:
 *   - a wait result is an EVENT when it reports: exited with a non-zero exit status, killed by a signal,
 *     or stopped.  Each event is recorded as exactly one failure; nothing else of a successful wait is.
 *   - a stopped child is sent SIGCONT (once, before the parent waits again - otherwise the parent hangs).
 *   - the parent stops waiting exactly when the child is gone (exited / killed) or when it gives up:
 *     at the first wait error other than EINTR, or after a bounded number of EINTRs.  Giving up is
 *     recorded as exactly one failure.
 *   - a failing fork is exactly one failure and nobody waits; the child (fork()==0) runs the test in its
 *     own process and _exit()s with a status whose low byte is non-zero iff the test added failures. */
#define ENV_CUSTOM_FORK
#define ENV_CUSTOM_KILL
#define ENV_CUSTOM_EXIT
#define ENV_CUSTOM_VSNPRINTF
#define ENV_MALLOC_CAP 128            /* the longest failure text of the runner has 96 characters */
#include "env.c"
#include "translated.h"

/* number formatting is not the subject (the signal number in the message is C14's business) */
uint32_t env_vsnprintf(uint8_t* s, uint64_t n, uint8_t* f, uint8_t* va) { (void)f; (void)va; if (n > 1) { s[0] = '#'; s[1] = 0; } else if (n) s[0] = 0; return 1; }

#define T_EINTR 4u                    /* Linux errno value of EINTR */
#define T_SIGCONT 18u                 /* Linux x86-64 signal number of SIGCONT */
#define T_WUNTRACED 2u
/* The property only says "a bounded number of times".  The runner's own failure text promises "Tried 30
 * times": giving up before 30 retries were made would lose a child that is merely slow under a debugger;
 * DESIGN.md fixes the upper end at 32 interrupted waits.  Anything inside this window is accepted. */
#define T_EINTR_MIN 31u               /* giving up by EINTR needs at least this many EINTR results (30 retries + the last) */
#define T_EINTR_MAX 32u               /* after this many EINTR results no further wait may be attempted */
#define W_CAP 36

enum { R_EXIT_OK, R_EXIT_BAD, R_SIGNALLED, R_STOPPED, R_OTHER };
/* wait(2): low 7 bits = terminating signal (0: normal exit, then bits 8..15 = exit status);
 * low byte 0x7f = stopped (bits 8..15 = stop signal); bit 7 = core dump flag of a killed child;
 * low byte 0xff (e.g. 0xffff "continued") reports neither exit nor signal nor stop. */
static int t_classify(uint32_t st) {
  uint32_t low7 = st & 0x7fu;
  if (low7 == 0) return ((st >> 8) & 0xffu) != 0 ? R_EXIT_BAD : R_EXIT_OK;
  if (low7 == 0x7fu) return (st & 0x80u) ? R_OTHER : R_STOPPED;
  return R_SIGNALLED;
}

/* ---- schedule (inputs) and reference state */
static uint32_t fork_value;                               /* what fork() returns */
static uint32_t s_fail[W_CAP], s_err[W_CAP], s_st[W_CAP]; /* per wait call: fails?, errno, status word */
static uint32_t max_w;                                    /* bound on wait results of this obligation */
static uint32_t max_nt = W_CAP;                           /* bound on successful but non-terminal reports (stopped / neither) among them */
static uint32_t fork_calls, wait_calls, kill_calls, exit_calls, body_runs;
static uint32_t exp_fail, exp_kill, eintr_seen, last_eintr, done, cont_pending;
static uint32_t n_exit_ok, n_exit_bad, n_signalled, n_stopped, n_other, n_error;
static uint32_t child_adds, child_mode, body_args_ok = 3;
static uint64_t child_initial;

/* the wait history of one child is over: it must have ended for a stated reason */
static void t_close_history(void) {
  if (last_eintr) {
    CHECK(eintr_seen >= T_EINTR_MIN, "the parent gives up on EINTR only after the advertised number of retries");
    exp_fail++;                                           /* giving up is reported as one failure */
    WITNESS("gave up after the EINTR retry bound");
  } else {
    CHECK(done, "the runner returns only after the child exited or was killed, or the wait failed");
  }
  CHECK(!cont_pending, "every stopped child was continued");
  done = 0; last_eintr = 0; eintr_seen = 0;
}
uint32_t env_fork(void) {
  if (fork_calls > 0 && fork_value != 0 && fork_value != 0xffffffffu) t_close_history();   /* the previous test's child */
  fork_calls++;
  return fork_value;
}
uint32_t env_waitpid(uint32_t pid, uint8_t* status, uint32_t options) {
  CHECK(fork_calls > 0 && fork_value != 0 && fork_value != 0xffffffffu, "only the parent of a successfully forked child waits");
  CHECK(pid == fork_value, "the parent waits for the child it forked");
  CHECK(options == T_WUNTRACED, "the wait blocks and also reports a stopped child");
  CHECK(!done, "no further wait once the child is gone or the wait was given up");
  CHECK(!cont_pending, "a stopped child is continued before the parent waits again");
  CHECK(eintr_seen < T_EINTR_MAX, "interrupted waits are retried a bounded number of times");
  if (wait_calls >= max_w) END_PATH();                    /* longer histories are outside the stated bound */
  uint32_t i = wait_calls++;
  last_eintr = 0;
  if (s_fail[i]) {
    h_set_errno(s_err[i]);
    if (s_err[i] == T_EINTR) { eintr_seen++; last_eintr = 1; }
    else { done = 1; exp_fail++; n_error++; }             /* a failing wait is a failure of that test */
    return 0xffffffffu;
  }
  switch (t_classify(s_st[i])) {
    case R_EXIT_OK: done = 1; n_exit_ok++; break;
    case R_EXIT_BAD: done = 1; exp_fail++; n_exit_bad++; break;
    case R_SIGNALLED: done = 1; exp_fail++; n_signalled++; break;
    case R_STOPPED: if (n_stopped + n_other >= max_nt) END_PATH(); exp_fail++; exp_kill++; cont_pending = 1; n_stopped++; break;
    default: if (n_stopped + n_other >= max_nt) END_PATH(); n_other++; break;
  }
  *(uint32_t*)status = s_st[i];
  return pid;
}
static uint32_t t_kill(uint32_t pid, uint32_t sig) {
  kill_calls++;
  CHECK(cont_pending, "a signal is sent only to a child that was just reported stopped, once");
  CHECK(sig == T_SIGCONT, "the signal sent to a stopped child is SIGCONT");
  CHECK(pid == fork_value, "SIGCONT goes to the forked child");
  cont_pending = 0;
  return 0;
}
static void t_exit(uint32_t code) {
  exit_calls++;
  CHECK(child_mode && fork_value == 0, "only the child leaves through _exit");
  CHECK(body_runs == 1, "the child ran the test exactly once before it exited");
  CHECK(body_args_ok == 3, "the child ran the test with the caller's plugin chain and result");
  CHECK(wait_calls == 0 && kill_calls == 0 && fork_calls == 1, "the child neither waits nor signals nor forks again");
  CHECK(((code & 0xffu) != 0) == (child_adds != 0), "the exit status seen by the parent is non-zero iff the test added failures");
  CHECK(h_failures() == child_initial + child_adds, "failures of the child are those of the test body");
  OBSERVE(code);
  WITNESS("child exit");
  END_PATH();
}
#ifdef LL2C_TRANSLATED
uint32_t ll2c_ext_kill(uint32_t pid, uint32_t sig) { return t_kill(pid, sig); }
void ll2c_ext__exit(uint32_t code) { t_exit(code); }
#else
/* real build: the same recorders stand in for libc's kill/_exit (the executable's definitions win over
 * libc's); outside a harness "child" the process really exits (the native driver uses _exit itself). */
#include <sys/syscall.h>
int kill(int pid, int sig) { return (int)t_kill((uint32_t)pid, (uint32_t)sig); }
void _exit(int code) {
  if (child_mode && !exit_calls) t_exit((uint32_t)code);
  syscall(SYS_exit_group, code);
  for (;;) {}
}
#endif
void h_exit_hook(void) { CHECK(0, "the separate-process runner never leaves by a jump"); END_PATH(); }
void h_child_body(uint32_t args_ok) {
  body_runs++;
  body_args_ok &= args_ok;
  for (uint32_t i = 0; i < child_adds; i++) h_add_failure();
}

/* ---- parent side: every history of wait results up to the bound */
static void parent_post(void) {
  OBSERVE(eintr_seen);
  t_close_history();
  CHECK(kill_calls == exp_kill, "SIGCONT is sent exactly once per stopped report and never otherwise");
  CHECK(h_failures() == exp_fail, "failures recorded == events (non-zero exit, signal, stop) + 1 if the wait was given up");
  CHECK(h_printed() == exp_fail, "each of them is reported exactly once");
  CHECK(body_runs == 0 && exit_calls == 0, "the parent neither runs the test body itself nor exits");
}
/* native sampling only: make long EINTR runs / stops frequent (replays carry no "sample_mode": mode 0) */
static void sample_bias(uint32_t* wf, uint32_t* we, uint32_t* ws) {
#ifndef LL2C_CBMC
  uint32_t sample_mode = (uint32_t)hn_input("sample_mode", -1, 2);
  for (int i = 0; i < W_CAP; i++) {
    if (sample_mode == 1 && (wf[i] % 16) != 0) { wf[i] = 1; we[i] = T_EINTR; }
    if (sample_mode == 2) { wf[i] = (wf[i] % 4) != 0; if (we[i] & 3) we[i] = T_EINTR; if ((ws[i] & 0x300) == 0) ws[i] |= 0x7f; }
    if (sample_mode == 3 && (ws[i] & 0x100)) ws[i] = (ws[i] & 0xff00u) | 0x7fu;
  }
#else
  (void)wf; (void)we; (void)ws;
#endif
}
/* (the inputs are declared in the HARNESS function itself so that counterexample replays find them by name) */
#define BODY_PARENT(MAXW, MAXNT) \
  h_init(); \
  IN_U32(pid); IN_ARR_U32(wf, W_CAP); IN_ARR_U32(we, W_CAP); IN_ARR_U32(ws, W_CAP); \
  ASSUME(pid >= 1 && pid <= 0x7fffffffu); \
  sample_bias(wf, we, ws); \
  for (int i = 0; i < W_CAP; i++) { s_fail[i] = wf[i] & 1; s_err[i] = we[i]; s_st[i] = ws[i] & 0xffffu; } \
  fork_value = pid; max_w = (MAXW); max_nt = (MAXNT); \
  h_run_separate(0); \
  parent_post(); \
  CHECK(fork_calls == 1, "one child per test"); \
  OBSERVE(wait_calls); OBSERVE(exp_fail); OBSERVE(exp_kill); \
  if (n_stopped >= 2 && n_other >= 1 && n_signalled) WITNESS("stop, stop, continue-report, killed"); \
  if (n_error) WITNESS("wait failed with another errno"); \
  if (n_exit_ok && exp_fail == 0) WITNESS("clean exit adds nothing"); \
  WITNESS("end");
/* (MAXW, MAXNT): at most MAXW wait results, of which at most MAXNT are successful non-terminal reports */
HARNESS(harness_parent_8) { BODY_PARENT(8, 8) }
HARNESS(harness_parent_36_1) { BODY_PARENT(36, 1) }
HARNESS(harness_parent_36_2) { BODY_PARENT(36, 2) }

/* one wait result, all 65536 status words: the decoding of the status word alone */
HARNESS(harness_status_word) {
  h_init();
  IN_U32(pid1); IN_U32(st1);
  ASSUME(pid1 >= 1 && pid1 <= 0x7fffffffu); ASSUME(st1 <= 0xffffu);
  int k = t_classify(st1);
  ASSUME(k != R_STOPPED && k != R_OTHER);                 /* the single result ends the history */
  s_fail[0] = 0; s_st[0] = st1; fork_value = pid1; max_w = 1;
  h_run_separate(0);
  parent_post();
  OBSERVE(h_failures());
  CHECK(h_failures() == (k == R_EXIT_OK ? 0u : 1u), "a child that completes normally adds no failure; any other end adds exactly one");
  WITNESS("end");
}

/* fork fails */
HARNESS(harness_fork_fails) {
  h_init();
  fork_value = 0xffffffffu; max_w = 0;
  h_run_separate(0);
  OBSERVE(h_failures());
  CHECK(fork_calls == 1 && wait_calls == 0 && kill_calls == 0 && exit_calls == 0 && body_runs == 0, "after a failing fork nobody waits, signals, exits or runs the test");
  CHECK(h_failures() == 1 && h_printed() == 1, "a failing fork is reported as exactly one failure of that test");
  WITNESS("end");
}

/* child side */
HARNESS(harness_child) {
  h_init();
  IN_U64(initial); IN_U32(adds_in);
  uint32_t adds = adds_in % 3;
  ASSUME(initial <= 0xfffffffffffffff0ULL);
  h_set_failure_count(initial);
  child_initial = initial; child_adds = adds; child_mode = 1; fork_value = 0; max_w = 0;
  h_run_separate(1);
  CHECK(0, "the child never returns into the parent's test loop");
}

/* the framework's run loop: every test gets its own child, a dead child does not stop the run,
 * the overall result is a failure iff some child reported an event; without the separate-process
 * flag nothing forks. */
#define BODY_REGISTRY(NTESTS, MAXW) \
  h_init(); \
  IN_U32(rpid); IN_BOOL(separate); IN_BOOL(radds); IN_ARR_U32(rf, 6); IN_ARR_U32(re, 6); IN_ARR_U32(rs, 6); \
  ASSUME(rpid >= 1 && rpid <= 0x7fffffffu); \
  for (int i = 0; i < 6; i++) { s_fail[i] = rf[i] & 1; s_err[i] = re[i]; s_st[i] = rs[i] & 0xffffu; } \
  fork_value = rpid; max_w = (MAXW); child_adds = radds; \
  h_run_registry((NTESTS), separate); \
  OBSERVE(h_failures()); OBSERVE(fork_calls); OBSERVE(wait_calls); \
  CHECK(h_run_count() == (NTESTS), "every test is run, whatever happened to the children of earlier tests"); \
  if (separate) { \
    parent_post(); \
    CHECK(fork_calls == (NTESTS), "each test runs in a child of its own"); \
    if (exp_fail >= 2) WITNESS("two tests died"); \
  } else { \
    CHECK(fork_calls == 0 && wait_calls == 0 && kill_calls == 0, "without the separate-process flag nothing forks"); \
    CHECK(body_runs == (NTESTS) && body_args_ok == 3, "each test runs once in the current process"); \
    CHECK(h_failures() == (NTESTS) * radds, "failures are those of the test bodies"); \
    WITNESS("in-process run"); \
  } \
  CHECK((h_is_failure() != 0) == (h_failures() != 0), "the run reports an overall failure iff some test failed"); \
  WITNESS("end");
HARNESS(harness_registry_2) { BODY_REGISTRY(2, 4) }
HARNESS(harness_registry_3) { BODY_REGISTRY(3, 5) }
