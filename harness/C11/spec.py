def ob(fn, unwind=38, timeout=600, bounds='', **kw):
    d = {'fn': fn, 'unwind': unwind, 'timeout': timeout, 'bounds': bounds}
    d.update(kw)
    return d
# The wait loop has two back edges after translation (CBMC loops .0: retry after w == -1, .1: wait again after a
# successful but non-terminal report).  Their unwinding bounds are set separately: .0 = longest run of consecutive
# failing waits + 1, .1 = number of non-terminal reports + 1.  Unwinding assertions stay on.
LOOP = '_ZL44GccPlatformSpecificRunTestInASeperateProcessP10UtestShellP10TestPluginP10TestResult'
def uw(a, b):
    return ['%s.0:%d' % (LOOP, a), '%s.1:%d' % (LOOP, b)]
SCHED = ('fork returns any pid in 1..2^31-1; every waitpid call returns either -1 with a fully symbolic 32-bit errno (EINTR included) '
         'or the pid with a fully symbolic 16-bit status word; histories of up to %d wait results%s (longer ones are cut off and not claimed)')
OPT = ['gave up after the EINTR retry bound', 'stop, stop, continue-report, killed', 'wait failed with another errno', 'clean exit adds nothing', 'two tests died', 'in-process run', 'child exit']
NOGIVEUP = [w for w in OPT if w != 'gave up after the EINTR retry bound']
SPEC = {
    'property': 'C11',
    'functions_of_interest': ['RunTestInASeperateProcess', 'SetTestFailureByStatusCode', 'UtestShell10runOneTest', 'helperDoRunOneTest', 'TestRegistry11runAllTests'],
    'assumptions': [
        'fork/waitpid are the harness models behind the PlatformSpecificFork/PlatformSpecificWaitPid seams; waitpid returns -1 (errno set, *status untouched) or the pid of the child with a 16-bit status word; kill and _exit are recording stubs (kill always succeeds)',
        'status words are decoded by a reference written from wait(2): low 7 bits 0 = exited (status in bits 8..15), low byte 0x7f = stopped, low 7 bits 1..0x7e = killed by that signal (bit 7 = core flag), low byte 0xff = none of these',
        'the EINTR retry bound is accepted anywhere in the window [30 retries (the number the failure text advertises), 32 interrupted waits (DESIGN.md)]; the retry counter is per test, not per run of consecutive EINTRs',
        'what the test does in the child (setup/body/teardown/plugin actions) is abstracted to "adds 0..2 failures" by overriding the virtual UtestShell::runOneTestInCurrentProcess; what the kernel reports about the child is the status word',
        'failure-message construction is property C14: TestFailure constructors/destructor have empty bodies and vsnprintf renders "#"; in group "loop" all SimpleString members and StringFrom have empty bodies as well (group "run" executes the real message construction on short histories)',
        'PlatformSpecificSetJmp is a plain call (nothing on these paths jumps; a jump would fail the harness hook)',
        'linux x86-64 constants: EINTR=4, SIGCONT=18, WUNTRACED=2',
    ],
    'groups': [{
        # the wait loop at the full bound: message construction (SimpleString, StringFrom) has empty bodies here
        'name': 'loop', 'wrapper': 'w11.cpp', 'harness': 'h11.c',
        'config': {'empty_regex': ['^_ZN11TestFailure[CD][012]E', '^_ZNK?12SimpleString', '^_Z10StringFrom']},
        'obligations': [
            ob('harness_parent_8', unwindset=uw(9, 9), bounds=SCHED % (8, ', any mix of results'), optional_witness=OPT, diff_runs=300),
            ob('harness_parent_36_1', unwindset=uw(37, 2), bounds=SCHED % (36, ' of which at most 1 is a successful non-terminal report (stopped / neither); the EINTR retry bound (31/32) lies inside'), optional_witness=NOGIVEUP, diff_runs=400),
            ob('harness_parent_36_2', unwindset=uw(37, 3), bounds=SCHED % (36, ' of which at most 2 are successful non-terminal reports (stopped / neither); the EINTR retry bound (31/32) lies inside'), optional_witness=NOGIVEUP, timeout=1800, diff_runs=400, tier='thorough'),
            ob('harness_registry_2', unwindset=uw(5, 5), bounds='TestRegistry::runAllTests over 2 tests, separate-process flag symbolic, ' + SCHED % (4, ' in total') + '; in-process bodies add 0..1 failures', optional_witness=OPT, diff_runs=300),
            ob('harness_registry_3', unwindset=uw(6, 6), bounds='TestRegistry::runAllTests over 3 tests, separate-process flag symbolic, ' + SCHED % (5, ' in total') + '; in-process bodies add 0..1 failures', optional_witness=OPT, diff_runs=300, tier='thorough'),
        ],
    }, {
        # real message construction (only the TestFailure constructors/destructor are empty), short histories
        'name': 'run', 'wrapper': 'w11.cpp', 'harness': 'h11.c',
        'config': {'empty_regex': ['^_ZN11TestFailure[CD][012]E']},
        'obligations': [
            ob('harness_status_word', unwind=100, bounds='one wait result; all 65536 status words that end the history (exited / killed); any pid', optional_witness=OPT, diff_runs=300),
            ob('harness_fork_fails', unwind=100, bounds='fork returns -1', optional_witness=OPT, diff_runs=5),
            ob('harness_child', unwind=100, bounds='fork returns 0; failure count before the test any value up to 2^64-16; the test body adds 0..2 failures', optional_witness=[w for w in OPT if w != 'child exit'] + ['end'], diff_runs=50),
        ],
    }],
}
