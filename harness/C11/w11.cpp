// C11 wrapper: the separate-process runner of the Gcc platform is reached exactly the way the
// framework reaches it (through the global function pointer PlatformSpecificRunTestInASeperateProcess,
// through UtestShell::runOneTest, and through TestRegistry::runAllTests).  fork / waitpid are the
// harness's symbolic models (h_env_install routes the PlatformSpecificFork / WaitPid seams to them).
#define private public
#define protected public
#include "CppUTest/TestHarness.h"
#include "CppUTest/TestOutput.h"
#include "CppUTest/TestResult.h"
#include "CppUTest/TestPlugin.h"
#include "CppUTest/TestRegistry.h"
#include "CppUTest/PlatformSpecificFunctions.h"
#include <errno.h>

extern "C" {
void h_env_install(void);
void h_exit_hook(void);            // harness: a parent-side run must never leave by a jump
void h_child_body(int args_ok);    // harness: what "running the test in the current process" does (adds failures)
}

class CountingOutput : public TestOutput
{
public:
    unsigned long failuresPrinted;
    CountingOutput() : failuresPrinted(0) {}
    virtual void printBuffer(const char*) CPPUTEST_OVERRIDE {}
    virtual void flush() CPPUTEST_OVERRIDE {}
    virtual void printFailure(const TestFailure&) CPPUTEST_OVERRIDE { failuresPrinted++; }
    // progress / summary printing is property C16/C20, not this one
    virtual void printTestsStarted() CPPUTEST_OVERRIDE {}
    virtual void printTestsEnded(const TestResult&) CPPUTEST_OVERRIDE {}
    virtual void printCurrentTestStarted(const UtestShell&) CPPUTEST_OVERRIDE {}
    virtual void printCurrentTestEnded(const TestResult&) CPPUTEST_OVERRIDE {}
    virtual void printCurrentGroupStarted(const UtestShell&) CPPUTEST_OVERRIDE {}
    virtual void printCurrentGroupEnded(const TestResult&) CPPUTEST_OVERRIDE {}
};

static TestPlugin* plugin_;
static TestResult* result_;

// The body of the test (setup/body/teardown/plugin actions) is abstracted: what it does is decided by
// the harness (a symbolic number of recorded failures).  Everything else of UtestShell is the real code.
class BodyShell : public UtestShell
{
public:
    BodyShell(const char* n) : UtestShell("group", n, "file.cpp", 7) {}
    virtual void runOneTestInCurrentProcess(TestPlugin* plugin, TestResult& result) CPPUTEST_OVERRIDE
    {
        h_child_body((plugin == plugin_ ? 1 : 0) | (&result == result_ ? 2 : 0));
    }
};

static CountingOutput* out_;
static BodyShell* shell_;
static BodyShell* shell2_;
static BodyShell* shell3_;
static TestRegistry* registry_;

static int h_plain_setjmp(void (*function)(void*), void* data)
{
    function(data);           // the jump machinery is property C01; nothing on the paths of C11 jumps
    return 1;
}

extern "C" {
void h_init(void)
{
    static CountingOutput out;
    static TestResult result(out);
    static BodyShell shell("t1");
    static BodyShell shell2("t2");
    static BodyShell shell3("t3");
    static TestPlugin plugin("plugin");
    static TestRegistry registry;
    h_env_install();
    PlatformSpecificLongJmp = h_exit_hook;
    PlatformSpecificSetJmp = h_plain_setjmp;
    out_ = &out; result_ = &result; shell_ = &shell; shell2_ = &shell2; shell3_ = &shell3; plugin_ = &plugin; registry_ = &registry;
}
void h_set_errno(int v) { errno = v; }
unsigned long h_failures(void) { return result_->getFailureCount(); }
unsigned long h_printed(void) { return out_->failuresPrinted; }
unsigned long h_run_count(void) { return result_->getRunCount(); }
int h_is_failure(void) { return result_->isFailure() ? 1 : 0; }
void h_set_failure_count(unsigned long n) { result_->failureCount_ = n; }
void h_add_failure(void)
{
    static TestFailure failure(shell_, "failure recorded by the test body");
    result_->addFailure(failure);
}

// exactly what helperDoRunOneTestSeperateProcess does
void h_run_separate(int with_plugin)
{
    PlatformSpecificRunTestInASeperateProcess(shell_, with_plugin ? plugin_ : (TestPlugin*)0, result_);
}
// one test through UtestShell::runOneTest, separate-process flag as the command line would set it
void h_run_one_test(int separate)
{
    if (separate) shell_->setRunInSeperateProcess();
    shell_->runOneTest(plugin_, *result_);
}
// n tests (1..3) through the registry's run loop
void h_run_registry(int n, int separate)
{
    registry_->addTest(shell_);
    if (n > 1) registry_->addTest(shell2_);
    if (n > 2) registry_->addTest(shell3_);
    plugin_ = registry_->getFirstPlugin();
    if (separate) registry_->setRunTestsInSeperateProcess();
    registry_->runAllTests(*result_);
}
}
