/* C12: every argv is parsed safely; documented options mean what the help text says.
 *
 * The reference below is written from the usage/help text of the runner:
 *   flags   -h -v -vv -c -p -b -lg -ln -ll -ri -f -e -ci
 *   -r[<#>] repeat <#> times (twice if not given)          -s [<seed>] shuffle, seed optional and > 0
 *   -g/-sg/-xg/-xsg <group>   -n/-sn/-xn/-xsn <name>        contains / exactly matches, run only / exclude
 *   -t/-st/-xt/-xst <group>.<name>                          the same for group and name together
 *   "TEST(<group>, <name>)" "IGNORE_TEST(<group>, <name>)"  group and name exactly match
 *   -o{normal|eclipse|junit|teamcity}    -k <packageName>
 * Values are given attached to the option or as the next argument.
 *
 * DECOMPOSITION (measured: the whole parser on one symbolic 2-character value does not finish - as soon as one byte of
 * an argument is symbolic the copy of the argument has a symbolic length, every byte of it becomes conditional and the
 * symbolic executor explores all ~25 option handlers for every argument):
 *   group 'dispatch'  parse() with the option handlers replaced by RECORDING stubs (solver world only): for ALL first
 *                     arguments of up to 5 arbitrary bytes (and a second argument of up to 3) the handler chosen is the one the
 *                     reference table names, flags are set exactly, anything else is rejected; the chain itself is safe;
 *   group 'cl'        every handler called directly on ALL argument bytes (safety) with the documented meaning checked
 *                     for the documented shapes (value attached / separated), plus the kernels getParameterField,
 *                     TEST( slicing, group.name splitting, TestFilter::match, and end-to-end runs of the whole parser
 *                     on concrete representative values that tie the two halves together.
 * Shape of every harness: argc and every POINTER handed to the parser are concrete at each call site (attached / separated
 * forms are two call sites); only string CONTENTS are symbolic.  Heap: see zheap.h. */
#ifndef ENV_MALLOC_CAP
#define ENV_MALLOC_CAP 64
#endif
#define ENV_CUSTOM_MALLOC
#define ENV_CUSTOM_NEW
#include "env.c"
#include "zheap.h"
#include "translated.h"

/* ---------------------------------------------------------------- textbook helpers (every loop has a constant bound TB) */
#define TB 20
static uint64_t t_len(const uint8_t* s) { uint64_t n = 0; while (n < TB && s[n]) n++; return n; }
static int t_eq(const uint8_t* a, const uint8_t* b) { for (uint64_t i = 0; i < TB; i++) { if (a[i] != b[i]) return 0; if (!a[i]) return 1; } return 0; }
static int t_starts(const uint8_t* a, const char* lit) { for (uint64_t i = 0; i < TB; i++) { if (!lit[i]) return 1; if (a[i] != (uint8_t)lit[i]) return 0; } return 1; }
static int t_is(const uint8_t* a, const char* lit) { return t_eq(a, (const uint8_t*)lit); }
static int t_contains(const uint8_t* hay, const uint8_t* nee) {
  uint64_t lh = t_len(hay), ln = t_len(nee);
  for (uint64_t i = 0; i < 8; i++) { if (i + ln > lh) break; int ok = 1; for (uint64_t j = 0; j < 8; j++) { if (j >= ln) break; if (hay[i + j] != nee[j]) ok = 0; } if (ok) return 1; }
  return 0;
}
static int is_ident(uint8_t c) { return (c >= 'a' && c <= 'z') || (c >= 'A' && c <= 'Z') || (c >= '0' && c <= '9') || c == '_'; }
static int is_digit(uint8_t c) { return c >= '0' && c <= '9'; }
static int ident_text(const uint8_t* s) { if (!s[0]) return 0; for (uint64_t i = 0; i < TB; i++) { if (!s[i]) return 1; if (!is_ident(s[i])) return 0; } return 0; }
static int digit_text(const uint8_t* s) { if (!s[0]) return 0; for (uint64_t i = 0; i < TB; i++) { if (!s[i]) return 1; if (!is_digit(s[i])) return 0; } return 0; }
static uint64_t decimal(const uint8_t* s) { uint64_t v = 0; for (uint64_t i = 0; i < 6; i++) { if (!s[i]) break; v = v * 10 + (uint64_t)(s[i] - '0'); } return v; }
/* append to a zero-initialised buffer of TB+1 bytes */
static void cat(uint8_t* dst, const uint8_t* src) { uint64_t n = t_len(dst); for (uint64_t i = 0; i < TB; i++) { if (!src[i] || n + i >= TB) break; dst[n + i] = src[i]; } }
static void catlit(uint8_t* dst, const char* src) { cat(dst, (const uint8_t*)src); }
#define TEXT(name) uint8_t name[TB + 1] = {0}

/* ---------------------------------------------------------------- the expected configuration */
enum { F_HELP, F_VERBOSE, F_VERYVERBOSE, F_COLOR, F_SEPARATE, F_REVERSE, F_LISTGROUPS, F_LISTNAMES, F_LISTLOCATIONS, F_RUNIGNORED,
       F_CRASH, F_RETHROW, F_SHUFFLE, F_JUNIT, F_TEAMCITY, F_ECLIPSE, NFLAGS };
#define STRICT 1u
#define INVERT 2u
struct fexp { uint8_t text[TB + 1]; uint32_t bits; };
struct expect {
  uint32_t flag[NFLAGS]; uint64_t repeat; uint32_t seed_known; uint64_t seed;
  uint32_t nf[2]; struct fexp f[2][2];            /* [0] group filters, [1] name filters; most recent option first */
  uint8_t package[TB + 1];
};
static const struct expect zero_expect;
static void defaults(struct expect* e) {
  *e = zero_expect;
  e->flag[F_RETHROW] = 1; e->flag[F_ECLIPSE] = 1;   /* unexpected exceptions are rethrown unless -e/-ci; no output files unless asked */
  e->repeat = 1;
}
static void add_filter(struct expect* e, int which, const uint8_t* text, uint32_t bits) {
  e->f[which][1] = e->f[which][0];
  e->f[which][0] = zero_expect.f[0][0]; cat(e->f[which][0].text, text); e->f[which][0].bits = bits; e->nf[which]++;
}
static int same_text(uint64_t len, int which, int i, const uint8_t* want) {   /* which < 0: package name */
  if (len != t_len(want)) return 0;
  for (uint64_t k = 0; k < 11; k++) { if (k >= len) break; if ((which < 0 ? h_package_char(k) : h_filter_char(which, i, k)) != want[k]) return 0; }
  return 1;
}
static void compare(const struct expect* e) {
  int flags_ok = 1;
  for (int i = 0; i < NFLAGS; i++) if ((h_flag(i) != 0) != (e->flag[i] != 0)) flags_ok = 0;
  CHECK(flags_ok, "flags: exactly the documented ones are set (verbosity, colour, separate process, reverse, list modes, run-ignored, crash, rethrow, shuffle, output kind)");
  CHECK(h_repeat() == e->repeat, "repeat count is the documented one");
  if (e->flag[F_SHUFFLE]) { if (e->seed_known) CHECK(h_seed() == e->seed, "shuffle seed is the given one"); else CHECK(h_seed() != 0, "shuffle seed: some seed greater than 0"); }
  for (int w = 0; w < 2; w++) {
    CHECK(h_nfilters(w) == e->nf[w], "number of group / name filters");
    for (uint32_t i = 0; i < 2; i++) if (i < e->nf[w]) {
      CHECK(same_text(h_filter_len(w, i), w, i, e->f[w][i].text), "filter text is the given group / name");
      CHECK(h_filter_bits(w, i) == e->f[w][i].bits, "filter kind: contains or exact (s), run-only or exclude (x)");
    }
  }
  CHECK(same_text(h_package_len(), -1, 0, e->package), "package name is the given one");
}

/* ================================================================ group 'dispatch': which handler does parse() choose?
 * In the solver world of this group the handlers are the recording stubs below; the real build runs the real handlers
 * (then only safety and the accept/reject contract are observed). */
enum { H_NONE = -1, H_REPEAT, H_SHUFFLE, H_G, H_SG, H_XG, H_XSG, H_N, H_SN, H_XN, H_XSN, H_T, H_ST, H_XT, H_XST, H_TEST, H_IGNORE_TEST, H_OUTPUT, H_PACKAGE, NHANDLERS };
#if defined(DISPATCH_STUBBED) && defined(LL2C_TRANSLATED)
#define DISPATCH_IS_STUB 1
uint8_t* _ZNK12SimpleString12asCharStringEv(uint8_t*);
static int32_t seen_handler[2], seen_index[2]; static uint32_t nseen;
static uint8_t stub_result = 1;     /* what the bool handlers answer */
static void seen(int h, uint8_t* idx) { if (nseen < 2) { seen_handler[nseen] = h; seen_index[nseen] = *(int32_t*)idx; } nseen++; }
void _ZN20CommandLineArguments14setRepeatCountEiPKPKcRi(uint8_t* t, uint32_t ac, uint8_t* av, uint8_t* i) { (void)t; (void)ac; (void)av; seen(H_REPEAT, i); }
uint8_t _ZN20CommandLineArguments10setShuffleEiPKPKcRi(uint8_t* t, uint32_t ac, uint8_t* av, uint8_t* i) { (void)t; (void)ac; (void)av; seen(H_SHUFFLE, i); return stub_result; }
void _ZN20CommandLineArguments14addGroupFilterEiPKPKcRi(uint8_t* t, uint32_t ac, uint8_t* av, uint8_t* i) { (void)t; (void)ac; (void)av; seen(H_G, i); }
void _ZN20CommandLineArguments20addStrictGroupFilterEiPKPKcRi(uint8_t* t, uint32_t ac, uint8_t* av, uint8_t* i) { (void)t; (void)ac; (void)av; seen(H_SG, i); }
void _ZN20CommandLineArguments21addExcludeGroupFilterEiPKPKcRi(uint8_t* t, uint32_t ac, uint8_t* av, uint8_t* i) { (void)t; (void)ac; (void)av; seen(H_XG, i); }
void _ZN20CommandLineArguments27addExcludeStrictGroupFilterEiPKPKcRi(uint8_t* t, uint32_t ac, uint8_t* av, uint8_t* i) { (void)t; (void)ac; (void)av; seen(H_XSG, i); }
void _ZN20CommandLineArguments13addNameFilterEiPKPKcRi(uint8_t* t, uint32_t ac, uint8_t* av, uint8_t* i) { (void)t; (void)ac; (void)av; seen(H_N, i); }
void _ZN20CommandLineArguments19addStrictNameFilterEiPKPKcRi(uint8_t* t, uint32_t ac, uint8_t* av, uint8_t* i) { (void)t; (void)ac; (void)av; seen(H_SN, i); }
void _ZN20CommandLineArguments20addExcludeNameFilterEiPKPKcRi(uint8_t* t, uint32_t ac, uint8_t* av, uint8_t* i) { (void)t; (void)ac; (void)av; seen(H_XN, i); }
void _ZN20CommandLineArguments26addExcludeStrictNameFilterEiPKPKcRi(uint8_t* t, uint32_t ac, uint8_t* av, uint8_t* i) { (void)t; (void)ac; (void)av; seen(H_XSN, i); }
uint8_t _ZN20CommandLineArguments21addGroupDotNameFilterEiPKPKcRiRK12SimpleStringbb(uint8_t* t, uint32_t ac, uint8_t* av, uint8_t* i, uint8_t* name, uint8_t strict, uint8_t exclude) {
  (void)t; (void)ac; (void)av;
  const uint8_t* n = _ZNK12SimpleString12asCharStringEv(name);
  int h = (strict ? (exclude ? H_XST : H_ST) : (exclude ? H_XT : H_T));
  /* the option name handed over must be the one of that kind (it tells the handler where the value starts) */
  const char* want = h == H_T ? "-t" : h == H_ST ? "-st" : h == H_XT ? "-xt" : "-xst";
  int ok = 1; for (int k = 0; k < 5; k++) { if (n[k] != (uint8_t)want[k]) ok = 0; if (!want[k]) break; }
  seen(ok ? h : H_NONE, i); return stub_result;
}
void _ZN20CommandLineArguments32addTestToRunBasedOnVerboseOutputEiPKPKcRiS1_(uint8_t* t, uint32_t ac, uint8_t* av, uint8_t* i, uint8_t* name) { (void)t; (void)ac; (void)av; seen(name[0] == 'T' ? H_TEST : name[0] == 'I' ? H_IGNORE_TEST : H_NONE, i); }
uint8_t _ZN20CommandLineArguments13setOutputTypeEiPKPKcRi(uint8_t* t, uint32_t ac, uint8_t* av, uint8_t* i) { (void)t; (void)ac; (void)av; seen(H_OUTPUT, i); return stub_result; }
void _ZN20CommandLineArguments14setPackageNameEiPKPKcRi(uint8_t* t, uint32_t ac, uint8_t* av, uint8_t* i) { (void)t; (void)ac; (void)av; seen(H_PACKAGE, i); }
#else
#define DISPATCH_IS_STUB 0
static int32_t seen_handler[2], seen_index[2]; static uint32_t nseen; static uint8_t stub_result = 1;
#endif
/* reference: what one argument means.  Flags are whole arguments; a valued option is recognised by its name at the start of
 * the argument, the longest documented name winning (-sg is not -s with the value "g").  Returns the flag (>= 0) in *flag,
 * the handler in *handler, or neither (reject). */
static void ref_dispatch(const uint8_t* a, int* flag, int* handler, int* reject) {
  static const char* const fopt[] = { "-h", "-v", "-vv", "-c", "-p", "-b", "-lg", "-ln", "-ll", "-ri", "-f", "-e", "-ci" };
  static const int fflag[] = { F_HELP, F_VERBOSE, F_VERYVERBOSE, F_COLOR, F_SEPARATE, F_REVERSE, F_LISTGROUPS, F_LISTNAMES, F_LISTLOCATIONS, F_RUNIGNORED, F_CRASH, F_RETHROW, F_RETHROW };
  static const char* const vopt[] = { "-r", "-s", "-g", "-sg", "-xg", "-xsg", "-n", "-sn", "-xn", "-xsn", "-t", "-st", "-xt", "-xst", "TEST(", "IGNORE_TEST(", "-o", "-k" };
  *flag = -1; *handler = H_NONE; *reject = 0;
  for (int k = 0; k < 13; k++) if (t_is(a, fopt[k])) { *flag = fflag[k]; if (k == 0) *reject = 1; return; }
  uint64_t best = 0;
  for (int k = 0; k < NHANDLERS; k++) { uint64_t l = t_len((const uint8_t*)vopt[k]); if (t_starts(a, vopt[k]) && l > best) { best = l; *handler = k; } }
  if (*handler == H_NONE) *reject = 1;             /* unknown option - includes "-p<something>", which only a plugin could accept */
}
#ifndef D1MAX
#define D1MAX 5
#endif
#ifndef D2MAX
#define D2MAX 3
#endif
/* one or two arbitrary arguments through the dispatch chain */
static void body_harness_dispatch(const int AC) {
  h_init();
  IN_ARR_U8(a1, D1MAX + 1); IN_ARR_U8(a2, D2MAX + 1); IN_U8(answer);
  a1[D1MAX] = 0; a2[D2MAX] = 0;
  stub_result = answer & 1; nseen = 0;
  uint32_t ok = h_parse(AC, a1, a2, 0, 0, 0);
  { /* the verdict is comparable between the worlds only when no handler is involved: the stubbed handlers answer arbitrarily, the real ones do not */
    int fl, h1 = H_NONE, h2 = H_NONE, rj; ref_dispatch(a1, &fl, &h1, &rj); if (AC > 2) ref_dispatch(a2, &fl, &h2, &rj);
    if (AC < 2 || (h1 == H_NONE && h2 == H_NONE)) OBSERVE(ok); }
  CHECK(ok == 0 || ok == 1, "the vector is rejected or a configuration is produced");
  CHECK(!h_flag(F_HELP) || !ok, "asking for help rejects the vector (no test runs)");
  if (DISPATCH_IS_STUB) {
    /* walk the arguments with the reference: the stubs take no value from the next argument, so every argument is an option */
    struct expect e; defaults(&e);
    int rejected = 0; uint32_t calls = 0;
    for (int i = 1; i < AC; i++) {
      if (rejected) break;
      int flag, handler, reject; ref_dispatch(i == 1 ? a1 : a2, &flag, &handler, &reject);
      if (flag >= 0) e.flag[flag] = (flag == F_RETHROW) ? 0 : 1;
      if (handler != H_NONE) {
        if (calls < 2) { CHECK(nseen > calls && seen_handler[calls] == handler, "the handler of the option named at the start of the argument is chosen (longest name wins)");
                         CHECK(nseen > calls && seen_index[calls] == i, "the handler is given the index of that argument"); }
        calls++;
        if ((handler == H_SHUFFLE || handler == H_OUTPUT || (handler >= H_T && handler <= H_XST)) && !stub_result) reject = 1;   /* the handler said no */
      }
      if (reject) rejected = 1;
    }
    CHECK(nseen == calls, "no other handler runs");
    CHECK((ok == 0) == (rejected != 0), "rejected iff help is wanted, an argument is no documented option, or a handler rejects its value");
    if (!rejected) compare(&e);
    else { int flags_ok = 1; for (int i = 0; i < NFLAGS; i++) if (i != F_HELP && i != F_RETHROW && i != F_ECLIPSE && h_flag(i) && !e.flag[i]) flags_ok = 0; CHECK(flags_ok, "a rejected vector has set no flag that was not given"); }
  }
  WITNESS("end");
}

/* the same with a first argument that begins like a documented name: all but the last character of the name, then two arbitrary bytes
 * (hits the name, its near misses, and - for the long TEST( / IGNORE_TEST( names - arguments the 5-byte sweep cannot reach) */
static void body_harness_dispatch_near(const int K) {
  static const char* const vopt[] = { "-r", "-s", "-g", "-sg", "-xg", "-xsg", "-n", "-sn", "-xn", "-xsn", "-t", "-st", "-xt", "-xst", "TEST(", "IGNORE_TEST(", "-o", "-k" };
  h_init();
  IN_ARR_U8(two, 3); IN_U8(answer); two[2] = 0;
  stub_result = answer & 1; nseen = 0;
  TEXT(a1); catlit(a1, vopt[K]); a1[t_len(a1) - 1] = 0; cat(a1, two);
  uint32_t ok = h_parse(2, a1, 0, 0, 0, 0);
  { int fl, h1 = H_NONE, rj; ref_dispatch(a1, &fl, &h1, &rj); if (h1 == H_NONE) OBSERVE(ok); }      /* see body_harness_dispatch */
  CHECK(ok == 0 || ok == 1, "the vector is rejected or a configuration is produced");
  if (DISPATCH_IS_STUB) {
    struct expect e; defaults(&e);
    int flag, handler, reject; ref_dispatch(a1, &flag, &handler, &reject);
    if (flag >= 0) e.flag[flag] = (flag == F_RETHROW) ? 0 : 1;
    if (handler != H_NONE) {
      CHECK(nseen == 1 && seen_handler[0] == handler && seen_index[0] == 1, "the handler of the option named at the start of the argument is chosen (longest name wins)");
      if ((handler == H_SHUFFLE || handler == H_OUTPUT || (handler >= H_T && handler <= H_XST)) && !stub_result) reject = 1;
    } else CHECK(nseen == 0, "no handler runs");
    CHECK((ok == 0) == (reject != 0), "rejected iff help is wanted, the argument is no documented option, or the handler rejects its value");
    if (!reject) compare(&e);
  }
  WITNESS("end");
}

/* ================================================================ group 'cl' */
/* ---------------------------------------------------------------- the handlers, called directly, on arbitrary bytes */
#ifndef TAILMAX
#define TAILMAX 4
#endif
#define PROBE() IN_ARR_U8(pg, 3); IN_ARR_U8(pn, 3); pg[2] = 0; pn[2] = 0
enum { K_REPEAT, K_SHUFFLE, K_G, K_SG, K_XG, K_XSG, K_N, K_SN, K_XN, K_XSN, K_T, K_ST, K_XT, K_XST, K_TEST, K_IGNORE_TEST, K_OUTPUT, K_PACKAGE };
static const char* const kname[] = { "-r", "-s", "-g", "-sg", "-xg", "-xsg", "-n", "-sn", "-xn", "-xsn", "-t", "-st", "-xt", "-xst", "TEST(", "IGNORE_TEST(", "-o", "-k" };
/* the value of an option: what follows its name in the argument, else the next argument (consumed), else nothing */
static const uint8_t* ref_value(const uint8_t* tail, const uint8_t* next, int AC, int* consumed) {
  *consumed = 0;
  if (tail[0]) return tail;
  if (AC == 3) { *consumed = 1; return next; }
  return (const uint8_t*)"";
}
/* filters: -g -sg -xg -xsg -n -sn -xn -xsn */
static void body_harness_handler_filter(const int KIND, const int AC) {
  static const uint32_t bits[] = { 0, STRICT, INVERT, STRICT | INVERT };
  h_init();
  IN_ARR_U8(tail, TAILMAX + 1); IN_ARR_U8(a2, 3); PROBE();
  tail[TAILMAX] = 0; a2[2] = 0;
  TEXT(a1); catlit(a1, kname[KIND]); cat(a1, tail);
  uint32_t ok = h_handler(KIND, AC, a1, a2, pg, pn);
  OBSERVE(ok); OBSERVE(h_index()); OBSERVE(h_probe_runs());
  int consumed; const uint8_t* v = ref_value(tail, a2, AC, &consumed);
  const int which = (KIND - K_G) / 4; const uint32_t b = bits[(KIND - K_G) % 4];
  struct expect e; defaults(&e); add_filter(&e, which, v, b);
  CHECK(h_index() == 1 + consumed, "the next argument is consumed iff the value is not attached");
  compare(&e);                                                   /* for every value, not only identifier-like ones */
  const uint8_t* subject = which == 0 ? pg : pn;
  int matches = (b & STRICT) ? t_eq(subject, v) : t_contains(subject, v);
  CHECK((h_probe_runs() != 0) == ((b & INVERT) ? !matches : matches), "a test is selected iff its group/name contains (exactly matches with s) the value; excluded instead with x");
  WITNESS("end");
}
/* -r[<#>] and -s [<seed>] */
static void body_harness_handler_number(const int KIND, const int AC) {
  h_init();
  IN_ARR_U8(tail, TAILMAX + 1); IN_ARR_U8(a2, 3); IN_U64(now);
  tail[TAILMAX] = 0; a2[2] = 0;
  env_now_millis = now;
  TEXT(a1); catlit(a1, kname[KIND]); cat(a1, tail);
  uint32_t ok = h_handler(KIND, AC, a1, a2, 0, 0);
  OBSERVE(ok); OBSERVE(h_index()); OBSERVE(h_repeat()); OBSERVE(h_seed());
  CHECK(h_index() == 1 || (h_index() == 2 && AC == 3 && !tail[0]), "at most the next argument is consumed, and only when nothing is attached");
  struct expect e; defaults(&e);
  /* documented shapes: number attached, number in the next argument, or no number */
  /* the next argument, if any, is a plain number or clearly not one (empty, or another option) */
  const int next_plain = AC == 2 || !a2[0] || digit_text(a2) || (a2[0] == '-' && !is_digit(a2[1]));
  if (tail[0] ? digit_text(tail) : next_plain) {
    const int has_next_number = !tail[0] && AC == 3 && digit_text(a2) && decimal(a2) != 0;
    uint64_t value = tail[0] ? decimal(tail) : has_next_number ? decimal(a2) : 0;
    if (KIND == K_REPEAT) {
      e.repeat = value ? value : 2;                               /* twice if <#> is not specified */
      if (tail[0] && !value) { /* -r0: the help text does not say */ } else { CHECK(ok == 1, "-r accepted"); compare(&e); CHECK(h_index() == 1 + has_next_number, "a number in the next argument is consumed"); }
    } else {
      if (tail[0] && !value) CHECK(ok == 0, "a seed must be greater than 0");
      else { e.flag[F_SHUFFLE] = 1; e.seed_known = value != 0; e.seed = value; CHECK(ok == 1, "-s accepted"); compare(&e); CHECK(h_index() == 1 + has_next_number, "a seed in the next argument is consumed"); }
    }
    WITNESS("documented shape");
  }
  WITNESS("end");
}
/* -o{normal|eclipse|junit|teamcity} and -k <packageName> */
static void body_harness_handler_output(const int AC) {
  h_init();
  IN_ARR_U8(tail, 9); IN_ARR_U8(a2, 9);
  tail[8] = 0; a2[8] = 0;
  TEXT(a1); catlit(a1, "-o"); cat(a1, tail);
  uint32_t ok = h_handler(K_OUTPUT, AC, a1, a2, 0, 0);
  OBSERVE(ok); OBSERVE(h_index());
  int consumed; const uint8_t* v = ref_value(tail, a2, AC, &consumed);
  struct expect e; defaults(&e);
  int known = 1;
  if (t_is(v, "normal") || t_is(v, "eclipse")) e.flag[F_ECLIPSE] = 1;
  else if (t_is(v, "junit")) { e.flag[F_ECLIPSE] = 0; e.flag[F_JUNIT] = 1; }
  else if (t_is(v, "teamcity")) { e.flag[F_ECLIPSE] = 0; e.flag[F_TEAMCITY] = 1; }
  else known = 0;
  CHECK((ok != 0) == known, "exactly the four documented output kinds are accepted");
  CHECK(h_index() == 1 + consumed, "the next argument is consumed iff the kind is not attached");
  compare(&e);                                                     /* an unknown kind leaves the default */
  if (known) WITNESS("documented shape");
  WITNESS("end");
}
static void body_harness_handler_package(const int AC) {
  h_init();
  IN_ARR_U8(tail, TAILMAX + 1); IN_ARR_U8(a2, 3);
  tail[TAILMAX] = 0; a2[2] = 0;
  TEXT(a1); catlit(a1, "-k"); cat(a1, tail);
  uint32_t ok = h_handler(K_PACKAGE, AC, a1, a2, 0, 0);
  OBSERVE(ok); OBSERVE(h_index());
  int consumed; const uint8_t* v = ref_value(tail, a2, AC, &consumed);
  struct expect e; defaults(&e); cat(e.package, v);
  CHECK(h_index() == 1 + consumed, "the next argument is consumed iff the name is not attached");
  compare(&e);
  WITNESS("end");
}
/* -t -st -xt -xst <group>.<name> on arbitrary bytes */
#ifndef DMAX
#define DMAX 3
#endif
static void body_harness_handler_dotted(const int KIND, const int SHAPE) {   /* SHAPE 0: any 1..2 bytes; 1: any byte, a dot, any byte or nothing */
  static const uint32_t bitsof[] = { 0, STRICT, INVERT, STRICT | INVERT };
  h_init();
  IN_ARR_U8(val, DMAX + 1); PROBE(); val[DMAX] = 0;
  if (SHAPE == 0) val[2] = 0; else val[1] = '.';
  TEXT(a1); catlit(a1, kname[KIND]); cat(a1, val);
  ASSUME(val[0] != 0);                       /* an empty value would take the next argument (covered by harness_param_field) */
  uint32_t ok = h_handler(KIND, 2, a1, 0, pg, pn);
  OBSERVE(ok); OBSERVE(h_nfilters(0)); OBSERVE(h_probe_runs());
  const uint32_t bits = bitsof[KIND - K_T];
  uint64_t l = t_len(val), dots = 0, first = l;
  for (uint64_t k = 0; k < DMAX; k++) if (k < l && val[k] == '.') { if (first == l) first = k; dots++; }
  if (dots == 1 && first + 1 < l) CHECK(ok == 1, "<group>.<name> with a single dot is accepted");
  if (dots == 0) CHECK(ok == 0, "a value without a dot is rejected");
  if (ok) {
    TEXT(g); TEXT(n);
    for (uint64_t k = 0; k < DMAX; k++) { if (k < first) g[k] = val[k]; if (first + 1 + k < l) n[k] = val[first + 1 + k]; }
    struct expect e; defaults(&e); add_filter(&e, 0, g, bits); add_filter(&e, 1, n, bits);
    compare(&e);                                                   /* the group is the text before the dot, the name the text after it */
    int gm = (bits & STRICT) ? t_eq(pg, g) : t_contains(pg, g);
    int nm = (bits & STRICT) ? t_eq(pn, n) : t_contains(pn, n);
#ifdef KF_C12_1
    if (bits & INVERT) ASSUME(gm == nm);   /* open finding: -xt/-xst also exclude tests of which only the group or only the name matches */
#endif
    int runs = (bits & INVERT) ? !(gm && nm) : (gm && nm);         /* "group AND name contain/match": run only those / exclude those */
    CHECK((h_probe_runs() != 0) == runs, "a test is selected iff its group and name both contain (exactly match) the values; with x exactly those tests are excluded");
    WITNESS("accepted");
  } else CHECK(h_nfilters(0) == 0 && h_nfilters(1) == 0, "a rejected value adds no filter");
  WITNESS("end");
}
/* "TEST(group, name)" / "IGNORE_TEST(group, name)" on arbitrary bytes; for the documented shape the group and name come out */
#ifndef KMAX
#define KMAX 6
#endif
static void body_harness_handler_testform(const int IGNORE) {
  h_init();
  IN_ARR_U8(rest, KMAX + 1); PROBE(); rest[KMAX] = 0;
  TEXT(a1); catlit(a1, IGNORE ? "IGNORE_TEST(" : "TEST("); cat(a1, rest);
  ASSUME(rest[0] != 0);                      /* an empty rest would take the next argument (covered by harness_param_field) */
  h_handler(IGNORE ? K_IGNORE_TEST : K_TEST, 2, a1, 0, pg, pn);
  OBSERVE(h_nfilters(0)); OBSERVE(h_filter_len(0, 0)); OBSERVE(h_filter_len(1, 0)); OBSERVE(h_probe_runs());
  CHECK(h_index() == 1 && h_nfilters(0) == 1 && h_nfilters(1) == 1 && h_filter_bits(0, 0) == STRICT && h_filter_bits(1, 0) == STRICT, "one exact group filter and one exact name filter");
  /* documented shape  <group>, <name>)  with group and name free of ',' and ')' */
  uint64_t l = t_len(rest), c = 0, p;
  while (c < KMAX && c < l && rest[c] != ',') c++;
  p = c; while (p < KMAX && p < l && rest[p] != ')') p++;
  int comma_free_name = 1, group_has_paren = 0;
  for (uint64_t k = 0; k < KMAX; k++) { if (k > c && k < p && rest[k] == ',') comma_free_name = 0; if (k < c && rest[k] == ')') group_has_paren = 1; }
  if (c >= 1 && c + 1 < l && rest[c + 1] == ' ' && p < l && p >= c + 3 && comma_free_name && !group_has_paren) {
    TEXT(g); TEXT(n);
    for (uint64_t k = 0; k < KMAX; k++) { if (k < c) g[k] = rest[k]; if (c + 2 + k < p) n[k] = rest[c + 2 + k]; }
    struct expect e; defaults(&e); add_filter(&e, 0, g, STRICT); add_filter(&e, 1, n, STRICT);
    compare(&e);                                                   /* the group is the text before the comma, the name the text between ", " and ")" */
    CHECK((h_probe_runs() != 0) == (t_eq(pg, g) && t_eq(pn, n)), "exactly the named test is selected");
    WITNESS("documented shape");
  }
  WITNESS("end");
}
/* getParameterField: the value is what follows the option name in the same argument, else the next argument, else nothing */
static void body_harness_param_field(const int NK, const int AC) {
  static const char* const names[] = { "-g", "-sg", "-xsg", "TEST(", "IGNORE_TEST(" };
  h_init();
  IN_ARR_U8(tail, KMAX + 1); IN_ARR_U8(a2, 3); IN_U32(cut);
  tail[KMAX] = 0; a2[2] = 0;
  const uint8_t* name = (const uint8_t*)names[NK];
  /* the argument: the option's name, possibly cut short, followed by arbitrary bytes */
  TEXT(a1); catlit(a1, names[NK]);
  uint64_t ln = t_len(name);
  ASSUME(cut <= 1); if (cut) { a1[ln - 1] = 0; ASSUME(tail[0] == 0); }
  cat(a1, tail);
  uint32_t idx = h_param_field(AC, a1, a2, (uint8_t*)name);
  OBSERVE(idx); OBSERVE(h_field_len());
  uint64_t la = t_len(a1);
  int same; uint32_t widx = 1;
  if (la > ln) { same = h_field_len() == la - ln; for (uint64_t k = 0; k < KMAX; k++) { if (ln + k >= la) break; if (h_field_char(k) != a1[ln + k]) same = 0; } }
  else if (AC == 3) { widx = 2; same = h_field_len() == t_len(a2); for (uint64_t k = 0; k < 2; k++) { if (!a2[k]) break; if (h_field_char(k) != a2[k]) same = 0; } }
  else same = h_field_len() == 0;
  CHECK(idx == widx, "the next argument is consumed only when the value is not attached");
  CHECK(same, "the value is the rest of the argument, else the next argument, else empty");
  WITNESS("end");
}
/* TestFilter::match */
HARNESS(harness_filter_match) {
  h_init();
  IN_ARR_U8(f, 4); IN_ARR_U8(name, 5); IN_BOOL(strict); IN_BOOL(invert); f[3] = 0; name[4] = 0;
  uint32_t r = h_filter_match(f, strict, invert, name);
  OBSERVE(r);
  int m = strict ? t_eq(name, f) : t_contains(name, f);
  CHECK((r != 0) == (invert ? !m : m), "match: contains, or equals when strict; negated when inverted");
  WITNESS("end");
}

/* ---------------------------------------------------------------- the whole parser, end to end, on representative values
 * (concrete texts: the symbolic executor then runs exactly the path a user gets; form, order and the probe test stay symbolic) */
#define PARSE_EITHER(ok, separated, opt, val, g, n) do { \
    TEXT(att_); cat(att_, opt); cat(att_, val); \
    if (separated) ok = h_parse(3, opt, val, 0, g, n); else ok = h_parse(2, att_, 0, 0, g, n); } while (0)
static void body_harness_flag(const int KIND) {
  static const char* const opt[] = { "-h", "-v", "-vv", "-c", "-p", "-b", "-lg", "-ln", "-ll", "-ri", "-f", "-e", "-ci" };
  static const int flag[] = { F_HELP, F_VERBOSE, F_VERYVERBOSE, F_COLOR, F_SEPARATE, F_REVERSE, F_LISTGROUPS, F_LISTNAMES, F_LISTLOCATIONS, F_RUNIGNORED, F_CRASH, F_RETHROW, F_RETHROW };
  h_init(); PROBE();
  struct expect e; defaults(&e);
  e.flag[flag[KIND]] = (flag[KIND] == F_RETHROW) ? 0 : 1;
  uint32_t ok = h_parse(2, (uint8_t*)opt[KIND], 0, 0, pg, pn);
  OBSERVE(ok);
  if (KIND == 0) { CHECK(ok == 0 && h_flag(F_HELP), "-h: help is wanted and the vector rejected (no test runs)"); }
  else { CHECK(ok == 1, "documented option accepted"); compare(&e); CHECK(h_probe_runs() != 0, "no filter option: every test is selected"); }
  WITNESS("end");
}
/* every valued option with a representative value, attached or separated, alone or together with a flag in either order */
static void body_harness_e2e(const int KIND) {
  static const char* const value[] = { "12", "7", "aB", "aB", "aB", "aB", "aB", "aB", "aB", "aB", "aB.c_", "aB.c_", "aB.c_", "aB.c_", "aB, c_)", "aB, c_)", "junit", "pk" };
  static const uint32_t bits[] = { 0, STRICT, INVERT, STRICT | INVERT };
  h_init(); PROBE(); IN_BOOL(separated); IN_BOOL(withFlag); IN_BOOL(flagFirst); IN_U64(now);
  env_now_millis = now;
  TEXT(o); catlit(o, kname[KIND]); TEXT(v); catlit(v, value[KIND]);
  TEXT(att); cat(att, o); cat(att, v);
  const int separable = KIND != K_TEST && KIND != K_IGNORE_TEST;        /* the TEST(...) forms are one (quoted) argument */
  uint32_t ok;
  if (!withFlag) { if (separable && separated) ok = h_parse(3, o, v, 0, pg, pn); else ok = h_parse(2, att, 0, 0, pg, pn); }
  else if (separable && separated) { if (flagFirst) ok = h_parse(4, (uint8_t*)"-v", o, v, pg, pn); else ok = h_parse(4, o, v, (uint8_t*)"-v", pg, pn); }
  else { if (flagFirst) ok = h_parse(3, (uint8_t*)"-v", att, 0, pg, pn); else ok = h_parse(3, att, (uint8_t*)"-v", 0, pg, pn); }
  OBSERVE(ok); OBSERVE(h_probe_runs());
  struct expect e; defaults(&e);
  if (withFlag) e.flag[F_VERBOSE] = 1;
  int runs = 1;
  const uint8_t* G = (const uint8_t*)"aB"; const uint8_t* N = (const uint8_t*)"c_";
  if (KIND == K_REPEAT) e.repeat = 12;
  else if (KIND == K_SHUFFLE) { e.flag[F_SHUFFLE] = 1; e.seed_known = 1; e.seed = 7; }
  else if (KIND >= K_G && KIND <= K_XSN) {
    const int which = (KIND - K_G) / 4; const uint32_t b = bits[(KIND - K_G) % 4];
    add_filter(&e, which, G, b);
    int m = (b & STRICT) ? t_eq(which ? pn : pg, G) : t_contains(which ? pn : pg, G);
    runs = (b & INVERT) ? !m : m;
  } else if (KIND >= K_T && KIND <= K_IGNORE_TEST) {
    const uint32_t b = KIND >= K_TEST ? STRICT : bits[KIND - K_T];
    add_filter(&e, 0, G, b); add_filter(&e, 1, N, b);
    int gm = (b & STRICT) ? t_eq(pg, G) : t_contains(pg, G), nm = (b & STRICT) ? t_eq(pn, N) : t_contains(pn, N);
#ifdef KF_C12_1
    if (b & INVERT) ASSUME(gm == nm);
#endif
    runs = (b & INVERT) ? !(gm && nm) : (gm && nm);
  } else if (KIND == K_OUTPUT) { e.flag[F_ECLIPSE] = 0; e.flag[F_JUNIT] = 1; }
  else cat(e.package, (const uint8_t*)"pk");
  CHECK(ok == 1, "documented options accepted in either form and order"); compare(&e);
  CHECK((h_probe_runs() != 0) == runs, "the tests selected are the documented ones");
  WITNESS("end");
}
/* an argument that is rejected (-h, no documented option, or a value its handler refuses) rejects the whole vector, whatever
 * documented option stands before or after it: the REAL handlers run here, so a later handler's "accepted" must not overwrite the
 * earlier rejection.  (Which single arguments are rejected is decided on all bytes by the dispatch and handler obligations; this
 * one composes them: rejected argument BAD x documented option KIND (both concrete per obligation) x order.) */
static void body_harness_e2e_reject(const int BAD, const int KIND) {
  static const char* const value[] = { "12", "7", "aB", "aB", "aB", "aB", "aB", "aB", "aB", "aB", "aB.c_", "aB.c_", "aB.c_", "aB.c_", "aB, c_)", "aB, c_)", "junit", "pk" };
  static const char* const bad[] = { "-h", "-w", "", "x", "-tab", "-oxx", "-s0", "-pq" };
  h_init(); IN_BOOL(badFirst); IN_U64(now);
  env_now_millis = now;
  TEXT(att); catlit(att, kname[KIND]); catlit(att, value[KIND]);
  TEXT(b); catlit(b, bad[BAD]);
  uint32_t ok = badFirst ? h_parse(3, b, att, 0, 0, 0) : h_parse(3, att, b, 0, 0, 0);
  OBSERVE(ok);
  CHECK(ok == 0, "a vector containing -h, an undocumented argument or a refused value is rejected, wherever that argument stands");
  WITNESS("end");
}
/* the options that may come without a value, followed by another option: nothing of the next option is swallowed */
static void body_harness_e2e_bare(const int SHUFFLE) {
  h_init(); IN_BOOL(flagFirst); IN_U64(now);
  env_now_millis = now;
  uint32_t ok;
  if (flagFirst) ok = h_parse(3, (uint8_t*)"-c", (uint8_t*)(SHUFFLE ? "-s" : "-r"), 0, 0, 0); else ok = h_parse(3, (uint8_t*)(SHUFFLE ? "-s" : "-r"), (uint8_t*)"-c", 0, 0, 0);
  struct expect e; defaults(&e); e.flag[F_COLOR] = 1;
  if (SHUFFLE) e.flag[F_SHUFFLE] = 1; else e.repeat = 2;
  OBSERVE(ok); OBSERVE(h_seed());
  CHECK(ok == 1, "accepted"); compare(&e);
  WITNESS("end");
}

/* ---------------------------------------------------------------- open finding KF_C12_1 (not part of spec.py: FAILS)
 * help: "-xt <grp>.<name> - exclude tests whose group and name contain <grp> and <name>"; the parser adds an inverted
 * group filter AND an inverted name filter, so a test of which only the group (or only the name) matches is excluded too. */
HARNESS(finding_exclude_dotted) {
  h_init();
  uint32_t ok = h_parse(2, (uint8_t*)"-xtG.a", 0, 0, (uint8_t*)"G", (uint8_t*)"b");     /* TEST(G, b) is not TEST(G, a) */
  CHECK(ok == 1, "accepted");
  CHECK(h_probe_runs() != 0, "-xt G.a must not exclude TEST(G, b)");
  WITNESS("end");
}
/* second observation (no obligation covers two filters of one kind, so nothing is guarded): help: "-xg <group> - exclude tests
 * whose group contains <group>"; given twice, a test is run as soon as ONE of the exclusions does not apply to it. */
HARNESS(finding_two_excludes) {
  h_init();
  uint32_t ok = h_parse(3, (uint8_t*)"-xgA", (uint8_t*)"-xgB", 0, (uint8_t*)"A", (uint8_t*)"t");  /* group A is excluded by the first option */
  CHECK(ok == 1, "accepted");
  CHECK(h_probe_runs() == 0, "-xg A -xg B must exclude the tests of group A");
  WITNESS("end");
}

#define K1(f, k) HARNESS(f##_##k) { body_##f(k); }
#define K2(f, k, c) HARNESS(f##_##k##_##c) { body_##f(k, c); }
K1(harness_dispatch, 0) K1(harness_dispatch, 1) K1(harness_dispatch, 2) K1(harness_dispatch, 3)
K1(harness_dispatch_near, 0) K1(harness_dispatch_near, 1) K1(harness_dispatch_near, 2) K1(harness_dispatch_near, 3) K1(harness_dispatch_near, 4) K1(harness_dispatch_near, 5) K1(harness_dispatch_near, 6) K1(harness_dispatch_near, 7) K1(harness_dispatch_near, 8)
K1(harness_dispatch_near, 9) K1(harness_dispatch_near, 10) K1(harness_dispatch_near, 11) K1(harness_dispatch_near, 12) K1(harness_dispatch_near, 13) K1(harness_dispatch_near, 14) K1(harness_dispatch_near, 15) K1(harness_dispatch_near, 16) K1(harness_dispatch_near, 17)
K2(harness_handler_filter, 2, 2) K2(harness_handler_filter, 3, 2) K2(harness_handler_filter, 4, 2) K2(harness_handler_filter, 5, 2) K2(harness_handler_filter, 6, 2) K2(harness_handler_filter, 7, 2) K2(harness_handler_filter, 8, 2) K2(harness_handler_filter, 9, 2)
K2(harness_handler_filter, 2, 3) K2(harness_handler_filter, 3, 3) K2(harness_handler_filter, 4, 3) K2(harness_handler_filter, 5, 3) K2(harness_handler_filter, 6, 3) K2(harness_handler_filter, 7, 3) K2(harness_handler_filter, 8, 3) K2(harness_handler_filter, 9, 3)
K2(harness_handler_number, 0, 2) K2(harness_handler_number, 0, 3) K2(harness_handler_number, 1, 2) K2(harness_handler_number, 1, 3)
K1(harness_handler_output, 2) K1(harness_handler_output, 3) K1(harness_handler_package, 2) K1(harness_handler_package, 3)
K2(harness_handler_dotted, 10, 0) K2(harness_handler_dotted, 11, 0) K2(harness_handler_dotted, 12, 0) K2(harness_handler_dotted, 13, 0) K2(harness_handler_dotted, 10, 1) K2(harness_handler_dotted, 11, 1) K2(harness_handler_dotted, 12, 1) K2(harness_handler_dotted, 13, 1)
K1(harness_handler_testform, 0) K1(harness_handler_testform, 1)
K2(harness_param_field, 0, 2) K2(harness_param_field, 0, 3) K2(harness_param_field, 1, 2) K2(harness_param_field, 1, 3) K2(harness_param_field, 2, 2) K2(harness_param_field, 2, 3)
K2(harness_param_field, 3, 2) K2(harness_param_field, 3, 3) K2(harness_param_field, 4, 2) K2(harness_param_field, 4, 3)
K1(harness_flag, 0) K1(harness_flag, 1) K1(harness_flag, 2) K1(harness_flag, 3) K1(harness_flag, 4) K1(harness_flag, 5) K1(harness_flag, 6)
K1(harness_flag, 7) K1(harness_flag, 8) K1(harness_flag, 9) K1(harness_flag, 10) K1(harness_flag, 11) K1(harness_flag, 12)
K1(harness_e2e, 0) K1(harness_e2e, 1) K1(harness_e2e, 2) K1(harness_e2e, 3) K1(harness_e2e, 4) K1(harness_e2e, 5) K1(harness_e2e, 6) K1(harness_e2e, 7) K1(harness_e2e, 8)
K1(harness_e2e, 9) K1(harness_e2e, 10) K1(harness_e2e, 11) K1(harness_e2e, 12) K1(harness_e2e, 13) K1(harness_e2e, 14) K1(harness_e2e, 15) K1(harness_e2e, 16) K1(harness_e2e, 17)
K1(harness_e2e_bare, 0) K1(harness_e2e_bare, 1)
K2(harness_e2e_reject, 0, 0) K2(harness_e2e_reject, 0, 1) K2(harness_e2e_reject, 0, 2) K2(harness_e2e_reject, 0, 3) K2(harness_e2e_reject, 0, 4) K2(harness_e2e_reject, 0, 5) K2(harness_e2e_reject, 0, 6) K2(harness_e2e_reject, 0, 7) K2(harness_e2e_reject, 0, 8) K2(harness_e2e_reject, 0, 9) K2(harness_e2e_reject, 0, 10) K2(harness_e2e_reject, 0, 11) K2(harness_e2e_reject, 0, 12) K2(harness_e2e_reject, 0, 13) K2(harness_e2e_reject, 0, 14) K2(harness_e2e_reject, 0, 15) K2(harness_e2e_reject, 0, 16) K2(harness_e2e_reject, 0, 17)
K2(harness_e2e_reject, 1, 0) K2(harness_e2e_reject, 1, 1) K2(harness_e2e_reject, 1, 2) K2(harness_e2e_reject, 1, 3) K2(harness_e2e_reject, 1, 4) K2(harness_e2e_reject, 1, 5) K2(harness_e2e_reject, 1, 6) K2(harness_e2e_reject, 1, 7) K2(harness_e2e_reject, 1, 8) K2(harness_e2e_reject, 1, 9) K2(harness_e2e_reject, 1, 10) K2(harness_e2e_reject, 1, 11) K2(harness_e2e_reject, 1, 12) K2(harness_e2e_reject, 1, 13) K2(harness_e2e_reject, 1, 14) K2(harness_e2e_reject, 1, 15) K2(harness_e2e_reject, 1, 16) K2(harness_e2e_reject, 1, 17)
K2(harness_e2e_reject, 2, 0) K2(harness_e2e_reject, 2, 1) K2(harness_e2e_reject, 2, 2) K2(harness_e2e_reject, 2, 3) K2(harness_e2e_reject, 2, 4) K2(harness_e2e_reject, 2, 5) K2(harness_e2e_reject, 2, 6) K2(harness_e2e_reject, 2, 7) K2(harness_e2e_reject, 2, 8) K2(harness_e2e_reject, 2, 9) K2(harness_e2e_reject, 2, 10) K2(harness_e2e_reject, 2, 11) K2(harness_e2e_reject, 2, 12) K2(harness_e2e_reject, 2, 13) K2(harness_e2e_reject, 2, 14) K2(harness_e2e_reject, 2, 15) K2(harness_e2e_reject, 2, 16) K2(harness_e2e_reject, 2, 17)
K2(harness_e2e_reject, 3, 0) K2(harness_e2e_reject, 3, 1) K2(harness_e2e_reject, 3, 2) K2(harness_e2e_reject, 3, 3) K2(harness_e2e_reject, 3, 4) K2(harness_e2e_reject, 3, 5) K2(harness_e2e_reject, 3, 6) K2(harness_e2e_reject, 3, 7) K2(harness_e2e_reject, 3, 8) K2(harness_e2e_reject, 3, 9) K2(harness_e2e_reject, 3, 10) K2(harness_e2e_reject, 3, 11) K2(harness_e2e_reject, 3, 12) K2(harness_e2e_reject, 3, 13) K2(harness_e2e_reject, 3, 14) K2(harness_e2e_reject, 3, 15) K2(harness_e2e_reject, 3, 16) K2(harness_e2e_reject, 3, 17)
K2(harness_e2e_reject, 4, 0) K2(harness_e2e_reject, 4, 1) K2(harness_e2e_reject, 4, 2) K2(harness_e2e_reject, 4, 3) K2(harness_e2e_reject, 4, 4) K2(harness_e2e_reject, 4, 5) K2(harness_e2e_reject, 4, 6) K2(harness_e2e_reject, 4, 7) K2(harness_e2e_reject, 4, 8) K2(harness_e2e_reject, 4, 9) K2(harness_e2e_reject, 4, 10) K2(harness_e2e_reject, 4, 11) K2(harness_e2e_reject, 4, 12) K2(harness_e2e_reject, 4, 13) K2(harness_e2e_reject, 4, 14) K2(harness_e2e_reject, 4, 15) K2(harness_e2e_reject, 4, 16) K2(harness_e2e_reject, 4, 17)
K2(harness_e2e_reject, 5, 0) K2(harness_e2e_reject, 5, 1) K2(harness_e2e_reject, 5, 2) K2(harness_e2e_reject, 5, 3) K2(harness_e2e_reject, 5, 4) K2(harness_e2e_reject, 5, 5) K2(harness_e2e_reject, 5, 6) K2(harness_e2e_reject, 5, 7) K2(harness_e2e_reject, 5, 8) K2(harness_e2e_reject, 5, 9) K2(harness_e2e_reject, 5, 10) K2(harness_e2e_reject, 5, 11) K2(harness_e2e_reject, 5, 12) K2(harness_e2e_reject, 5, 13) K2(harness_e2e_reject, 5, 14) K2(harness_e2e_reject, 5, 15) K2(harness_e2e_reject, 5, 16) K2(harness_e2e_reject, 5, 17)
K2(harness_e2e_reject, 6, 0) K2(harness_e2e_reject, 6, 1) K2(harness_e2e_reject, 6, 2) K2(harness_e2e_reject, 6, 3) K2(harness_e2e_reject, 6, 4) K2(harness_e2e_reject, 6, 5) K2(harness_e2e_reject, 6, 6) K2(harness_e2e_reject, 6, 7) K2(harness_e2e_reject, 6, 8) K2(harness_e2e_reject, 6, 9) K2(harness_e2e_reject, 6, 10) K2(harness_e2e_reject, 6, 11) K2(harness_e2e_reject, 6, 12) K2(harness_e2e_reject, 6, 13) K2(harness_e2e_reject, 6, 14) K2(harness_e2e_reject, 6, 15) K2(harness_e2e_reject, 6, 16) K2(harness_e2e_reject, 6, 17)
K2(harness_e2e_reject, 7, 0) K2(harness_e2e_reject, 7, 1) K2(harness_e2e_reject, 7, 2) K2(harness_e2e_reject, 7, 3) K2(harness_e2e_reject, 7, 4) K2(harness_e2e_reject, 7, 5) K2(harness_e2e_reject, 7, 6) K2(harness_e2e_reject, 7, 7) K2(harness_e2e_reject, 7, 8) K2(harness_e2e_reject, 7, 9) K2(harness_e2e_reject, 7, 10) K2(harness_e2e_reject, 7, 11) K2(harness_e2e_reject, 7, 12) K2(harness_e2e_reject, 7, 13) K2(harness_e2e_reject, 7, 14) K2(harness_e2e_reject, 7, 15) K2(harness_e2e_reject, 7, 16) K2(harness_e2e_reject, 7, 17)
