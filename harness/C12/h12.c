/* C12: every argv is parsed safely; documented options mean what the help text says.
 *
 * The reference below is written from the usage/help text of the runner:
 *   flags   -h -v -vv -c -p -b -lg -ln -ll -ri -f -e -ci
 *   -r[<#>] repeat <#> times (twice if not given)          -s [<seed>] shuffle, seed optional and > 0
 *   -g/-sg/-xg/-xsg <group>   -n/-sn/-xn/-xsn <name>        contains / exactly matches, run only / exclude
 *   -t/-st/-xt/-xst <group>.<name>                          the same for group and name together
 *   "TEST(<group>, <name>)" "IGNORE_TEST(<group>, <name>)"  group and name exactly match
 *   -o{normal|eclipse|junit|teamcity}    -k <packageName>
 * Values are given attached to the option or as the next argument. */
#include "env.c"
#include "translated.h"

/* ---------------------------------------------------------------- textbook helpers */
static uint64_t t_len(const uint8_t* s) { uint64_t n = 0; while (s[n]) n++; return n; }
static int t_eq(const uint8_t* a, const uint8_t* b) { uint64_t i = 0; while (a[i] && a[i] == b[i]) i++; return a[i] == b[i]; }
static int t_contains(const uint8_t* hay, const uint8_t* nee) {
  uint64_t lh = t_len(hay), ln = t_len(nee);
  for (uint64_t i = 0; i + ln <= lh; i++) { int ok = 1; for (uint64_t j = 0; j < ln; j++) if (hay[i + j] != nee[j]) ok = 0; if (ok) return 1; }
  return 0;
}
static int is_ident(uint8_t c) { return (c >= 'a' && c <= 'z') || (c >= 'A' && c <= 'Z') || (c >= '0' && c <= '9') || c == '_'; }
static int is_digit(uint8_t c) { return c >= '0' && c <= '9'; }
static void cat(uint8_t* dst, const uint8_t* src) { uint64_t n = t_len(dst), i = 0; for (; src[i]; i++) dst[n + i] = src[i]; dst[n + i] = 0; }
static void catlit(uint8_t* dst, const char* src) { cat(dst, (const uint8_t*)src); }

/* ---------------------------------------------------------------- the expected configuration */
enum { F_HELP, F_VERBOSE, F_VERYVERBOSE, F_COLOR, F_SEPARATE, F_REVERSE, F_LISTGROUPS, F_LISTNAMES, F_LISTLOCATIONS, F_RUNIGNORED,
       F_CRASH, F_RETHROW, F_SHUFFLE, F_JUNIT, F_TEAMCITY, F_ECLIPSE, NFLAGS };
#define STRICT 1u
#define INVERT 2u
struct fexp { uint8_t text[8]; uint32_t bits; };
struct expect {
  uint32_t flag[NFLAGS]; uint64_t repeat; uint32_t seed_known; uint64_t seed;
  uint32_t nf[2]; struct fexp f[2][3];            /* [0] group filters, [1] name filters; most recent option first */
  uint8_t package[8];
};
static void defaults(struct expect* e) {
  for (int i = 0; i < NFLAGS; i++) e->flag[i] = 0;
  e->flag[F_RETHROW] = 1; e->flag[F_ECLIPSE] = 1;   /* unexpected exceptions are rethrown unless -e/-ci; no output files unless asked */
  e->repeat = 1; e->seed_known = 0; e->seed = 0; e->nf[0] = e->nf[1] = 0; e->package[0] = 0;
}
static void add_filter(struct expect* e, int which, const uint8_t* text, uint32_t bits) {
  for (int i = 2; i > 0; i--) e->f[which][i] = e->f[which][i - 1];
  e->f[which][0].text[0] = 0; cat(e->f[which][0].text, text); e->f[which][0].bits = bits; e->nf[which]++;
}
static void compare(const struct expect* e) {
  int flags_ok = 1;
  for (int i = 0; i < NFLAGS; i++) if ((h_flag(i) != 0) != (e->flag[i] != 0)) flags_ok = 0;
  CHECK(flags_ok, "flags: exactly the documented ones are set (verbosity, colour, separate process, reverse, list modes, run-ignored, crash, rethrow, shuffle, output kind)");
  CHECK(h_repeat() == e->repeat, "repeat count is the documented one");
  if (e->flag[F_SHUFFLE]) { if (e->seed_known) CHECK(h_seed() == e->seed, "shuffle seed is the given one"); else CHECK(h_seed() != 0, "shuffle seed: some seed greater than 0"); }
  for (int w = 0; w < 2; w++) {
    CHECK(h_nfilters(w) == e->nf[w], "number of group / name filters");
    for (uint32_t i = 0; i < e->nf[w] && i < 3; i++) {
      int same = h_filter_len(w, i) == t_len(e->f[w][i].text);
      for (uint64_t k = 0; same && k < t_len(e->f[w][i].text); k++) if (h_filter_char(w, i, k) != e->f[w][i].text[k]) same = 0;
      CHECK(same, "filter text is the given group / name");
      CHECK(h_filter_bits(w, i) == e->f[w][i].bits, "filter kind: contains or exact (s), run-only or exclude (x)");
    }
  }
  int psame = h_package_len() == t_len(e->package);
  for (uint64_t k = 0; psame && k < t_len(e->package); k++) if (h_package_char(k) != e->package[k]) psame = 0;
  CHECK(psame, "package name is the given one");
}

/* ---------------------------------------------------------------- H1: safety on arbitrary bytes */
#ifndef A1MAX
#define A1MAX 3
#endif
#ifndef A2MAX
#define A2MAX 2
#endif
#ifndef ACMAX
#define ACMAX 3
#endif
HARNESS(harness_safety) {
  h_init();
  IN_U32(ac); IN_ARR_U8(a1, A1MAX + 1); IN_ARR_U8(a2, A2MAX + 1); IN_U64(now);
  ASSUME(ac <= ACMAX); a1[A1MAX] = 0; a2[A2MAX] = 0;
  env_now_millis = now;
  uint32_t ok = h_parse(ac, a1, a2, 0, 0, 0);
  OBSERVE(ok); OBSERVE(h_flag(F_VERBOSE)); OBSERVE(h_repeat()); OBSERVE(h_nfilters(0)); OBSERVE(h_nfilters(1));
  CHECK(ok == 0 || ok == 1, "the vector is rejected or a configuration is produced");
  CHECK(!h_flag(F_HELP) || !ok, "asking for help rejects the vector (no test runs)");
  if (ac <= 1) { struct expect e; defaults(&e); CHECK(ok == 1, "no arguments: accepted"); compare(&e); }
  WITNESS("end");
}
/* the same with a recognisable first argument: its two leading bytes are an option's, the rest arbitrary */
static void body_harness_safety_prefixed(const int KIND) {
  static const char* const prefix[] = { "-r", "-s", "-g", "-t", "-sg", "-xg", "-xsg", "-n", "-sn", "-xn", "-xsn", "-st", "-xt", "-xst", "-o", "-k", "-p", "TEST(", "IGNORE_TEST(" };
  h_init();
  IN_U32(ac); IN_ARR_U8(tail, A1MAX + 1); IN_ARR_U8(a2, A2MAX + 1); IN_U64(now);
  ASSUME(ac <= ACMAX); tail[A1MAX] = 0; a2[A2MAX] = 0;
  env_now_millis = now;
  uint8_t a1[24]; a1[0] = 0; catlit(a1, prefix[KIND]); cat(a1, tail);
  uint32_t ok = h_parse(ac, a1, a2, 0, 0, 0);
  OBSERVE(ok); OBSERVE(h_repeat()); OBSERVE(h_nfilters(0)); OBSERVE(h_nfilters(1));
  CHECK(ok == 0 || ok == 1, "the vector is rejected or a configuration is produced");
  CHECK(!h_flag(F_HELP) || !ok, "asking for help rejects the vector (no test runs)");
  WITNESS("end");
}

/* ---------------------------------------------------------------- H3: meaning of every documented option */
#define IDENT(v) IN_ARR_U8(v, 3); v[2] = 0; ASSUME(is_ident(v[0]) && (v[1] == 0 || is_ident(v[1])))
#define PROBE() IN_ARR_U8(pg, 3); IN_ARR_U8(pn, 3); pg[2] = 0; pn[2] = 0

/* options without a value */
static void body_harness_flag(const int KIND) {
  static const char* const opt[] = { "-h", "-v", "-vv", "-c", "-p", "-b", "-lg", "-ln", "-ll", "-ri", "-f", "-e", "-ci" };
  static const int flag[] = { F_HELP, F_VERBOSE, F_VERYVERBOSE, F_COLOR, F_SEPARATE, F_REVERSE, F_LISTGROUPS, F_LISTNAMES, F_LISTLOCATIONS, F_RUNIGNORED, F_CRASH, F_RETHROW, F_RETHROW };
  h_init(); PROBE();
  struct expect e; defaults(&e);
  e.flag[flag[KIND]] = (flag[KIND] == F_RETHROW) ? 0 : 1;
  uint32_t ok = h_parse(2, (uint8_t*)opt[KIND], 0, 0, pg, pn);
  OBSERVE(ok);
  if (KIND == 0) { CHECK(ok == 0 && h_flag(F_HELP), "-h: help is wanted and the vector rejected (no test runs)"); }
  else { CHECK(ok == 1, "documented option accepted"); compare(&e); CHECK(h_probe_runs() != 0, "no filter option: every test is selected"); }
  WITNESS("end");
}
/* -r[<#>] and -s [<seed>] */
static void body_harness_number(const int KIND) {    /* 0: -r alone  1: -r<#>  2: -s alone  3: -s<seed> */
  h_init();
  IN_ARR_U8(d, 3); d[2] = 0; IN_BOOL(separated); IN_U64(now);
  ASSUME(is_digit(d[0]) && (d[1] == 0 || is_digit(d[1])));
  env_now_millis = now;
  uint64_t value = d[1] ? (uint64_t)(d[0] - '0') * 10 + (d[1] - '0') : (uint64_t)(d[0] - '0');
  struct expect e; defaults(&e);
  uint8_t a1[8]; a1[0] = 0; catlit(a1, KIND < 2 ? "-r" : "-s");
  uint32_t ac = 2; uint8_t* a2 = 0;
  if (KIND == 1 || KIND == 3) { if (separated) { ac = 3; a2 = d; } else cat(a1, d); }
  uint32_t ok = h_parse(ac, a1, a2, 0, 0, 0);
  OBSERVE(ok); OBSERVE(h_repeat()); OBSERVE(h_seed());
  switch (KIND) {
    case 0: e.repeat = 2; CHECK(ok == 1, "-r accepted"); compare(&e); break;                        /* twice if <#> is not specified */
    case 1: ASSUME(value != 0);                                                                     /* the help text does not say what zero repetitions mean */
            e.repeat = value; CHECK(ok == 1, "-r<#> accepted"); compare(&e); break;
    case 2: e.flag[F_SHUFFLE] = 1; CHECK(ok == 1, "-s accepted"); compare(&e); break;               /* seed optional: some seed > 0 */
    default: if (value == 0) CHECK(ok == 0, "a seed must be greater than 0");
             else { e.flag[F_SHUFFLE] = 1; e.seed_known = 1; e.seed = value; CHECK(ok == 1, "-s <seed> accepted"); compare(&e); }
             break;
  }
  WITNESS("end");
}
/* group / name filters: -g -sg -xg -xsg -n -sn -xn -xsn */
static void body_harness_filter(const int KIND) {
  static const char* const opt[] = { "-g", "-sg", "-xg", "-xsg", "-n", "-sn", "-xn", "-xsn" };
  static const uint32_t bits[] = { 0, STRICT, INVERT, STRICT | INVERT };
  h_init(); IDENT(v); PROBE(); IN_BOOL(separated);
  struct expect e; defaults(&e);
  const int which = KIND / 4; const uint32_t b = bits[KIND % 4];
  add_filter(&e, which, v, b);
  uint8_t a1[8]; a1[0] = 0; catlit(a1, opt[KIND]);
  uint32_t ac = 2; uint8_t* a2 = 0;
  if (separated) { ac = 3; a2 = v; } else cat(a1, v);
  uint32_t ok = h_parse(ac, a1, a2, 0, pg, pn);
  OBSERVE(ok); OBSERVE(h_probe_runs());
  CHECK(ok == 1, "documented option accepted"); compare(&e);
  const uint8_t* subject = which == 0 ? pg : pn;
  int matches = (b & STRICT) ? t_eq(subject, v) : t_contains(subject, v);
  int runs = (b & INVERT) ? !matches : matches;
  CHECK((h_probe_runs() != 0) == runs, "a test is selected iff its group/name contains (exactly matches with s) the value; excluded instead with x");
  WITNESS("end");
}
/* -t -st -xt -xst <group>.<name> */
static void body_harness_dotted(const int KIND) {
  static const char* const opt[] = { "-t", "-st", "-xt", "-xst" };
  static const uint32_t bits[] = { 0, STRICT, INVERT, STRICT | INVERT };
  h_init(); IDENT(g); IDENT(n); PROBE(); IN_BOOL(separated);
  struct expect e; defaults(&e);
  const uint32_t b = bits[KIND];
  add_filter(&e, 0, g, b); add_filter(&e, 1, n, b);
  uint8_t val[8]; val[0] = 0; cat(val, g); catlit(val, "."); cat(val, n);
  uint8_t a1[12]; a1[0] = 0; catlit(a1, opt[KIND]);
  uint32_t ac = 2; uint8_t* a2 = 0;
  if (separated) { ac = 3; a2 = val; } else cat(a1, val);
  uint32_t ok = h_parse(ac, a1, a2, 0, pg, pn);
  OBSERVE(ok); OBSERVE(h_probe_runs());
  CHECK(ok == 1, "documented option accepted"); compare(&e);
  int gm = (b & STRICT) ? t_eq(pg, g) : t_contains(pg, g);
  int nm = (b & STRICT) ? t_eq(pn, n) : t_contains(pn, n);
#ifdef KF_C12_1
  if (b & INVERT) ASSUME(gm == nm);   /* open finding: -xt/-xst also exclude tests of which only the group or only the name matches */
#endif
  int runs = (b & INVERT) ? !(gm && nm) : (gm && nm);       /* "group AND name contain/match": run only those / exclude those */
  CHECK((h_probe_runs() != 0) == runs, "a test is selected iff its group and name both contain (exactly match) the values; with x exactly those tests are excluded");
  WITNESS("end");
}
/* "TEST(group, name)" / "IGNORE_TEST(group, name)" as printed by -v */
static void body_harness_testform(const int KIND) {
  h_init(); IDENT(g); IDENT(n); PROBE();
  struct expect e; defaults(&e);
  add_filter(&e, 0, g, STRICT); add_filter(&e, 1, n, STRICT);
  uint8_t a1[24]; a1[0] = 0; catlit(a1, KIND ? "IGNORE_TEST(" : "TEST("); cat(a1, g); catlit(a1, ", "); cat(a1, n); catlit(a1, ")");
  uint32_t ok = h_parse(2, a1, 0, 0, pg, pn);
  OBSERVE(ok); OBSERVE(h_probe_runs());
  CHECK(ok == 1, "documented form accepted"); compare(&e);
  CHECK((h_probe_runs() != 0) == (t_eq(pg, g) && t_eq(pn, n)), "exactly the named test is selected");
  WITNESS("end");
}
/* -o{normal|eclipse|junit|teamcity} and -k <packageName> */
static void body_harness_output(const int KIND) {   /* 0..3: -o word, 4: -k */
  static const char* const word[] = { "normal", "eclipse", "junit", "teamcity" };
  h_init(); IDENT(v); IN_BOOL(separated);
  struct expect e; defaults(&e);
  uint8_t val[12]; val[0] = 0;
  if (KIND < 4) { catlit(val, word[KIND]); e.flag[F_ECLIPSE] = KIND < 2; e.flag[F_JUNIT] = KIND == 2; e.flag[F_TEAMCITY] = KIND == 3; }
  else { cat(val, v); cat(e.package, v); }
  uint8_t a1[16]; a1[0] = 0; catlit(a1, KIND < 4 ? "-o" : "-k");
  uint32_t ac = 2; uint8_t* a2 = 0;
  if (separated) { ac = 3; a2 = val; } else cat(a1, val);
  uint32_t ok = h_parse(ac, a1, a2, 0, 0, 0);
  OBSERVE(ok);
  CHECK(ok == 1, "documented option accepted"); compare(&e);
  WITNESS("end");
}
/* two options in either order: a valued option (its value attached or separated) and a flag */
static void body_harness_pair(const int KIND) {      /* KIND: 0 -g  1 -xsn  2 -r<#>  3 -s<seed>  4 -k  5 -r alone  6 -s alone */
  static const char* const fopt[] = { "-v", "-c", "-b", "-ri", "-p", "-vv" };
  static const int fflag[] = { F_VERBOSE, F_COLOR, F_REVERSE, F_RUNIGNORED, F_SEPARATE, F_VERYVERBOSE };
  h_init(); IDENT(v); IN_BOOL(separated); IN_BOOL(flagFirst); IN_U32(fk); IN_U64(now);
  ASSUME(fk < 6);
  env_now_millis = now;
  struct expect e; defaults(&e);
  e.flag[fflag[fk]] = 1;
  uint8_t o[8]; o[0] = 0; uint8_t val[4]; val[0] = 0; int valued = 1;
  switch (KIND) {
    case 0: catlit(o, "-g"); cat(val, v); add_filter(&e, 0, v, 0); break;
    case 1: catlit(o, "-xsn"); cat(val, v); add_filter(&e, 1, v, STRICT | INVERT); break;
    case 2: catlit(o, "-r"); ASSUME(is_digit(v[0]) && v[0] != '0' && v[1] == 0); cat(val, v); e.repeat = (uint64_t)(v[0] - '0'); break;
    case 3: catlit(o, "-s"); ASSUME(is_digit(v[0]) && v[0] != '0' && v[1] == 0); cat(val, v); e.flag[F_SHUFFLE] = 1; e.seed_known = 1; e.seed = (uint64_t)(v[0] - '0'); break;
    case 4: catlit(o, "-k"); cat(val, v); cat(e.package, v); break;
    case 5: catlit(o, "-r"); valued = 0; e.repeat = 2; break;
    default: catlit(o, "-s"); valued = 0; e.flag[F_SHUFFLE] = 1; break;
  }
  uint8_t* av[3]; uint32_t n = 0;
  if (flagFirst) av[n++] = (uint8_t*)fopt[fk];
  if (valued && !separated) cat(o, val);
  av[n++] = o;
  if (valued && separated) av[n++] = val;
  if (!flagFirst) av[n++] = (uint8_t*)fopt[fk];
  uint32_t ok = h_parse(n + 1, av[0], av[1], n > 2 ? av[2] : 0, 0, 0);
  OBSERVE(ok);
  CHECK(ok == 1, "two documented options accepted in either order"); compare(&e);
  WITNESS("end");
}

/* ---------------------------------------------------------------- H2: kernels at larger bounds */
#ifndef KMAX
#define KMAX 6
#endif
/* getParameterField: the value is what follows the option name in the same argument, else the next argument, else nothing */
HARNESS(harness_param_field) {
  static const char* const names[] = { "-g", "-sg", "-xsg", "TEST(", "IGNORE_TEST(" };
  h_init();
  IN_ARR_U8(a1, KMAX + 1); IN_ARR_U8(a2, 3); IN_U32(ac); IN_U32(nk);
  a1[KMAX] = 0; a2[2] = 0; ASSUME(ac >= 2 && ac <= 3 && nk < 5);
  const uint8_t* name = (const uint8_t*)names[nk];
  uint32_t idx = h_param_field(ac, a1, a2, (uint8_t*)name);
  OBSERVE(idx); OBSERVE(h_field_len());
  uint64_t la = t_len(a1), ln = t_len(name);
  const uint8_t* want; uint32_t widx = 1;
  if (la > ln) want = a1 + ln; else if (ac == 3) { want = a2; widx = 2; } else want = (const uint8_t*)"";
  CHECK(idx == widx, "the next argument is consumed only when the value is not attached");
  int same = h_field_len() == t_len(want);
  for (uint64_t k = 0; same && k < t_len(want); k++) if (h_field_char(k) != want[k]) same = 0;
  CHECK(same, "the value is the rest of the argument, else the next argument, else empty");
  WITNESS("end");
}
/* TEST(...) slicing on arbitrary bytes; for the documented shape the group and name come out */
HARNESS(harness_test_slicing) {
  h_init();
  IN_ARR_U8(rest, KMAX + 1); IN_BOOL(ignore); rest[KMAX] = 0;
  uint8_t a1[32]; a1[0] = 0; catlit(a1, ignore ? "IGNORE_TEST(" : "TEST("); cat(a1, rest);
  h_test_form(a1, ignore);
  OBSERVE(h_nfilters(0)); OBSERVE(h_filter_len(0, 0)); OBSERVE(h_filter_len(1, 0));
  CHECK(h_nfilters(0) == 1 && h_nfilters(1) == 1 && h_filter_bits(0, 0) == STRICT && h_filter_bits(1, 0) == STRICT, "one exact group filter and one exact name filter");
  /* documented shape  <group>, <name>)  with group and name free of ',' and ')' */
  uint64_t l = t_len(rest), c = 0; while (c < l && rest[c] != ',') c++;
  uint64_t p = c; while (p < l && rest[p] != ')') p++;
  int comma_free_name = 1; for (uint64_t k = c + 1; k < p; k++) if (rest[k] == ',') comma_free_name = 0;
  int group_has_paren = 0; for (uint64_t k = 0; k < c; k++) if (rest[k] == ')') group_has_paren = 1;
  if (c >= 1 && c + 1 < l && rest[c + 1] == ' ' && p < l && p >= c + 3 && comma_free_name && !group_has_paren) {
    int gs = h_filter_len(0, 0) == c; for (uint64_t k = 0; gs && k < c; k++) if (h_filter_char(0, 0, k) != rest[k]) gs = 0;
    int ns = h_filter_len(1, 0) == p - c - 2; for (uint64_t k = 0; ns && k < p - c - 2; k++) if (h_filter_char(1, 0, k) != rest[c + 2 + k]) ns = 0;
    CHECK(gs, "documented shape: the group is the text before the comma");
    CHECK(ns, "documented shape: the name is the text between \", \" and \")\"");
    WITNESS("documented shape");
  }
  WITNESS("end");
}
/* group.name splitting on arbitrary bytes */
HARNESS(harness_group_dot_name) {
  h_init();
  IN_ARR_U8(val, KMAX + 1); IN_BOOL(strict); IN_BOOL(exclude); val[KMAX] = 0;
  uint8_t a1[16]; a1[0] = 0; catlit(a1, "-t"); cat(a1, val);
  ASSUME(val[0] != 0);                       /* an empty value would take the next argument (covered by harness_param_field) */
  uint32_t ok = h_group_dot_name(a1, strict, exclude);
  OBSERVE(ok); OBSERVE(h_nfilters(0));
  uint64_t l = t_len(val), dots = 0, first = l;
  for (uint64_t k = 0; k < l; k++) if (val[k] == '.') { if (first == l) first = k; dots++; }
  if (dots == 1 && first + 1 < l) CHECK(ok == 1, "<group>.<name> with a single dot is accepted");
  if (dots == 0) CHECK(ok == 0, "a value without a dot is rejected");
  if (ok) {
    uint32_t bits = (strict ? STRICT : 0) | (exclude ? INVERT : 0);
    CHECK(h_nfilters(0) == 1 && h_nfilters(1) == 1 && h_filter_bits(0, 0) == bits && h_filter_bits(1, 0) == bits, "one group and one name filter of the requested kind");
    int gs = h_filter_len(0, 0) == first; for (uint64_t k = 0; gs && k < first; k++) if (h_filter_char(0, 0, k) != val[k]) gs = 0;
    int ns = h_filter_len(1, 0) == l - first - 1; for (uint64_t k = 0; ns && k < l - first - 1; k++) if (h_filter_char(1, 0, k) != val[first + 1 + k]) ns = 0;
    CHECK(gs, "the group is the text before the dot");
    CHECK(ns, "the name is the text after the dot");
  } else CHECK(h_nfilters(0) == 0 && h_nfilters(1) == 0, "a rejected value adds no filter");
  WITNESS("end");
}
/* numbers of -r / -s with more digits */
HARNESS(harness_numbers_long) {
  h_init();
  IN_ARR_U8(d, 5); IN_BOOL(shuffle); IN_BOOL(separated); d[4] = 0;
  ASSUME(is_digit(d[0])); for (int k = 1; k < 4; k++) ASSUME(d[k] == 0 || (is_digit(d[k]) && d[k - 1] != 0));
  uint64_t value = 0; for (int k = 0; k < 4 && d[k]; k++) value = value * 10 + (uint64_t)(d[k] - '0');
  ASSUME(value != 0);
  uint8_t a1[8]; a1[0] = 0; catlit(a1, shuffle ? "-s" : "-r");
  if (!separated) cat(a1, d);
  uint32_t ok = h_parse(separated ? 3 : 2, a1, separated ? &d[0] : (uint8_t*)0, 0, 0, 0);
  OBSERVE(ok); OBSERVE(h_repeat()); OBSERVE(h_seed());
  CHECK(ok == 1, "accepted");
  if (shuffle) CHECK(h_flag(F_SHUFFLE) && h_seed() == value && h_repeat() == 1, "the seed is the decimal value given");
  else CHECK(!h_flag(F_SHUFFLE) && h_repeat() == value, "the repeat count is the decimal value given");
  WITNESS("end");
}
/* TestFilter::match */
HARNESS(harness_filter_match) {
  h_init();
  IN_ARR_U8(f, 4); IN_ARR_U8(name, 5); IN_BOOL(strict); IN_BOOL(invert); f[3] = 0; name[4] = 0;
  uint32_t r = h_filter_match(f, strict, invert, name);
  OBSERVE(r);
  int m = strict ? t_eq(name, f) : t_contains(name, f);
  CHECK((r != 0) == (invert ? !m : m), "match: contains, or equals when strict; negated when inverted");
  WITNESS("end");
}

/* ---------------------------------------------------------------- open finding KF_C12_1 (not part of spec.py: FAILS)
 * help: "-xt <grp>.<name> - exclude tests whose group and name contain <grp> and <name>"; the parser adds an inverted
 * group filter AND an inverted name filter, so a test of which only the group (or only the name) matches is excluded too. */
HARNESS(finding_exclude_dotted) {
  h_init();
  uint32_t ok = h_parse(2, (uint8_t*)"-xtG.a", 0, 0, (uint8_t*)"G", (uint8_t*)"b");     /* TEST(G, b) is not TEST(G, a) */
  CHECK(ok == 1, "accepted");
  CHECK(h_probe_runs() != 0, "-xt G.a must not exclude TEST(G, b)");
  WITNESS("end");
}

#define K1(f, k) HARNESS(f##_##k) { body_##f(k); }
K1(harness_safety_prefixed, 0) K1(harness_safety_prefixed, 1) K1(harness_safety_prefixed, 2) K1(harness_safety_prefixed, 3) K1(harness_safety_prefixed, 4) K1(harness_safety_prefixed, 5)
K1(harness_safety_prefixed, 6) K1(harness_safety_prefixed, 7) K1(harness_safety_prefixed, 8) K1(harness_safety_prefixed, 9) K1(harness_safety_prefixed, 10) K1(harness_safety_prefixed, 11)
K1(harness_safety_prefixed, 12) K1(harness_safety_prefixed, 13) K1(harness_safety_prefixed, 14) K1(harness_safety_prefixed, 15) K1(harness_safety_prefixed, 16) K1(harness_safety_prefixed, 17) K1(harness_safety_prefixed, 18)
K1(harness_flag, 0) K1(harness_flag, 1) K1(harness_flag, 2) K1(harness_flag, 3) K1(harness_flag, 4) K1(harness_flag, 5) K1(harness_flag, 6)
K1(harness_flag, 7) K1(harness_flag, 8) K1(harness_flag, 9) K1(harness_flag, 10) K1(harness_flag, 11) K1(harness_flag, 12)
K1(harness_number, 0) K1(harness_number, 1) K1(harness_number, 2) K1(harness_number, 3)
K1(harness_filter, 0) K1(harness_filter, 1) K1(harness_filter, 2) K1(harness_filter, 3) K1(harness_filter, 4) K1(harness_filter, 5) K1(harness_filter, 6) K1(harness_filter, 7)
K1(harness_dotted, 0) K1(harness_dotted, 1) K1(harness_dotted, 2) K1(harness_dotted, 3)
K1(harness_testform, 0) K1(harness_testform, 1)
K1(harness_output, 0) K1(harness_output, 1) K1(harness_output, 2) K1(harness_output, 3) K1(harness_output, 4)
K1(harness_pair, 0) K1(harness_pair, 1) K1(harness_pair, 2) K1(harness_pair, 3) K1(harness_pair, 4) K1(harness_pair, 5) K1(harness_pair, 6)
