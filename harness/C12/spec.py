def ob(fn, unwind=22, timeout=900, bounds='', **kw):
    d = {'fn': fn, 'unwind': unwind, 'timeout': timeout, 'bounds': bounds}
    d.update(kw)
    return d
FLAGS = ['-h', '-v', '-vv', '-c', '-p', '-b', '-lg', '-ln', '-ll', '-ri', '-f', '-e', '-ci']
KNAME = ['-r', '-s', '-g', '-sg', '-xg', '-xsg', '-n', '-sn', '-xn', '-xsn', '-t', '-st', '-xt', '-xst', 'TEST(', 'IGNORE_TEST(', '-o', '-k']
E2EVAL = ['12', '7'] + ['aB'] * 8 + ['aB.c_'] * 4 + ['aB, c_)'] * 2 + ['junit', 'pk']
NAMES = ['-g', '-sg', '-xsg', 'TEST(', 'IGNORE_TEST(']
PROBE = 'probe test group and name: any bytes, 0..2 characters each'
NEXT = {2: 'no next argument', 3: 'next argument any 0..2 bytes'}
KF = []   # the open finding's -DKF_C12_1 is added by run.py from known_findings.json
HANDLERS = ['_ZN20CommandLineArguments14setRepeatCountEiPKPKcRi', '_ZN20CommandLineArguments10setShuffleEiPKPKcRi',
            '_ZN20CommandLineArguments14addGroupFilterEiPKPKcRi', '_ZN20CommandLineArguments20addStrictGroupFilterEiPKPKcRi',
            '_ZN20CommandLineArguments21addExcludeGroupFilterEiPKPKcRi', '_ZN20CommandLineArguments27addExcludeStrictGroupFilterEiPKPKcRi',
            '_ZN20CommandLineArguments13addNameFilterEiPKPKcRi', '_ZN20CommandLineArguments19addStrictNameFilterEiPKPKcRi',
            '_ZN20CommandLineArguments20addExcludeNameFilterEiPKPKcRi', '_ZN20CommandLineArguments26addExcludeStrictNameFilterEiPKPKcRi',
            '_ZN20CommandLineArguments21addGroupDotNameFilterEiPKPKcRiRK12SimpleStringbb', '_ZN20CommandLineArguments32addTestToRunBasedOnVerboseOutputEiPKPKcRiS1_',
            '_ZN20CommandLineArguments13setOutputTypeEiPKPKcRi', '_ZN20CommandLineArguments14setPackageNameEiPKPKcRi']
# string loops of the code under test: their true bound is the longest text of the obligation, far below the harness' own loops
HOT = ['_ZN12SimpleString6StrLenEPKc.0', '_ZN12SimpleString7StrNCpyEPcPKcm.0', '_ZN12SimpleString7StrNCmpEPKcS1_m.0', '_ZN12SimpleString6StrStrEPKcS1_.0',
       '_ZN12SimpleString6StrCmpEPKcS1_.0', '_ZNK12SimpleString5countERKS_.0', '_ZNK12SimpleString5splitERKS_R22SimpleStringCollection.0',
       '_ZN22SimpleStringCollection8allocateEm.1', '_ZN22SimpleStringCollectionD2Ev.0', '_ZL8copyTextRK12SimpleStringPc.0', '_ZNK12SimpleString8findFromEmc.0']
PIECES = ['_ZNK12SimpleString5countERKS_.0:5', '_ZNK12SimpleString5splitERKS_R22SimpleStringCollection.0:5', '_ZN22SimpleStringCollection8allocateEm.1:5', '_ZN22SimpleStringCollectionD2Ev.0:5']
def real(n):
    return [l + ':%d' % n for l in HOT]
SPEC = {
    'property': 'C12',
    'functions_of_interest': ['CommandLineArguments', 'TestFilter', 'SimpleString9subString', 'SimpleString17subStringFromTill', 'SimpleString5split', 'AtoI', 'AtoU', 'shouldRun'],
    'assumptions': [
        'decomposition: group dispatch runs parse() with the 14 option handlers replaced by recording stubs in the solver world (the handler chosen and its argument index are compared with a reference table written from the usage text); group cl runs every handler directly on all argument bytes and the whole parser end to end on concrete representative values',
        'argv[0] is a fixed program name; argv[argc] is NULL and entries beyond it are poisoned pointers, so any use of them is reported',
        'argc and the argument pointers are concrete per call site (attached and separated forms are separate call sites of one obligation); string contents are symbolic',
        'plugin = NullTestPlugin (accepts no -p<...> argument); time seam = arbitrary 64-bit millisecond value',
        'heap model: fixed-capacity zero-filled blocks with requested-size red zones (harness/C12/zheap.h): accesses outside the requested size are reported, a missing terminator inside a block is not visible here (C13 checks the string operations on uninitialised blocks)',
        'open finding KF_C12_1 (-xt/-xst exclude tests of which only the group or only the name matches) is excluded by -DKF_C12_1 and demonstrated by finding_exclude_dotted in h12.c; finding_two_excludes (two -xg cancel each other) is outside every obligation (no obligation has two filters of one kind)',
    ],
    'groups': [{
        'name': 'dispatch', 'wrapper': 'w12.cpp', 'harness': 'h12.c', 'config': {'stubs': HANDLERS}, 'defines': KF + ['-DDISPATCH_STUBBED'],
        'obligations':
            [ob('harness_dispatch_%d' % k, bounds='argc = %d; argv[1] any 0..5 bytes, argv[2] any 0..3 bytes; bool handlers answer true or false' % k, timeout=1800) for k in range(4)] +
            [ob('harness_dispatch_%d' % k, bounds='argc = %d; argv[1] any 0..6 bytes, argv[2] any 0..4 bytes; bool handlers answer true or false' % k, defines=['-DD1MAX=6', '-DD2MAX=4'], timeout=7200, tier='thorough') for k in (2, 3)] +
            [ob('harness_dispatch_near_%d' % k, bounds='argc = 2; argv[1] = "%s" without its last character, then any 0..2 bytes' % KNAME[k], timeout=1800, tier=('both' if k in (14, 15) else 'thorough')) for k in range(18)],
    }, {
        'name': 'cl', 'wrapper': 'w12.cpp', 'harness': 'h12.c', 'config': {}, 'defines': KF,
        'obligations':
            [ob('harness_handler_filter_%d_%d' % (k, ac), defines=['-DTAILMAX=6'], tier='thorough', timeout=3600, bounds='handler of %s on argument "%s" + any 0..6 bytes, %s; ' % (KNAME[k], KNAME[k], NEXT[ac]) + PROBE) for k in range(2, 10) for ac in (2, 3)] +
            [ob('harness_handler_filter_%d_%d' % (k, ac), bounds='handler of %s on argument "%s" + any 0..4 bytes, %s; ' % (KNAME[k], KNAME[k], NEXT[ac]) + PROBE) for k in range(2, 10) for ac in (2, 3)] +
            [ob('harness_handler_number_%d_%d' % (k, ac), bounds='handler of %s on argument "%s" + any 0..4 bytes, %s; any clock value' % (KNAME[k], KNAME[k], NEXT[ac]), optional_witness=['documented shape']) for k in range(2) for ac in (2, 3)] +
            [ob('harness_handler_output_%d' % ac, bounds='handler of -o on argument "-o" + any 0..8 bytes, %s' % ('no next argument' if ac == 2 else 'next argument any 0..8 bytes'), timeout=1800) for ac in (2, 3)] +
            [ob('harness_handler_package_%d' % ac, bounds='handler of -k on argument "-k" + any 0..4 bytes, %s' % NEXT[ac]) for ac in (2, 3)] +
            [ob('harness_handler_dotted_%d_%d' % (k, sh), bounds='handler of %s on argument "%s" + %s; ' % (KNAME[k], KNAME[k], ['any 1..2 bytes', 'any byte, a dot, any byte or nothing'][sh]) + PROBE + ('; [KF_C12_1: probe matches both or neither]' if k >= 12 else ''),
                timeout=3600, unwindset=real(8) + PIECES, solver='kissat', optional_witness=(['accepted'] if sh == 0 else []), tier='thorough') for k in range(10, 14) for sh in (0, 1)] +
            [ob('harness_handler_testform_%d' % k, bounds='handler of "%sTEST(" on that text followed by any 1..6 bytes; ' % ('IGNORE_' if k else '') + PROBE, timeout=1800) for k in range(2)] +
            [ob('harness_param_field_%d_%d' % (k, ac), bounds='getParameterField: argument = "%s" (or cut by one character) followed by any 0..6 bytes, %s' % (NAMES[k], NEXT[ac])) for k in range(5) for ac in (2, 3)] +
            [ob('harness_filter_match', bounds='TestFilter::match: filter any 0..3 bytes, name any 0..4 bytes, strict/invert symbolic')] +
            [ob('harness_flag_%d' % k, bounds='whole parser, argv = {%s}; ' % FLAGS[k] + PROBE) for k in range(13)] +
            [ob('harness_e2e_%d' % k, bounds='whole parser, option %s with the value "%s", attached or separated, alone or with -v before or after it; ' % (KNAME[k], E2EVAL[k]) + PROBE + ('; [KF_C12_1]' if k in (12, 13) else '')) for k in range(18)] +
            [ob('harness_e2e_reject_%d_%d' % (bd, k), unwind=24, tier=('both' if (bd in (0, 1, 4) and k in (1, 2, 10, 16)) else 'thorough'),
                bounds='whole parser with the real handlers, argv = {"%s", %s%s} in either order, any clock value' % (['-h', '-w', '', 'x', '-tab', '-oxx', '-s0', '-pq'][bd], KNAME[k], E2EVAL[k])) for bd in range(8) for k in range(18)] +
            [ob('harness_e2e_bare_%d' % k, bounds='whole parser, argv = {%s, -c} in either order, any clock value' % ['-r', '-s'][k]) for k in range(2)] +
            [ob('finding_exclude_dotted', expect='fail', bounds='argv {-xtG.a} against TEST(G, b) (open known finding KF-C12-1)')],
    }],
}
