def ob(fn, kind=None, unwind=20, timeout=300, bounds='', **kw):
    d = {'fn': fn if kind is None else '%s_%d' % (fn, kind), 'unwind': unwind, 'timeout': timeout, 'bounds': bounds}
    d.update(kw)
    return d
PREFIX = ['-r', '-s', '-g', '-t', '-sg', '-xg', '-xsg', '-n', '-sn', '-xn', '-xsn', '-st', '-xt', '-xst', '-o', '-k', '-p', 'TEST(', 'IGNORE_TEST(']
FLAGS = ['-h', '-v', '-vv', '-c', '-p', '-b', '-lg', '-ln', '-ll', '-ri', '-f', '-e', '-ci']
FILTERS = ['-g', '-sg', '-xg', '-xsg', '-n', '-sn', '-xn', '-xsn']
DOTTED = ['-t', '-st', '-xt', '-xst']
PAIR = ['-g <v>', '-xsn <v>', '-r<digit>', '-s<digit>', '-k <v>', '-r', '-s']
ID2 = 'value: identifier-like ([A-Za-z0-9_]) 1..2 characters, attached or separated form symbolic'
PROBE = 'probe test group and name: any bytes, 0..2 characters each'
KF = ['-DKF_C12_1']
SPEC = {
    'property': 'C12',
    'functions_of_interest': ['CommandLineArguments', 'TestFilter', 'SimpleString9subString', 'SimpleString17subStringFromTill', 'SimpleString5split', 'AtoI', 'AtoU', 'shouldRun'],
    'assumptions': [
        'argv[0] is a fixed program name; argv[argc] is NULL and entries beyond it are poisoned pointers, so any use of them is reported',
        'plugin = NullTestPlugin (accepts no -p<...> argument); time seam = arbitrary 64-bit millisecond value',
        'string allocator = default new[]/delete[] over the fixed-capacity heap model with requested-size red zones (ll2c --heapcheck)',
        'open finding KF_C12_1 (-xt/-xst exclude tests of which only the group or only the name matches) is excluded from harness_dotted_2/3 by -DKF_C12_1 and demonstrated by finding_exclude_dotted in h12.c',
    ],
    'groups': [{
        'name': 'cl', 'wrapper': 'w12.cpp', 'harness': 'h12.c', 'config': {}, 'defines': KF,
        'obligations':
            # H1 safety
            [ob('harness_safety', bounds='argc 0..3, argv[1] any 0..3 bytes, argv[2] any 0..2 bytes', timeout=900, tier='quick'),
             ob('harness_safety', bounds='argc 0..3, argv[1] any 0..4 bytes, argv[2] any 0..3 bytes', defines=['-DA1MAX=4', '-DA2MAX=3'], timeout=7200, tier='thorough')] +
            [ob('harness_safety_prefixed', k, bounds='argc 0..3, argv[1] = "%s" followed by any 0..3 bytes, argv[2] any 0..2 bytes' % PREFIX[k], timeout=900, unwind=20) for k in range(19)] +
            # H3 meaning
            [ob('harness_flag', k, bounds='argv = {%s}; ' % FLAGS[k] + PROBE) for k in range(13)] +
            [ob('harness_number', k, bounds=['argv = {-r}', 'argv = {-r<#>} or {-r, <#>}, # = 1..2 decimal digits, not zero', 'argv = {-s}, any clock value', 'argv = {-s<seed>} or {-s, <seed>}, seed = 1..2 decimal digits'][k]) for k in range(4)] +
            [ob('harness_filter', k, bounds='option %s; ' % FILTERS[k] + ID2 + '; ' + PROBE) for k in range(8)] +
            [ob('harness_dotted', k, bounds='option %s <group>.<name>; group and name identifier-like 1..2 characters each, attached or separated; ' % DOTTED[k] + PROBE + ('; [KF_C12_1: probe matches both or neither]' if k >= 2 else ''), timeout=600) for k in range(4)] +
            [ob('harness_testform', k, bounds='argv = {"%sTEST(<group>, <name>)"}; group and name identifier-like 1..2 characters; ' % ('IGNORE_' if k else '') + PROBE, unwind=24, timeout=600) for k in range(2)] +
            [ob('harness_output', k, bounds=('-o%s attached or separated' % ['normal', 'eclipse', 'junit', 'teamcity'][k]) if k < 4 else '-k <packageName>; ' + ID2) for k in range(5)] +
            [ob('harness_pair', k, bounds='two options in symbolic order: %s (value identifier-like 1..2 characters / one non-zero digit, attached or separated) and one of -v -c -b -ri -p -vv' % PAIR[k]) for k in range(7)] +
            # H2 kernels
            [ob('harness_param_field', bounds='argument any 0..6 bytes, next argument any 0..2 bytes present or not, option name one of -g -sg -xsg TEST( IGNORE_TEST(', unwind=20),
             ob('harness_test_slicing', bounds='"TEST(" / "IGNORE_TEST(" followed by any 0..6 bytes', unwind=24, timeout=900),
             ob('harness_group_dot_name', bounds='-t value any 1..6 bytes; strict/exclude symbolic', unwind=20, timeout=900),
             ob('harness_numbers_long', bounds='-r / -s with 1..4 decimal digits (value not zero), attached or separated'),
             ob('harness_filter_match', bounds='filter any 0..3 bytes, name any 0..4 bytes, strict/invert symbolic')],
    }],
}
