// C12 wrapper: the real CommandLineArguments parser (whole, and handler by handler) run on harness-built argument vectors.
// The parser object is a stack object (so its destructor, which frees the filter lists, runs too); the
// resulting configuration is copied into plain fields that the harness reads back one by one.
#define private public
#define protected public
#include "CppUTest/TestHarness.h"
#include "CppUTest/CommandLineArguments.h"
#include "CppUTest/TestPlugin.h"
#include "CppUTest/TestFilter.h"
#include "CppUTest/PlatformSpecificFunctions.h"

extern "C" {
void h_env_install(void);
}

enum { MAXF = 3, TXT = 12 };
struct FilterCopy { char text[TXT]; unsigned long len; int strict, invert; };
struct Cfg {
    int ok;
    int flag[16];
    unsigned long repeat, seed;
    int nfilters[2];
    FilterCopy filters[2][MAXF];
    char package[TXT]; unsigned long packageLen;
    int probeRuns;
    int index;                 // kernels: argument index after the call
    char field[TXT]; unsigned long fieldLen;
};
static Cfg cfg;

static unsigned long copyText(const SimpleString& s, char* out)
{
    const char* p = s.asCharString();
    unsigned long n = 0;
    while (p[n]) { if (n + 1 < TXT) out[n] = p[n]; n++; }
    out[n < TXT ? n : TXT - 1] = 0;
    return n;
}
static void copyFilters(int which, const TestFilter* f)
{
    int n = 0;
    for (; f; f = f->getNext()) {
        if (n < MAXF) {
            cfg.filters[which][n].len = copyText(f->filter_, cfg.filters[which][n].text);
            cfg.filters[which][n].strict = f->strictMatching_;
            cfg.filters[which][n].invert = f->invertMatching_;
        }
        n++;
    }
    cfg.nfilters[which] = n;
}
static void copyConfig(CommandLineArguments& a, const char* probeGroup, const char* probeName)
{
    cfg.flag[0] = a.needHelp(); cfg.flag[1] = a.isVerbose(); cfg.flag[2] = a.isVeryVerbose(); cfg.flag[3] = a.isColor();
    cfg.flag[4] = a.runTestsInSeperateProcess(); cfg.flag[5] = a.isReversing(); cfg.flag[6] = a.isListingTestGroupNames();
    cfg.flag[7] = a.isListingTestGroupAndCaseNames(); cfg.flag[8] = a.isListingTestLocations(); cfg.flag[9] = a.isRunIgnored();
    cfg.flag[10] = a.isCrashingOnFail(); cfg.flag[11] = a.isRethrowingExceptions(); cfg.flag[12] = a.isShuffling();
    cfg.flag[13] = a.isJUnitOutput(); cfg.flag[14] = a.isTeamCityOutput(); cfg.flag[15] = a.isEclipseOutput();
    cfg.repeat = a.getRepeatCount(); cfg.seed = a.getShuffleSeed();
    copyFilters(0, a.getGroupFilters()); copyFilters(1, a.getNameFilters());
    cfg.packageLen = copyText(a.getPackageName(), cfg.package);
    if (probeGroup) {
        // which tests the configuration selects: a probe test of the given group and name
        UtestShell probe(probeGroup, probeName, "probe.cpp", 1);
        cfg.probeRuns = probe.shouldRun(a.getGroupFilters(), a.getNameFilters());
    }
}

extern "C" {
void h_init(void) { h_env_install(); }

// the whole parser: argv[0] is the program name, up to three further arguments
int h_parse(int ac, const char* a1, const char* a2, const char* a3, const char* probeGroup, const char* probeName)
{
    const char* av[5] = { "prog", a1, a2, a3, 0 };
    // as in a real argument vector argv[argc] is NULL; entries beyond it do not exist: make any use of them visible
    for (int k = 0; k < 5; k++) { if (k == ac) av[k] = 0; else if (k > ac) av[k] = (const char*)1; }
    CommandLineArguments args(ac, av);
    cfg.ok = args.parse(NullTestPlugin::instance());
    copyConfig(args, probeGroup, probeName);
    return cfg.ok;
}
int h_flag(int i) { return cfg.flag[i]; }
unsigned long h_repeat(void) { return cfg.repeat; }
unsigned long h_seed(void) { return cfg.seed; }
int h_nfilters(int which) { return cfg.nfilters[which]; }
unsigned long h_filter_len(int which, int i) { return cfg.filters[which][i].len; }
int h_filter_char(int which, int i, int k) { return (int)(unsigned char)cfg.filters[which][i].text[k]; }
int h_filter_bits(int which, int i) { return (cfg.filters[which][i].strict ? 1 : 0) | (cfg.filters[which][i].invert ? 2 : 0); }
unsigned long h_package_len(void) { return cfg.packageLen; }
int h_package_char(int k) { return (int)(unsigned char)cfg.package[k]; }
int h_probe_runs(void) { return cfg.probeRuns; }

// ---- kernels
// getParameterField: the value of an option, attached to it or in the next argument
int h_param_field(int ac, const char* a1, const char* a2, const char* name)
{
    const char* av[4] = { "prog", a1, a2, 0 };
    for (int k = 0; k < 4; k++) { if (k == ac) av[k] = 0; else if (k > ac) av[k] = (const char*)1; }
    CommandLineArguments args(ac, av);
    int i = 1;
    SimpleString field = args.getParameterField(ac, av, i, name);
    cfg.fieldLen = copyText(field, cfg.field);
    cfg.index = i;
    return i;
}
unsigned long h_field_len(void) { return cfg.fieldLen; }
int h_field_char(int k) { return (int)(unsigned char)cfg.field[k]; }
// TestFilter::match on its own
int h_filter_match(const char* filter, int strict, int invert, const char* name)
{
    TestFilter f(filter);
    if (strict) f.strictMatching();
    if (invert) f.invertMatching();
    return f.match(name);
}
}

// ---- the option handlers called directly (the dispatch chain of parse() is checked on its own, see h12.c)
extern "C" int h_handler(int kind, int ac, const char* a1, const char* a2, const char* probeGroup, const char* probeName)
{
    const char* av[4] = { "prog", a1, a2, 0 };
    for (int k = 0; k < 4; k++) { if (k == ac) av[k] = 0; else if (k > ac) av[k] = (const char*)1; }
    CommandLineArguments args(ac, av);
    int i = 1;
    bool ok = true;
    switch (kind) {
    case 0: args.setRepeatCount(ac, av, i); break;
    case 1: ok = args.setShuffle(ac, av, i); break;
    case 2: args.addGroupFilter(ac, av, i); break;
    case 3: args.addStrictGroupFilter(ac, av, i); break;
    case 4: args.addExcludeGroupFilter(ac, av, i); break;
    case 5: args.addExcludeStrictGroupFilter(ac, av, i); break;
    case 6: args.addNameFilter(ac, av, i); break;
    case 7: args.addStrictNameFilter(ac, av, i); break;
    case 8: args.addExcludeNameFilter(ac, av, i); break;
    case 9: args.addExcludeStrictNameFilter(ac, av, i); break;
    case 10: ok = args.addGroupDotNameFilter(ac, av, i, "-t", false, false); break;
    case 11: ok = args.addGroupDotNameFilter(ac, av, i, "-st", true, false); break;
    case 12: ok = args.addGroupDotNameFilter(ac, av, i, "-xt", false, true); break;
    case 13: ok = args.addGroupDotNameFilter(ac, av, i, "-xst", true, true); break;
    case 14: args.addTestToRunBasedOnVerboseOutput(ac, av, i, "TEST("); break;
    case 15: args.addTestToRunBasedOnVerboseOutput(ac, av, i, "IGNORE_TEST("); break;
    case 16: ok = args.setOutputType(ac, av, i); break;
    default: args.setPackageName(ac, av, i); break;
    }
    cfg.ok = ok;
    cfg.index = i;
    copyConfig(args, probeGroup, probeName);
    return ok;
}
extern "C" int h_index(void) { return cfg.index; }
