/* Heap model of the message / parser harnesses: like engine/rt/env.c (fixed-capacity objects, requested size kept in
 * the red-zone table that ll2c --heapcheck consults on every access), but the objects are ZERO-FILLED.
 * Reason: with uninitialised (nondet) blocks the symbolic executor cannot bound any loop that scans a string of
 * symbolic length - every StrLen/StrNCpy unwinds to the full bound (measured: >17 min of symbolic execution for
 * one 3-string message, no verdict).  With zero-filled blocks those loops end at the longest possible length.
 * Still reported: every access outside the REQUESTED size of a block (red zones), use after free, double free.
 * Not visible in this model: a string whose terminator was never written (C13 checks the string operations on
 * uninitialised blocks; the native differential / replay build uses the real, uninitialised malloc under ASan).
 * Include AFTER  #define ENV_CUSTOM_MALLOC / ENV_CUSTOM_NEW  and  #include "env.c". */
#ifdef LL2C_CBMC
static uint8_t* z_alloc(uint64_t n) {
  ENV_ENGINE_ASSERT(n <= ENV_MALLOC_CAP && n < 255, "allocation larger than ENV_MALLOC_CAP (bound too small)");
  uint8_t* p = calloc(1, ENV_MALLOC_CAP);
  __CPROVER_assume(p != 0);
  ENV_ENGINE_ASSERT(__CPROVER_POINTER_OBJECT(p) < 1024, "object numbers fit the shadow table");
  ll2c_req[__CPROVER_POINTER_OBJECT(p) & 1023] = (uint8_t)(n + 1);
  return p;
}
#else
static uint8_t* z_alloc(uint64_t n) { return (uint8_t*)malloc(n ? n : 1); }
#endif
uint8_t* env_malloc(uint64_t n) { env_malloc_calls++; env_last_malloc_size = n; return z_alloc(n); }
void env_free(uint8_t* p) { env_free_calls++; free(p); }
uint8_t* env_realloc(uint8_t* p, uint64_t n) { (void)p; (void)n; ENV_ENGINE_ASSERT(0, "realloc is not used by the code under test"); return 0; }
#ifdef LL2C_TRANSLATED
uint8_t* _Znwm(uint64_t n) { return z_alloc(n); }
uint8_t* _Znam(uint64_t n) { return z_alloc(n); }
void _ZdlPv(uint8_t* p) { free(p); }
void _ZdaPv(uint8_t* p) { free(p); }
void _ZdlPvm(uint8_t* p, uint64_t n) { (void)n; free(p); }
void _ZdaPvm(uint8_t* p, uint64_t n) { (void)n; free(p); }
#endif
