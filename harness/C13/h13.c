/* C13: string operations equal their textbook meaning, stay inside their buffers, terminate,
 * and return every internal buffer to the string allocator exactly once with its request size.
 * Oracles below are written from the property text, independently of the implementation. */
#ifndef MAXL
#define MAXL 3
#endif
#ifndef ENV_MALLOC_CAP
#define ENV_MALLOC_CAP 64
#endif
#include "env.c"
#include "translated.h"

#define OUTCAP 48
#define STR(n) IN_ARR_U8(n, MAXL + 1); n[MAXL] = 0
#define NPOS (~(uint64_t)0)

/* ---- allocator ledger (h13_ledger.h): requested sizes recorded, red zones on both sides of every buffer */
#include "h13_ledger.h"
#define LEDGER_OK() do { CHECK(led_errors == 0, "every buffer is returned with the size it was requested with"); \
                         CHECK(led_allocs == led_frees, "every buffer is returned to the string allocator exactly once"); \
                         CHECK(led_allocs > 0, "operation used the string allocator"); } while (0)

/* ---- textbook helpers */
static uint64_t t_len(const uint8_t* s) { uint64_t n = 0; while (s[n]) n++; return n; }
static int t_occurs_at(const uint8_t* a, uint64_t la, const uint8_t* b, uint64_t lb, uint64_t i) {
  if (i + lb > la) return 0;
  for (uint64_t j = 0; j < lb; j++) if (a[i + j] != b[j]) return 0;
  return 1;
}
static int64_t t_find(const uint8_t* a, const uint8_t* b, uint64_t from) {
  uint64_t la = t_len(a), lb = t_len(b);
  for (uint64_t i = from; i + lb <= la; i++) if (t_occurs_at(a, la, b, lb, i)) return (int64_t)i;
  return -1;
}
static int t_sign(int64_t v) { return v < 0 ? -1 : v > 0 ? 1 : 0; }
static int t_cmp(const uint8_t* a, const uint8_t* b) { uint64_t i = 0; while (a[i] && a[i] == b[i]) i++; return t_sign((int)a[i] - (int)b[i]); }
static int t_eq(const uint8_t* a, const uint8_t* b) { return t_cmp(a, b) == 0; }
static uint8_t t_lower(uint8_t c) { return (c >= 'A' && c <= 'Z') ? (uint8_t)(c + 32) : c; }
static int t_out_is(const uint8_t* out, uint64_t n, const uint8_t* want, uint64_t wn) {
  if (n != wn) return 0;
  for (uint64_t i = 0; i < wn; i++) if (out[i] != want[i]) return 0;
  return out[wn] == 0;
}

/* =========================================================== primitives */
HARNESS(harness_strstr) {
  h_init(); STR(a); STR(b);
  int64_t r = (int64_t)h_StrStr(a, b);
  OBSERVE(r);
  CHECK(r == t_find(a, b, 0), "StrStr is the first occurrence or NULL");
  WITNESS("end");
}
HARNESS(harness_strcmp_len) {
  h_init(); STR(a); STR(b);
  int32_t r = (int32_t)h_StrCmp(a, b);
  uint64_t n = h_StrLen(a);
  OBSERVE(r); OBSERVE(n);
  CHECK(t_sign(r) == t_cmp(a, b), "StrCmp orders like unsigned-byte lexicographic compare");
  CHECK(n == t_len(a), "StrLen");
  WITNESS("end");
}
HARNESS(harness_strncmp) {
  h_init(); STR(a); STR(b); IN_U64(n);
  int32_t r = (int32_t)h_StrNCmp(a, b, n);
  OBSERVE(r);
  int want = 0;
  for (uint64_t i = 0; i < n && i <= MAXL; i++) { if (a[i] != b[i]) { want = t_sign((int)a[i] - (int)b[i]); break; } if (!a[i]) break; }
  CHECK(t_sign(r) == want, "StrNCmp compares at most n bytes");
  WITNESS("end");
}
HARNESS(harness_strncpy) {
  h_init(); STR(a); IN_U64(n);
  IN_U8(fill);
  uint8_t d[MAXL + 2];
  for (int i = 0; i < MAXL + 2; i++) d[i] = fill;
  ASSUME(n <= MAXL + 2);                      /* precondition: destination has n bytes */
  int64_t r = (int64_t)h_StrNCpy(d, a, n);
  CHECK(r == 0, "StrNCpy returns destination");
  uint64_t la = t_len(a);
  for (uint64_t i = 0; i < MAXL + 2; i++) {
    OBSERVE(d[i]);
    if (i < n && i <= la) CHECK(d[i] == a[i], "StrNCpy copies up to n bytes including the terminator");
    else CHECK(d[i] == fill, "StrNCpy writes nothing past min(n, len+1) (no padding)");
  }
  WITNESS("end");
}
HARNESS(harness_memcmp) {
  h_init(); IN_ARR_U8(a, MAXL + 1); IN_ARR_U8(b, MAXL + 1); IN_U64(n);
  ASSUME(n <= MAXL + 1);
  int32_t r = (int32_t)h_MemCmp(a, b, n);
  OBSERVE(r);
  int want = 0;
  for (uint64_t i = 0; i < n; i++) if (a[i] != b[i]) { want = t_sign((int)a[i] - (int)b[i]); break; }
  CHECK(t_sign(r) == want, "MemCmp");
  WITNESS("end");
}
HARNESS(harness_atou_atoi) {
  h_init();
  IN_ARR_U8(a, 5); a[4] = 0;
  uint32_t u = h_AtoU(a);
  int32_t v = (int32_t)h_AtoI(a);
  OBSERVE(u); OBSERVE(v);
  uint64_t i = 0;
  while (a[i] == ' ' || (a[i] > 8 && a[i] < 14)) i++;
  uint64_t j = i; uint32_t wu = 0;
  while (a[j] >= '0' && a[j] <= '9') { wu = wu * 10 + (uint32_t)(a[j] - '0'); j++; }
  CHECK(u == wu, "AtoU: optional white space then decimal digits");
  int neg = a[i] == '-';
  if (a[i] == '-' || a[i] == '+') i++;
  int32_t wi = 0;
  while (a[i] >= '0' && a[i] <= '9') { wi = wi * 10 + (a[i] - '0'); i++; }
  CHECK(v == (neg ? -wi : wi), "AtoI: optional white space, sign, decimal digits");
  int32_t lc = (int32_t)h_ToLower(a[0]);
  CHECK(lc == t_lower(a[0]), "ToLower maps only A-Z");
  WITNESS("end");
}

/* =========================================================== class operations */
HARNESS(harness_ctor_copy) {
  h_init(); STR(a); STR(b);
  uint8_t out[OUTCAP];
  uint64_t n = h_ctor(a, out, OUTCAP);
  CHECK(t_out_is(out, n, a, t_len(a)), "construct from C string copies it");
  n = h_copy_assign(a, b, out, OUTCAP);
  CHECK(t_out_is(out, n, a, t_len(a)), "copy construction / assignment / self assignment keep the value");
  n = h_ctor(0, out, OUTCAP);
  CHECK(n == 0 && out[0] == 0, "construct from NULL gives the empty string");
  uint64_t se = h_size_empty(a);
  CHECK(se == t_len(a) * 2 + (t_len(a) == 0), "size / isEmpty");
  LEDGER_OK();
  WITNESS("end");
}
HARNESS(harness_repeat) {
  h_init(); STR(a); IN_U64(k);
  ASSUME(k <= 3);
  uint8_t out[OUTCAP];
  uint64_t n = h_repeat(a, k, out, OUTCAP);
  uint64_t la = t_len(a);
  OBSERVE(n);
  CHECK(n == la * k, "repeat length");
  for (uint64_t i = 0; i < la * k && i < OUTCAP; i++) CHECK(out[i] == a[i % la], "repeat content");
  LEDGER_OK();
  WITNESS("end");
}
HARNESS(harness_concat_append) {
  h_init(); STR(a); STR(b); IN_BOOL(via);
  uint8_t out[OUTCAP], out2[OUTCAP];
  uint64_t n = h_concat(a, b, out, OUTCAP);
  uint64_t m = h_append(a, b, via, out2, OUTCAP);
  uint64_t la = t_len(a), lb = t_len(b);
  CHECK(n == la + lb && m == la + lb, "concatenation length");
  for (uint64_t i = 0; i < la + lb; i++) { uint8_t w = i < la ? a[i] : b[i - la]; CHECK(out[i] == w && out2[i] == w, "concatenation content"); }
  OBSERVE_STR(out);
  LEDGER_OK();
  WITNESS("end");
}
HARNESS(harness_compare_ops) {
  h_init(); STR(a); STR(b);
  uint32_t e = h_equal(a, b);
  CHECK(e == (t_eq(a, b) ? 1u : 2u), "== and != are complementary and mean byte equality");
  uint8_t la[MAXL + 1], lb[MAXL + 1];
  for (int i = 0; i <= MAXL; i++) { la[i] = t_lower(a[i]); lb[i] = t_lower(b[i]); }
  CHECK((h_equalsNoCase(a, b) != 0) == t_eq(la, lb), "equalsNoCase");
  CHECK((h_contains(a, b) != 0) == (t_find(a, b, 0) >= 0), "contains");
  CHECK((h_containsNoCase(a, b) != 0) == (t_find(la, lb, 0) >= 0), "containsNoCase");
  uint64_t na = t_len(a), nb = t_len(b);
  CHECK((h_startsWith(a, b) != 0) == t_occurs_at(a, na, b, nb, 0), "startsWith");
  CHECK((h_endsWith(a, b) != 0) == (nb <= na && t_occurs_at(a, na, b, nb, na - nb)), "endsWith");
  OBSERVE(e);
  LEDGER_OK();
  WITNESS("end");
}
HARNESS(harness_count) {
  h_init(); STR(a); STR(b);
  uint64_t c = h_count(a, b);
  uint64_t la = t_len(a), lb = t_len(b), want = 0;
  for (uint64_t i = 0; i < la; i++) if (t_occurs_at(a, la, b, lb, i)) want++;
  OBSERVE(c);
  CHECK(c == want, "count = number of positions at which the substring occurs");
  LEDGER_OK();
  WITNESS("end");
}
HARNESS(harness_split) {
  /* textbook claim for single-character delimiters (pieces keep their delimiter; the pieces
   * concatenate to the original); any delimiter: memory-safe, terminates, allocator balanced */
  h_init(); STR(a); STR(d);
  uint8_t out[OUTCAP]; uint64_t n = 0;
  IN_U64(which);
  uint64_t len = h_split(a, d, which, out, OUTCAP, (uint8_t*)&n);
  OBSERVE(n); OBSERVE(len);
  if (t_len(d) == 1) {
    uint64_t la = t_len(a), pieces = 0, start = 0, wstart = 0, wend = 0; int found = 0;
    for (uint64_t i = 0; i < la; i++) if (a[i] == d[0]) { if (pieces == which) { wstart = start; wend = i + 1; found = 1; } pieces++; start = i + 1; }
    if (start < la || la == 0) { if (pieces == which) { wstart = start; wend = la; found = 1; } pieces++; }   /* the empty string is one empty piece */
    CHECK(n == pieces, "split: number of pieces");
    if (found) CHECK(t_out_is(out, len, a + wstart, wend - wstart), "split: piece content (delimiter kept at the end of each piece)");
    else CHECK(len == 0, "split: index past the end yields the empty string");
  }
  LEDGER_OK();
  WITNESS("end");
}
HARNESS(harness_replace_char) {
  h_init(); STR(a); IN_U8(f); IN_U8(t);
  uint8_t out[OUTCAP];
  uint64_t n = h_replace_char(a, f, t, out, OUTCAP);
  uint64_t la = t_len(a);
  if (f != 0 && t != 0) {
    CHECK(n == la, "replace(char,char) keeps the length");
    for (uint64_t i = 0; i < la; i++) CHECK(out[i] == (a[i] == f ? t : a[i]), "replace(char,char) content");
  }
  LEDGER_OK();
  WITNESS("end");
}
static uint64_t t_replace(const uint8_t* a, const uint8_t* f, const uint8_t* t, uint8_t* w) {
  /* left-to-right, non-overlapping; an empty pattern replaces nothing */
  uint64_t la = t_len(a), lf = t_len(f), lt = t_len(t), j = 0, i = 0;
  while (i < la) {
    if (lf > 0 && t_occurs_at(a, la, f, lf, i)) { for (uint64_t k = 0; k < lt; k++) w[j++] = t[k]; i += lf; }
    else w[j++] = a[i++];
  }
  w[j] = 0;
  return j;
}
HARNESS(harness_replace) {
  h_init(); STR(a); STR(f); STR(t);
  uint8_t out[OUTCAP], want[OUTCAP];
  uint64_t n = h_replace(a, f, t, out, OUTCAP);
  uint64_t wn = t_replace(a, f, t, want);
  OBSERVE(n); OBSERVE_STR(out);
  CHECK(t_out_is(out, n, want, wn), "replace(from,to) is left-to-right non-overlapping replacement");
  LEDGER_OK();
  WITNESS("end");
}
HARNESS(harness_replace_twice) {
  /* sequences of operations on the same object: buffers of intermediate values are handed back */
  h_init(); STR(a); IN_U8(f1); IN_U8(f2); STR(t);
  ASSUME(f1 != 0 && f2 != 0);
  uint8_t p1[2] = {f1, 0}, p2[2] = {f2, 0};
  uint8_t out[OUTCAP], w1[OUTCAP], w2[OUTCAP];
  uint64_t n = h_replace_twice(a, p1, t, p2, t, out, OUTCAP);
  t_replace(a, p1, t, w1);
  uint64_t wn = t_replace(w1, p2, t, w2);
  CHECK(t_out_is(out, n, w2, wn), "two replacements in sequence");
  LEDGER_OK();
  WITNESS("end");
}
HARNESS(harness_lower) {
  h_init(); STR(a);
  uint8_t out[OUTCAP];
  uint64_t n = h_lowerCase(a, out, OUTCAP);
  uint64_t la = t_len(a);
  CHECK(n == la, "lowerCase length");
  for (uint64_t i = 0; i < la; i++) CHECK(out[i] == t_lower(a[i]), "lowerCase content");
  LEDGER_OK();
  WITNESS("end");
}
HARNESS(harness_printable) {
  h_init(); STR(a);
  uint8_t out[OUTCAP];
  uint64_t la = t_len(a);
  uint64_t n = h_printable(a, out, OUTCAP);
  OBSERVE_STR(out);
  static const char* esc = "abtnvfr";
  static const char* hex = "0123456789ABCDEF";
  uint64_t j = 0;
  for (uint64_t i = 0; i < la; i++) {
    uint8_t c = a[i];
    if (c >= 7 && c <= 13) { CHECK(out[j] == '\\' && out[j + 1] == (uint8_t)esc[c - 7], "printable: short escape"); j += 2; }
    else if (c < 32 || c == 127) { CHECK(out[j] == '\\' && out[j + 1] == 'x' && out[j + 2] == (uint8_t)hex[c >> 4] && out[j + 3] == (uint8_t)hex[c & 15], "printable: hex escape of a control byte"); j += 4; }
    else if (c >= 128) {
      /* plain char may be signed: a byte >= 0x80 is either passed through or hex-escaped with ITS value */
      if (out[j] == c) j += 1;
      else { CHECK(out[j] == '\\' && out[j + 1] == 'x' && out[j + 2] == (uint8_t)hex[c >> 4] && out[j + 3] == (uint8_t)hex[c & 15], "printable: a byte >= 0x80 is shown as itself or as its own hex escape"); j += 4; }
    }
    else { CHECK(out[j] == c, "printable: printable bytes unchanged"); j += 1; }
  }
  CHECK(n == j && out[j] == 0, "printable length");
  LEDGER_OK();
  WITNESS("end");
}
HARNESS(harness_substring) {
  h_init(); STR(a); IN_U64(b); IN_U64(amt);
  uint8_t out[OUTCAP];
  uint64_t n = h_subString2(a, b, amt, out, OUTCAP);
  uint64_t la = t_len(a);
  uint64_t wb = b < la ? b : la, wl = la - wb; if (amt < wl) wl = amt;
  OBSERVE(n);
  CHECK(t_out_is(out, n, a + wb, wl), "subString(begin, amount) = bytes [begin, begin+amount) clipped to the string");
  n = h_subString1(a, b, out, OUTCAP);
  CHECK(t_out_is(out, n, a + wb, la - wb), "subString(begin) = suffix from begin (empty when out of range)");
  LEDGER_OK();
  WITNESS("end");
}
HARNESS(harness_find_at) {
  h_init(); STR(a); IN_U8(ch); IN_U64(from);
  uint64_t la = t_len(a);
  uint64_t r = h_find(a, ch), r2 = h_findFrom(a, from, ch);
  uint64_t w = NPOS, w2 = NPOS;
  for (uint64_t i = 0; i < la; i++) if (a[i] == ch) { w = i; break; }
  for (uint64_t i = from; i < la; i++) if (a[i] == ch) { w2 = i; break; }
  OBSERVE(r); OBSERVE(r2);
  CHECK(r == w, "find(ch): first index or npos");
  CHECK(r2 == w2, "findFrom(pos, ch): first index >= pos or npos");
  IN_U64(pos); ASSUME(pos <= la);              /* at(): documented precondition pos <= size() */
  CHECK((uint8_t)h_at(a, pos) == a[pos], "at(pos)");
  LEDGER_OK();
  WITNESS("end");
}
HARNESS(harness_fromtill) {
  h_init(); STR(a); IN_U8(c1); IN_U8(c2);
  ASSUME(c1 != 0 && c2 != 0);
  uint8_t out[OUTCAP];
  uint64_t n = h_subStringFromTill(a, c1, c2, out, OUTCAP);
  uint64_t la = t_len(a), s = NPOS, e = la;
  for (uint64_t i = 0; i < la; i++) if (a[i] == c1) { s = i; break; }
  if (s == NPOS) CHECK(n == 0, "subStringFromTill: start char absent -> empty");
  else {
    for (uint64_t i = s; i < la; i++) if (a[i] == c2) { e = i; break; }
    CHECK(t_out_is(out, n, a + s, e - s), "subStringFromTill: from first start char up to (excluding) the next end char");
  }
  LEDGER_OK();
  WITNESS("end");
}
HARNESS(harness_copytobuffer) {
  h_init(); STR(a); IN_U64(size); IN_U8(fill);
  ASSUME(size <= MAXL + 3);
  uint8_t buf[MAXL + 3];
  for (int i = 0; i < MAXL + 3; i++) buf[i] = fill;
  h_copyToBuffer(a, buf, size);
  uint64_t la = t_len(a);
  uint64_t k = size == 0 ? 0 : (size - 1 < la ? size - 1 : la);
  for (uint64_t i = 0; i < MAXL + 3; i++) {
    if (size == 0) CHECK(buf[i] == fill, "copyToBuffer with size 0 writes nothing");
    else if (i < k) CHECK(buf[i] == a[i], "copyToBuffer copies a prefix");
    else if (i == k) CHECK(buf[i] == 0, "copyToBuffer terminates inside the buffer");
    else CHECK(buf[i] == fill, "copyToBuffer writes nothing behind the terminator");
  }
  h_copyToBuffer(a, 0, size);
  LEDGER_OK();
  WITNESS("end");
}
HARNESS(harness_pad) {
  h_init(); STR(a); STR(b); IN_U8(ch);
  ASSUME(ch != 0);
  uint8_t o1[OUTCAP], o2[OUTCAP];
  uint64_t n1 = h_pad(a, b, ch, o1, o2, OUTCAP);
  uint64_t la = t_len(a), lb = t_len(b), m = la > lb ? la : lb;
  CHECK(n1 == m && t_len(o2) == m, "padStringsToSameLength: both have the longer length");
  for (uint64_t i = 0; i < m; i++) {
    CHECK(o1[i] == (i < m - la ? ch : a[i - (m - la)]), "pad: first string left-padded");
    CHECK(o2[i] == (i < m - lb ? ch : b[i - (m - lb)]), "pad: second string left-padded");
  }
  LEDGER_OK();
  WITNESS("end");
}

