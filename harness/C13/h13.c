#include "env.c"
#include "translated.h"
#define MAXL 3
static void in_str(uint8_t* b, const char* nm) { (void)nm; }
HARNESS(harness_strstr) {
  h_init();
  IN_ARR_U8(a, MAXL + 1); IN_ARR_U8(b, MAXL + 1);
  a[MAXL] = 0; b[MAXL] = 0;
  int64_t r = (int64_t)h_StrStr(a, b);
  /* textbook: smallest i such that b is a prefix of a+i */
  uint64_t la = 0, lb = 0; while (a[la]) la++; while (b[lb]) lb++;
  int64_t want = -1;
  for (uint64_t i = 0; i + lb <= la && want < 0; i++) { int ok = 1; for (uint64_t j = 0; j < lb; j++) if (a[i + j] != b[j]) ok = 0; if (ok) want = (int64_t)i; }
  OBSERVE(r);
  CHECK(r == want, "StrStr equals textbook first occurrence");
  WITNESS("strstr end");
}
