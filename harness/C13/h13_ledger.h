/* C13 allocator ledger: records the requested size of every string buffer and checks that each
 * buffer comes back exactly once with that size.  The bytes in FRONT of a buffer are a red zone
 * too ("stay inside their buffers" holds on both sides):
 *   CBMC     the buffer starts at offset 0 of its own heap object (ledger kept in side tables
 *            indexed by object number), so an access in front of it is outside every object;
 *   native   the ledger lives in a 16-byte header in front of the buffer, poisoned for ASan while
 *            the buffer is live, so the same access aborts the replay on the real build. */
#define HDR 16
static uint64_t led_allocs, led_frees, led_errors;
#ifdef LL2C_CBMC
static uint8_t led_size1[1024];       /* requested size + 1; 0 = not a live buffer of this allocator */
uint8_t* h_rec_alloc(uint64_t size) {
  CHECK(size < ((uint64_t)1 << 32), "string buffer request is sane (no wrapped size)");
  ENV_ENGINE_ASSERT(size <= ENV_MALLOC_CAP - HDR, "string buffer larger than the harness heap capacity (bound too small)");
  uint8_t* p = env_malloc(size);
  led_size1[__CPROVER_POINTER_OBJECT(p) & 1023] = (uint8_t)(size + 1);
  led_allocs++;
  return p;
}
void h_rec_free(uint8_t* q, uint64_t size) {
  unsigned o = __CPROVER_POINTER_OBJECT(q) & 1023;
  if (led_size1[o] == 0 || __CPROVER_POINTER_OFFSET(q) != 0) led_errors |= 1;     /* not a live buffer of this allocator */
  else if ((uint64_t)led_size1[o] - 1 != size) led_errors |= 2;                    /* returned with a different size */
  led_size1[o] = 0;
  led_frees++;
  env_free(q);
}
#else
#if defined(__SANITIZE_ADDRESS__)
void __asan_poison_memory_region(void const volatile* addr, size_t size);
void __asan_unpoison_memory_region(void const volatile* addr, size_t size);
#define LED_POISON(p, n) __asan_poison_memory_region((p), (n))
#define LED_UNPOISON(p, n) __asan_unpoison_memory_region((p), (n))
#else
#define LED_POISON(p, n) ((void)0)
#define LED_UNPOISON(p, n) ((void)0)
#endif
uint8_t* h_rec_alloc(uint64_t size) {
  CHECK(size < ((uint64_t)1 << 32), "string buffer request is sane (no wrapped size)");
  ENV_ENGINE_ASSERT(size <= ENV_MALLOC_CAP - HDR, "string buffer larger than the harness heap capacity (bound too small)");
  uint8_t* p = env_malloc(size + HDR);
  ((uint64_t*)p)[0] = 0xA110CA7EDULL; ((uint64_t*)p)[1] = size;
  LED_POISON(p, HDR);
  led_allocs++;
  return p + HDR;
}
void h_rec_free(uint8_t* q, uint64_t size) {
  uint8_t* p = q - HDR;
  LED_UNPOISON(p, HDR);
  if (((uint64_t*)p)[0] != 0xA110CA7EDULL) led_errors |= 1;     /* not a live buffer of this allocator */
  if (((uint64_t*)p)[1] != size) led_errors |= 2;               /* returned with a different size */
  ((uint64_t*)p)[0] = 0xDEAD;
  led_frees++;
  env_free(p);
}
#endif
