/* C13: string operations equal their textbook meaning, stay inside their buffers, terminate,
 * and return every internal buffer to the string allocator exactly once with its request size.
 * Oracles below are written from the property text, independently of the implementation. */
#ifndef MAXL
#define MAXL 3
#endif
#ifndef ENV_MALLOC_CAP
#define ENV_MALLOC_CAP 64
#endif
#define ENV_CUSTOM_VSNPRINTF
#include "env.c"
#include "translated.h"

#define OUTCAP 48
#define STR(n) IN_ARR_U8(n, MAXL + 1); n[MAXL] = 0
#define NPOS (~(uint64_t)0)

/* ---- allocator ledger (h13_ledger.h): requested sizes recorded, red zones on both sides of every buffer */
#include "h13_ledger.h"
#define LEDGER_OK() do { CHECK(led_errors == 0, "every buffer is returned with the size it was requested with"); \
                         CHECK(led_allocs == led_frees, "every buffer is returned to the string allocator exactly once"); \
                         CHECK(led_allocs > 0, "operation used the string allocator"); } while (0)

/* ---- textbook helpers */
static uint64_t t_len(const uint8_t* s) { uint64_t n = 0; while (s[n]) n++; return n; }
static int t_occurs_at(const uint8_t* a, uint64_t la, const uint8_t* b, uint64_t lb, uint64_t i) {
  if (i + lb > la) return 0;
  for (uint64_t j = 0; j < lb; j++) if (a[i + j] != b[j]) return 0;
  return 1;
}
static int64_t t_find(const uint8_t* a, const uint8_t* b, uint64_t from) {
  uint64_t la = t_len(a), lb = t_len(b);
  for (uint64_t i = from; i + lb <= la; i++) if (t_occurs_at(a, la, b, lb, i)) return (int64_t)i;
  return -1;
}
static int t_sign(int64_t v) { return v < 0 ? -1 : v > 0 ? 1 : 0; }
static int t_cmp(const uint8_t* a, const uint8_t* b) { uint64_t i = 0; while (a[i] && a[i] == b[i]) i++; return t_sign((int)a[i] - (int)b[i]); }
static int t_eq(const uint8_t* a, const uint8_t* b) { return t_cmp(a, b) == 0; }
static uint8_t t_lower(uint8_t c) { return (c >= 'A' && c <= 'Z') ? (uint8_t)(c + 32) : c; }
static int t_out_is(const uint8_t* out, uint64_t n, const uint8_t* want, uint64_t wn) {
  if (n != wn) return 0;
  for (uint64_t i = 0; i < wn; i++) if (out[i] != want[i]) return 0;
  return out[wn] == 0;
}


/* ---- vsnprintf contract stub (decimal digit generation is libc's job and its division circuits are
 * out of the solver's reach at full width): the stub RECORDS every conversion (directive, length
 * modifier, flags, width, value) and renders  %s %c %x %X %%  faithfully (shift/mask only) and every
 * decimal conversion as the placeholder '#'.  The harness then checks that the code under test asked
 * for the right conversion of the right value and carried the rendered text through unchanged. */
#define MAXREC 8
static struct { uint8_t conv; int8_t lng; uint8_t zero; int32_t width; uint64_t val; } rec[MAXREC];
static uint32_t nrec;
static void f_put(uint8_t* s, uint64_t n, uint64_t* pos, uint8_t c) { if (*pos + 1 < n) s[*pos] = c; (*pos)++; }
uint32_t env_vsnprintf(uint8_t* s, uint64_t n, uint8_t* f, uint8_t* va) {
  va_list* ap = (va_list*)va;
  uint64_t pos = 0;
  nrec = 0;
  for (; *f; f++) {
    if (*f != '%') { f_put(s, n, &pos, *f); continue; }
    f++;
    int zero = 0, width = 0, lng = 0, prec = -1;
    if (*f == '0') { zero = 1; f++; }
    while (*f >= '0' && *f <= '9') { width = width * 10 + (*f - '0'); f++; }
    if (*f == '.') { f++; if (*f == '*') { prec = va_arg(*ap, int); f++; } }
    for (;; f++) { if (*f == 'l') lng++; else if (*f == 'h') lng--; else break; }
    uint8_t c = *f;
    if (c == '%') { f_put(s, n, &pos, '%'); continue; }
    ENV_ENGINE_ASSERT(nrec < MAXREC, "conversion record capacity");
    rec[nrec].conv = c; rec[nrec].lng = (int8_t)lng; rec[nrec].zero = (uint8_t)zero; rec[nrec].width = width;
    if (c == 's') { const uint8_t* a = va_arg(*ap, const uint8_t*); rec[nrec].val = 0; nrec++; for (uint64_t i = 0; a[i]; i++) f_put(s, n, &pos, a[i]); continue; }
    if (c == 'c') { int v = va_arg(*ap, int); rec[nrec].val = (uint64_t)(uint32_t)v; nrec++; f_put(s, n, &pos, (uint8_t)v); continue; }
    if (c == 'd' || c == 'u') { uint64_t v = lng >= 1 ? va_arg(*ap, uint64_t) : (uint64_t)va_arg(*ap, unsigned); rec[nrec].val = v; nrec++; f_put(s, n, &pos, '#'); continue; }
    if (c == 'x' || c == 'X') {
      uint64_t v = lng >= 1 ? va_arg(*ap, uint64_t) : (uint64_t)va_arg(*ap, unsigned);
      rec[nrec].val = v; nrec++;
      int digits = 1; for (int k = 15; k >= 1; k--) if ((v >> (4 * k)) & 15) { digits = k + 1; break; }
      for (int k = digits; k < width; k++) f_put(s, n, &pos, zero ? '0' : ' ');
      for (int k = digits - 1; k >= 0; k--) { unsigned d = (unsigned)((v >> (4 * k)) & 15); f_put(s, n, &pos, (uint8_t)(d < 10 ? '0' + d : (c == 'X' ? 'A' : 'a') + d - 10)); }
      continue;
    }
    if (c == 'g') { double d = va_arg(*ap, double); (void)d; (void)prec; rec[nrec].val = 0; nrec++; f_put(s, n, &pos, '#'); continue; }
    ENV_ENGINE_ASSERT(0, "vsnprintf stub: unsupported directive");
  }
  if (n) s[pos < n ? pos : n - 1] = 0;
  return (uint32_t)pos;
}
static uint64_t t_hex(uint64_t v, uint8_t* w, int upper) { int digits = 1; for (int k = 15; k >= 1; k--) if ((v >> (4 * k)) & 15) { digits = k + 1; break; } uint64_t n = 0; for (int k = digits - 1; k >= 0; k--) { unsigned d = (unsigned)((v >> (4 * k)) & 15); w[n++] = (uint8_t)(d < 10 ? '0' + d : (upper ? 'A' : 'a') + d - 10); } w[n] = 0; return n; }
#define REC1(c, l, v) (nrec == 1 && rec[0].conv == (c) && rec[0].lng == (l) && rec[0].val == (v))

HARNESS(harness_from_int) {
  h_init(); IN_U64(v); IN_U32(kind);
  ASSUME(kind < 6);
  uint8_t out[OUTCAP];
  uint64_t n;
  switch (kind) {
    case 0: n = h_from_int((uint32_t)v, out, OUTCAP); CHECK(REC1('d', 0, (uint64_t)(uint32_t)v), "StringFrom(int) converts the value with %d"); break;
    case 1: n = h_from_uint((uint32_t)v, out, OUTCAP); CHECK(REC1('u', 0, (uint64_t)(uint32_t)v), "StringFrom(unsigned) converts the value with %u"); break;
    case 2: n = h_from_long(v, out, OUTCAP); CHECK(REC1('d', 1, v), "StringFrom(long) converts the value with %ld"); break;
    case 3: n = h_from_ulong(v, out, OUTCAP); CHECK(REC1('u', 1, v), "StringFrom(unsigned long) converts the value with %lu"); break;
    case 4: n = h_from_ll(v, out, OUTCAP); CHECK(REC1('d', 2, v), "StringFrom(long long) converts the value with %lld"); break;
    default: n = h_from_ull(v, out, OUTCAP); CHECK(REC1('u', 2, v), "StringFrom(unsigned long long) converts the value with %llu"); break;
  }
  OBSERVE(n);
  CHECK(n == 1 && out[0] == '#' && out[1] == 0, "the rendered numeral is the whole result");
  LEDGER_OK();
  WITNESS("end");
}
HARNESS(harness_from_misc) {
  h_init(); IN_U32(bv); IN_U8(c); STR(a); IN_U32(mode);
  ASSUME(mode < 3);
  uint8_t out[OUTCAP];
  uint64_t n = h_from_bool(bv, out, OUTCAP);
  CHECK(t_out_is(out, n, (const uint8_t*)(bv ? "true" : "false"), bv ? 4 : 5), "StringFrom(bool)");
  n = h_from_char(c, out, OUTCAP);
  CHECK(n == (c ? 1u : 0u) && out[0] == c, "StringFrom(char)");
  n = h_from_cstr(a, mode, out, OUTCAP);
  if (mode < 2) CHECK(t_out_is(out, n, a, t_len(a)), "StringFrom(const char*) / StringFromOrNull copy the text");
  n = h_from_cstr(0, 1, out, OUTCAP);
  CHECK(t_out_is(out, n, (const uint8_t*)"(null)", 6), "StringFromOrNull(NULL)");
  n = h_from_cstr(0, 2, out, OUTCAP);
  CHECK(t_out_is(out, n, (const uint8_t*)"(null)", 6), "PrintableStringFromOrNull(NULL)");
  n = h_format_s(a, out, OUTCAP);
  CHECK(t_out_is(out, n, a, t_len(a)), "StringFromFormat(\"%s\")");
  LEDGER_OK();
  WITNESS("end");
}
#ifndef HEXKIND
#define HEXKIND 0
#endif
HARNESS(harness_hex) {
  h_init(); IN_U64(v);
  const uint32_t kind = HEXKIND;
  uint8_t out[OUTCAP], w[OUTCAP];
  uint64_t n = h_hex(kind, v, out, OUTCAP), wn;
  OBSERVE_STR(out);
  uint64_t val;
  switch (kind) {
    case 0: case 1: case 8: val = (uint32_t)v; break;
    case 6: case 10: val = (uint8_t)v; break;          /* signed char: its two hex digits (no sign extension shown) */
    default: val = v; break;
  }
  if (kind >= 8) { w[0] = '('; w[1] = '0'; w[2] = 'x'; wn = 3 + t_hex(val, w + 3, 0); w[wn++] = ')'; w[wn] = 0; }
  else wn = t_hex(val, w, 0);
  CHECK(t_out_is(out, n, w, wn), "HexStringFrom / BracketsFormattedHexStringFrom show the value's bits in hexadecimal");
  if (kind == 7) {
    n = h_from_ptr(v, out, OUTCAP);
    w[0] = '0'; w[1] = 'x'; wn = 2 + t_hex(v, w + 2, 0);
    CHECK(t_out_is(out, n, w, wn), "StringFrom(const void*)");
  }
  LEDGER_OK();
  WITNESS("end");
}
HARNESS(harness_binary) {
  h_init(); IN_ARR_U8(a, 3); IN_U64(n); IN_U32(kind);
#ifndef BINMAX
#define BINMAX 3
#endif
  ASSUME(n <= BINMAX && kind < 4);
  uint8_t out[OUTCAP + 32], w[OUTCAP + 32];
  uint64_t len = h_binary(a, n, kind, out, OUTCAP + 32);
  OBSERVE_STR(out);
  uint64_t j = 0;
  if (kind >= 2) { const char* p = "Size = # | HexContents = "; for (int i = 0; p[i]; i++) w[j++] = (uint8_t)p[i]; }
  for (uint64_t i = 0; i < n; i++) { if (i) w[j++] = ' '; w[j++] = (uint8_t)"0123456789ABCDEF"[a[i] >> 4]; w[j++] = (uint8_t)"0123456789ABCDEF"[a[i] & 15]; }
  w[j] = 0;
  CHECK(t_out_is(out, len, w, j), "StringFromBinary*: two upper-case hex digits per byte, blank separated");
  len = h_binary(0, n, 1, out, OUTCAP + 32);
  CHECK(t_out_is(out, len, (const uint8_t*)"(null)", 6), "StringFromBinaryOrNull(NULL)");
  LEDGER_OK();
  WITNESS("end");
}
HARNESS(harness_masked) {
  h_init(); IN_U64(v); IN_U64(mask); IN_U64(bytes);
#ifdef MASKED_ONE
  ASSUME(bytes == 1);
#elif !defined(MASKED_FULL)
  ASSUME(bytes <= 2);
#endif
  ASSUME(bytes != 0);                                /* byteCount 0 is outside the documented use */
  uint8_t out[96];
  uint64_t n = h_masked(v, mask, bytes, out, 96);
  OBSERVE_STR(out);
  uint64_t bits = bytes > 8 ? 64 : bytes * 8, j = 0;
  for (uint64_t i = 0; i < bits; i++) {
    uint64_t bit = 1ULL << (bits - 1 - i);
    uint8_t want = (mask & bit) ? ((v & bit) ? '1' : '0') : 'x';
    CHECK(out[j] == want, "StringFromMaskedBits: one character per bit, msb first, x where masked out");
    j++;
    if ((i % 8) == 7 && i != bits - 1) { CHECK(out[j] == ' ', "StringFromMaskedBits: blank between bytes"); j++; }
  }
  CHECK(n == j, "StringFromMaskedBits length");
  LEDGER_OK();
  WITNESS("end");
}
HARNESS(harness_ordinal) {
  h_init(); IN_U32(v);
  uint8_t out[OUTCAP];
  uint64_t n = h_ordinal(v, out, OUTCAP);
  OBSERVE_STR(out);
  const char* suf = "th";
  if (v < 11 || v > 13) { uint32_t d = v % 10; if (d == 1) suf = "st"; else if (d == 2) suf = "nd"; else if (d == 3) suf = "rd"; }
  CHECK(nrec == 2 && rec[0].conv == 'u' && rec[0].lng == 0 && rec[0].val == v, "StringFromOrdinalNumber prints the number with %u");
  CHECK(n == 3 && out[0] == '#' && out[1] == (uint8_t)suf[0] && out[2] == (uint8_t)suf[1], "ordinal suffix: 11..13 take th, otherwise st/nd/rd/th by the last digit");
  LEDGER_OK();
  WITNESS("end");
}
HARNESS(harness_format_sd) {
  h_init(); STR(a); IN_U32(d);
  uint8_t out[OUTCAP], w[OUTCAP];
  uint64_t n = h_format_sd(a, d, out, OUTCAP);
  uint64_t j = 0, la = t_len(a);
  w[j++] = '<'; for (uint64_t i = 0; i < la; i++) w[j++] = a[i]; w[j++] = '>'; w[j++] = ':'; w[j++] = '#'; w[j] = 0;
  CHECK(t_out_is(out, n, w, j), "StringFromFormat(\"<%s>:%d\") carries literal text and arguments through");
  CHECK(nrec == 2 && rec[1].conv == 'd' && rec[1].val == d, "StringFromFormat passes the variadic arguments on unchanged");
  LEDGER_OK();
  WITNESS("end");
}
