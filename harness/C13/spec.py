SPEC = {
    'property': 'C13',
    'functions_of_interest': ['SimpleString'],
    'groups': [{
        'name': 'prim', 'wrapper': 'w13.cpp', 'harness': 'h13.c',
        'config': {},
        'obligations': [
            {'fn': 'harness_strstr', 'unwind': 6, 'timeout': 120, 'bounds': 'strings <= 3 bytes, full byte range', 'claim': 'StrStr == textbook first occurrence; no out-of-bounds access'},
        ],
    }],
}
