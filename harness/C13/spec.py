B3 = 'operand strings <= 3 bytes over the full byte range; positions/amounts full 64-bit'
B2 = 'operand strings <= 2 bytes over the full byte range; positions/amounts full 64-bit'
def ob(fn, unwind=8, timeout=300, bounds=B3, claim='', **kw):
    d = {'fn': fn, 'unwind': unwind, 'timeout': timeout, 'bounds': bounds, 'claim': claim}
    d.update(kw)
    return d
L2 = ['-DMAXL=2']
L1 = ['-DMAXL=1']
B1 = 'operand strings <= 1 byte over the full byte range'
SPEC = {
    'property': 'C13',
    'functions_of_interest': ['SimpleString', 'StringFrom', 'HexString'],
    'assumptions': ['string allocator = recording allocator over the fixed-capacity CBMC heap model with requested-size red zones (ll2c --heapcheck)',
                    'vsnprintf: class-operation harnesses use the faithful integer/string model of engine/rt/env.c; formatter harnesses use a recording contract stub (decimal digit generation is libc, not CppUTest; %g is outside the claim)'],
    'groups': [{
        'name': 'str', 'wrapper': 'w13.cpp', 'harness': 'h13.c', 'config': {},
        'obligations': [
            ob('harness_strstr', claim='StrStr == first occurrence'),
            ob('harness_strcmp_len'), ob('harness_strncmp'), ob('harness_strncpy'), ob('harness_memcmp'),
            ob('harness_atou_atoi', bounds='4-byte strings, full byte range'),
            ob('harness_ctor_copy'), ob('harness_repeat', unwind=12), ob('harness_concat_append'), ob('harness_compare_ops'),
            ob('harness_count', tier='thorough', timeout=900), ob('harness_count', defines=L2, bounds=B2, tier='quick'),
            ob('harness_split', defines=L2, bounds=B2, tier='thorough', timeout=3600), ob('harness_split', defines=L1, bounds=B1, tier='quick', timeout=600),
            ob('harness_replace_char'),
            ob('harness_replace', tier='thorough', timeout=1800, unwind=14), ob('harness_replace', defines=L2, bounds=B2, tier='quick'),
            ob('harness_replace_twice', defines=L2, bounds=B2, tier='thorough', timeout=3600, unwind=14), ob('harness_replace_twice', defines=L1, bounds=B1, tier='quick', timeout=600),
            ob('harness_lower'),
            ob('harness_printable', unwind=16, defines=L2, bounds=B2, tier='thorough', timeout=3600), ob('harness_printable', unwind=16, defines=L1, bounds=B1, tier='quick', timeout=600),
            ob('harness_substring'), ob('harness_find_at'),
            ob('harness_fromtill'), ob('harness_copytobuffer'),
            ob('harness_pad', defines=L2, bounds=B2, tier='thorough', timeout=3600), ob('harness_pad', defines=L1, bounds=B1, tier='quick', timeout=600),
        ],
    }, {
        'name': 'fmt', 'wrapper': 'w13.cpp', 'harness': 'h13f.c', 'config': {},
        'obligations': [
            ob('harness_from_int', unwind=20, bounds='all 64-bit values, 6 integer overloads'),
            ob('harness_from_misc', unwind=20, defines=L1, bounds=B1, timeout=600), ob('harness_from_misc', unwind=20, defines=L2, bounds=B2, tier='thorough', timeout=3600),
        ] + [ob('harness_hex', unwind=26, defines=['-DHEXKIND=%d' % k], bounds='all 64-bit values, overload #%d of 12' % k) for k in range(12)] + [
            # harness_binary (StringFromBinary*): symex explodes (15M steps, no verdict in 52 min / 27 GB) - not claimed, see DESIGN.md

            ob('harness_masked', unwind=20, bounds='byteCount in {1,2}, all values and masks', tier='thorough', timeout=3600), ob('harness_masked', unwind=12, defines=['-DMASKED_ONE'], bounds='byteCount 1, all values and masks', timeout=600),
            # harness_masked with byteCount up to sizeof(long): out of memory at 27 GB - not claimed
            ob('harness_ordinal', unwind=12, bounds='all 32-bit values'), ob('harness_format_sd', unwind=16),
        ],
    }],
}
