// C13 wrapper: entry points written against the public SimpleString API.
// Results are copied out with a plain loop (not with the code under test).
#include "CppUTest/TestHarness.h"
#include "CppUTest/SimpleString.h"
#include "CppUTest/TestMemoryAllocator.h"
#include "CppUTest/PlatformSpecificFunctions.h"

extern "C" {
void h_env_install(void);
char* h_rec_alloc(unsigned long size);
void h_rec_free(char* p, unsigned long size);
}

// recording string allocator: every buffer request/release goes through the harness' ledger
class RecAllocator : public TestMemoryAllocator
{
public:
    RecAllocator() : TestMemoryAllocator("rec", "rec", "rec") {}
    virtual char* alloc_memory(size_t size, const char*, size_t) CPPUTEST_OVERRIDE { return h_rec_alloc(size); }
    virtual void free_memory(char* memory, size_t size, const char*, size_t) CPPUTEST_OVERRIDE { h_rec_free(memory, size); }
};

static unsigned long copyOut(const SimpleString& s, char* out, unsigned long cap)
{
    const char* p = s.asCharString();
    unsigned long n = 0;
    while (p[n]) { if (n + 1 < cap) out[n] = p[n]; n++; }
    if (cap) out[n < cap ? n : cap - 1] = 0;
    return n;
}

extern "C" {
void h_init(void)
{
    static RecAllocator rec;
    h_env_install();
    SimpleString::setStringAllocator(&rec);
}
// ---- primitives
long h_StrStr(const char* s1, const char* s2) { const char* r = SimpleString::StrStr(s1, s2); return r ? (long)(r - s1) : -1; }
int h_StrCmp(const char* a, const char* b) { return SimpleString::StrCmp(a, b); }
unsigned long h_StrLen(const char* a) { return SimpleString::StrLen(a); }
int h_StrNCmp(const char* a, const char* b, unsigned long n) { return SimpleString::StrNCmp(a, b, n); }
long h_StrNCpy(char* d, const char* s, unsigned long n) { char* r = SimpleString::StrNCpy(d, s, n); return r ? (long)(r - d) : -1; }
int h_MemCmp(const void* a, const void* b, unsigned long n) { return SimpleString::MemCmp(a, b, n); }
int h_AtoI(const char* s) { return SimpleString::AtoI(s); }
unsigned h_AtoU(const char* s) { return SimpleString::AtoU(s); }
int h_ToLower(int c) { return (int)(unsigned char)SimpleString::ToLower((char)c); }
// ---- class operations
unsigned long h_ctor(const char* a, char* out, unsigned long cap) { SimpleString s(a); return copyOut(s, out, cap); }
unsigned long h_copy_assign(const char* a, const char* b, char* out, unsigned long cap)
{
    SimpleString s(a); SimpleString t(b); SimpleString u(s);
    t = u; t = t; u = SimpleString(b);
    return copyOut(t, out, cap);
}
unsigned long h_repeat(const char* a, unsigned long n, char* out, unsigned long cap) { SimpleString s(a, n); return copyOut(s, out, cap); }
unsigned long h_concat(const char* a, const char* b, char* out, unsigned long cap) { SimpleString s(a); SimpleString t(b); SimpleString u = s + t; return copyOut(u, out, cap); }
unsigned long h_append(const char* a, const char* b, int viaCstr, char* out, unsigned long cap)
{
    SimpleString s(a);
    if (viaCstr) s += b; else s += SimpleString(b);
    return copyOut(s, out, cap);
}
int h_equal(const char* a, const char* b) { SimpleString s(a), t(b); return ((s == t) ? 1 : 0) | ((s != t) ? 2 : 0); }
int h_equalsNoCase(const char* a, const char* b) { SimpleString s(a), t(b); return s.equalsNoCase(t); }
int h_contains(const char* a, const char* b) { SimpleString s(a), t(b); return s.contains(t); }
int h_containsNoCase(const char* a, const char* b) { SimpleString s(a), t(b); return s.containsNoCase(t); }
int h_startsWith(const char* a, const char* b) { SimpleString s(a), t(b); return s.startsWith(t); }
int h_endsWith(const char* a, const char* b) { SimpleString s(a), t(b); return s.endsWith(t); }
unsigned long h_count(const char* a, const char* b) { SimpleString s(a), t(b); return s.count(t); }
unsigned long h_size_empty(const char* a) { SimpleString s(a); return s.size() * 2 + (s.isEmpty() ? 1 : 0); }
unsigned long h_split(const char* a, const char* d, unsigned long which, char* out, unsigned long cap, unsigned long* n)
{
    SimpleString s(a), t(d);
    SimpleStringCollection col;
    s.split(t, col);
    *n = col.size();
    return copyOut(col[which], out, cap);
}
unsigned long h_replace_char(const char* a, int from, int to, char* out, unsigned long cap) { SimpleString s(a); s.replace((char)from, (char)to); return copyOut(s, out, cap); }
unsigned long h_replace(const char* a, const char* from, const char* to, char* out, unsigned long cap) { SimpleString s(a); s.replace(from, to); return copyOut(s, out, cap); }
unsigned long h_replace_twice(const char* a, const char* f1, const char* t1, const char* f2, const char* t2, char* out, unsigned long cap)
{
    SimpleString s(a); s.replace(f1, t1); s.replace(f2, t2); return copyOut(s, out, cap);
}
unsigned long h_lowerCase(const char* a, char* out, unsigned long cap) { SimpleString s(a); return copyOut(s.lowerCase(), out, cap); }
unsigned long h_printable(const char* a, char* out, unsigned long cap) { SimpleString s(a); return copyOut(s.printable(), out, cap); }
unsigned long h_subString2(const char* a, unsigned long b, unsigned long n, char* out, unsigned long cap) { SimpleString s(a); return copyOut(s.subString(b, n), out, cap); }
unsigned long h_subString1(const char* a, unsigned long b, char* out, unsigned long cap) { SimpleString s(a); return copyOut(s.subString(b), out, cap); }
int h_at(const char* a, unsigned long pos) { SimpleString s(a); return (int)(unsigned char)s.at(pos); }
unsigned long h_find(const char* a, int ch) { SimpleString s(a); return s.find((char)ch); }
unsigned long h_findFrom(const char* a, unsigned long from, int ch) { SimpleString s(a); return s.findFrom(from, (char)ch); }
unsigned long h_subStringFromTill(const char* a, int c1, int c2, char* out, unsigned long cap) { SimpleString s(a); return copyOut(s.subStringFromTill((char)c1, (char)c2), out, cap); }
void h_copyToBuffer(const char* a, char* buf, unsigned long size) { SimpleString s(a); s.copyToBuffer(buf, size); }
unsigned long h_pad(const char* a, const char* b, int ch, char* out1, char* out2, unsigned long cap)
{
    SimpleString s(a), t(b);
    SimpleString::padStringsToSameLength(s, t, (char)ch);
    copyOut(t, out2, cap);
    return copyOut(s, out1, cap);
}
// ---- formatters
unsigned long h_from_int(int v, char* out, unsigned long cap) { return copyOut(StringFrom(v), out, cap); }
unsigned long h_from_uint(unsigned v, char* out, unsigned long cap) { return copyOut(StringFrom(v), out, cap); }
unsigned long h_from_long(long v, char* out, unsigned long cap) { return copyOut(StringFrom(v), out, cap); }
unsigned long h_from_ulong(unsigned long v, char* out, unsigned long cap) { return copyOut(StringFrom(v), out, cap); }
unsigned long h_from_ll(long long v, char* out, unsigned long cap) { return copyOut(StringFrom(v), out, cap); }
unsigned long h_from_ull(unsigned long long v, char* out, unsigned long cap) { return copyOut(StringFrom(v), out, cap); }
unsigned long h_from_bool(int v, char* out, unsigned long cap) { return copyOut(StringFrom(v != 0), out, cap); }
unsigned long h_from_char(int v, char* out, unsigned long cap) { return copyOut(StringFrom((char)v), out, cap); }
unsigned long h_from_cstr(const char* v, int orNull, char* out, unsigned long cap) { return copyOut(orNull == 0 ? StringFrom(v) : orNull == 1 ? StringFromOrNull(v) : PrintableStringFromOrNull(v), out, cap); }
unsigned long h_from_ptr(unsigned long v, char* out, unsigned long cap) { return copyOut(StringFrom((const void*)v), out, cap); }
unsigned long h_hex(int kind, unsigned long long v, char* out, unsigned long cap)
{
    switch (kind) {
    case 0: return copyOut(HexStringFrom((int)v), out, cap);
    case 1: return copyOut(HexStringFrom((unsigned int)v), out, cap);
    case 2: return copyOut(HexStringFrom((long)v), out, cap);
    case 3: return copyOut(HexStringFrom((unsigned long)v), out, cap);
    case 4: return copyOut(HexStringFrom((long long)v), out, cap);
    case 5: return copyOut(HexStringFrom((unsigned long long)v), out, cap);
    case 6: return copyOut(HexStringFrom((signed char)v), out, cap);
    case 7: return copyOut(HexStringFrom((const void*)v), out, cap);
    case 8: return copyOut(BracketsFormattedHexStringFrom((int)v), out, cap);
    case 9: return copyOut(BracketsFormattedHexStringFrom((unsigned long)v), out, cap);
    case 10: return copyOut(BracketsFormattedHexStringFrom((signed char)v), out, cap);
    default: return copyOut(BracketsFormattedHexStringFrom((long long)v), out, cap);
    }
}
unsigned long h_binary(const unsigned char* v, unsigned long n, int kind, char* out, unsigned long cap)
{
    switch (kind) {
    case 0: return copyOut(StringFromBinary(v, n), out, cap);
    case 1: return copyOut(StringFromBinaryOrNull(v, n), out, cap);
    case 2: return copyOut(StringFromBinaryWithSize(v, n), out, cap);
    default: return copyOut(StringFromBinaryWithSizeOrNull(v, n), out, cap);
    }
}
unsigned long h_masked(unsigned long v, unsigned long mask, unsigned long bytes, char* out, unsigned long cap) { return copyOut(StringFromMaskedBits(v, mask, bytes), out, cap); }
unsigned long h_ordinal(unsigned v, char* out, unsigned long cap) { return copyOut(StringFromOrdinalNumber(v), out, cap); }
unsigned long h_format_sd(const char* s, int d, char* out, unsigned long cap) { return copyOut(StringFromFormat("<%s>:%d", s, d), out, cap); }
unsigned long h_format_s(const char* s, char* out, unsigned long cap) { return copyOut(StringFromFormat("%s", s), out, cap); }
}
