// C13 wrapper: entry points written against the public SimpleString API
#include "CppUTest/TestHarness.h"
#include "CppUTest/SimpleString.h"
extern "C" {
void h_env_install(void);
void h_init(void) { h_env_install(); }
long h_StrStr(const char* s1, const char* s2) { const char* r = SimpleString::StrStr(s1, s2); return r ? (long)(r - s1) : -1; }
int h_StrCmp(const char* a, const char* b) { return SimpleString::StrCmp(a, b); }
unsigned long h_StrLen(const char* a) { return SimpleString::StrLen(a); }
unsigned long h_replace(const char* s, const char* from, const char* to, char* out, unsigned long cap)
{
    SimpleString str(s);
    str.replace(from, to);
    return str.copyToBuffer(out, cap), str.size();
}
}
