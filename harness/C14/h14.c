/* C14 part 1: the leak detector's report and misuse messages are assembled in a fixed 4096-byte buffer and never
 * exceed it, for any history; the text stays terminated; a report states the true total and says so when
 * entries were dropped.
 *
 * Method: INDUCTIVE STEP on the buffer state.  The state (fill position, write limit) is arbitrary within the
 * invariant  filled <= limit <= 4095  and  buffer[filled] == 0, one real operation runs, and the invariant
 * must hold again - so the claim covers every history of operations, not only short ones.
 * vsnprintf is a CONTRACT model: it may store into [str, str+size) only, puts a terminator at
 * str[min(length, size-1)], and returns an ARBITRARY would-be length (any text of any length); the model itself
 * checks that the range it is handed lies inside the 4096-byte buffer (the "canary" of the property text).
 *
 * Terminator bookkeeping: symbolic-index stores into a 4096-byte array cost the solver ~20 s each, so only the
 * single-call harnesses (step_add, step_limits) let the model really store and then read the real byte at the
 * fill position.  The multi-call harnesses (dump, misuse, report) keep the position of the terminator the
 * model last guaranteed in a ghost variable and require  fill position == that position  (nothing but
 * vsnprintf and clear() ever stores into the buffer). */
#define ENV_CUSTOM_VSNPRINTF
#include "env.c"
#include "translated.h"

#define BUFLEN 4096u
static uint8_t* g_buf;              /* address of the fixed buffer under test */
static uint32_t vs_calls, vs_k;
static uint32_t vs_store;           /* 1: the model really stores its terminator, 2: and one text byte at an arbitrary place */
static uint64_t ghost_term;         /* absolute position of the terminator the model guaranteed last */
static uint32_t vs_truncated;       /* some text did not fit into the room it was given */
static uint64_t vs_first_off, vs_max_end, vs_last_len, vs_last_room;
/* texts of the report protocol, recognised by what they say */
static uint32_t n_header, n_toomuch, n_footer, n_warning, n_noleaks, cut_toomuch, cut_footer, cut_warning, cut_noleaks;
static int32_t footer_value;

#ifdef LL2C_CBMC
#define DRAW32(v) uint32_t v = nondet_u32()
#define PTR_SAME(p, q) (__CPROVER_POINTER_OBJECT(p) == __CPROVER_POINTER_OBJECT(q))
#define PTR_DIFF(p, q) ((uint64_t)__CPROVER_POINTER_OFFSET(p) - (uint64_t)__CPROVER_POINTER_OFFSET(q))
#else
#define DRAW32(v) uint32_t v = (uint32_t)hn_input("env_vsnprintf", (int)vs_k++, 32)
#define PTR_SAME(p, q) 1
#define PTR_DIFF(p, q) ((uint64_t)(uintptr_t)(p) - (uint64_t)(uintptr_t)(q))
#endif
static int starts(const uint8_t* f, const char* lit) { for (int i = 0; lit[i]; i++) if (f[i] != (uint8_t)lit[i]) return 0; return 1; }
static uint64_t declen(int32_t d) { uint64_t n = d < 0 ? 2 : 1; uint32_t u = d < 0 ? 0u - (uint32_t)d : (uint32_t)d; uint32_t lim = 10; for (int i = 0; i < 9; i++) { if (u >= lim) n++; lim *= 10; } return n; }

uint32_t env_vsnprintf(uint8_t* s, uint64_t n, uint8_t* f, uint8_t* va) {
  va_list* ap = (va_list*)va;
  DRAW32(anylen); DRAW32(anypos);
  /* the monitor: the range handed to the formatter lies inside the fixed buffer */
  uint64_t off = PTR_DIFF(s, g_buf);
  int inside = PTR_SAME(s, g_buf) && n >= 1 && off < BUFLEN && n <= BUFLEN - off;
  CHECK(inside, "the formatter is only ever told to write inside the 4096-byte buffer");
  ASSUME(inside);
  /* would-be length: literal text has its own length, the footer its real one, anything else is arbitrary */
  uint64_t fl = 0; int directive = 0;
  for (; f[fl]; fl++) if (f[fl] == '%') directive = 1;
  uint64_t len; uint64_t room = n - 1;
  if (!directive) {
    len = fl;
    if (starts(f, "Memory leak(s) found.")) n_header++;
    else if (starts(f, "\netc etc etc etc. !!!! Too many memory leaks to report.")) { n_toomuch++; if (len > room) cut_toomuch = 1; }
    else if (starts(f, "NOTE:\n\tMemory leak reports about malloc and free")) { n_warning++; if (len > room) cut_warning = 1; }
    else if (starts(f, "No memory leaks were detected.")) { n_noleaks++; if (len > room) cut_noleaks = 1; }
  } else if (starts(f, "%s %d\n")) {
    const uint8_t* a = va_arg(*ap, const uint8_t*); int32_t d = va_arg(*ap, int32_t);
    uint64_t la = 0; while (a[la]) la++;
    len = la + 1 + declen(d) + 1;
    if (starts(a, "Total number of leaks:")) { n_footer++; footer_value = d; if (len > room) cut_footer = 1; }
  } else len = anylen & 0x7fffffffu;
  uint64_t end = len < room ? len : room;       /* characters actually stored */
  if (len > room) vs_truncated = 1;
  if (vs_calls == 0) vs_first_off = off;
  if (off + end > vs_max_end) vs_max_end = off + end;
  vs_last_len = len; vs_last_room = room;
  vs_calls++;
  ghost_term = off + end;
  if (vs_store >= 2 && anypos < end) s[anypos] = 'x';
  if (vs_store >= 1) s[end] = 0;
  return (uint32_t)len;
}
static void reset_monitor(uint8_t* buf) { g_buf = buf; vs_calls = 0; vs_truncated = 0; vs_max_end = 0; }

/* ------------------------------------------------------------------ SimpleStringBuffer: inductive steps */
#define ARBITRARY_STATE(store) \
  h_init(); reset_monitor(h_ssb_buf()); vs_store = (store); \
  IN_U64(filled); IN_U64(limit); \
  ASSUME(filled <= BUFLEN - 1 && limit <= BUFLEN - 1);   /* since the fix of KF-C14-1 a limit below the fill level is a legal state: nothing is appended in it */ \
  h_ssb_setup(filled, limit, (store) != 0); ghost_term = filled
#define INVARIANT_AGAIN() do { \
  uint64_t f2 = h_ssb_filled(), l2 = h_ssb_limit(); OBSERVE(f2); OBSERVE(l2); \
  CHECK(f2 <= BUFLEN - 1 && l2 <= BUFLEN - 1 && (f2 <= l2 || f2 <= filled), "after the operation: fill position and write limit stay inside the buffer, and text never grows past the limit"); \
  ASSUME(f2 < BUFLEN); \
  if (vs_store) CHECK(h_ssb_at(f2) == 0, "after the operation: the text is terminated at the fill position"); \
  else CHECK(f2 == ghost_term, "after the operation: the fill position is where the text was terminated last"); } while (0)

static void body_harness_step_add(const int KIND) {
  ARBITRARY_STATE(2);
  IN_ARR_U8(txt, 3); txt[2] = 0; IN_U64(line); IN_U64(size);
  switch (KIND) {
    case 0: h_ssb_add_lit(); break;
    case 1: h_ssb_add_s(txt); break;
    default: h_ssb_add_mixed(txt, line, size, txt); break;
  }
  INVARIANT_AGAIN();
  uint64_t f2 = h_ssb_filled();
  if (filled >= limit) {
    CHECK(vs_calls == 0 && f2 == filled, "a buffer filled up to (or beyond) its write limit is left alone");
  } else {
    CHECK(vs_calls == 1, "one formatting call per add");
    CHECK(vs_first_off == filled, "new text is appended at the fill position");
    CHECK(vs_last_room <= (limit >= filled ? limit - filled : 0), "new text may not pass the write limit");
    uint64_t want = filled + vs_last_len; if (want > limit) want = limit;
    CHECK(f2 == want, "fill position advances by the text length, truncated at the write limit");
  }
  CHECK(h_ssb_limit() == limit, "add leaves the write limit alone");
  WITNESS("end");
}
HARNESS(harness_step_dump) {
  ARBITRARY_STATE(0);
#ifndef DUMPMAX
#define DUMPMAX 3
#endif
  IN_ARR_U8(mem, DUMPMAX); IN_U64(n);
  ASSUME(n <= DUMPMAX);
  h_ssb_dump(mem, n);
  INVARIANT_AGAIN();
  OBSERVE(vs_calls);
  CHECK(h_ssb_filled() >= filled && h_ssb_limit() == limit, "a memory dump only appends");
  CHECK(vs_max_end <= limit || filled >= limit, "no dump line passes the write limit");
  CHECK(n == 0 ? vs_calls == 0 : (vs_calls > 0 || filled >= limit), "an empty block dumps nothing, a non-empty one something unless the buffer is full");
  WITNESS("end");
}
HARNESS(harness_step_limits) {
  ARBITRARY_STATE(1);
  IN_U64(newLimit); IN_U32(op); IN_U64(stalePos); IN_U8(staleByte);
  ASSUME(op < 4 && stalePos < BUFLEN && stalePos != filled);
  h_ssb_stale(stalePos, staleByte);          /* one arbitrary byte of earlier text anywhere else in the buffer */
  CHECK((h_ssb_reached() != 0) == (filled >= limit), "reachedItsCapacity: the fill position has reached the write limit");
  CHECK(h_ssb_tostring_off() == 0, "toString is the start of the buffer");
  switch (op) {
    case 0:
#ifdef KF_C14_1
      ASSUME(newLimit >= filled);      /* open finding: a limit below the fill position breaks the invariant (finding_* below) */
#endif
      h_ssb_set_limit(newLimit);
      CHECK(h_ssb_limit() == (newLimit < BUFLEN - 1 ? newLimit : BUFLEN - 1) && h_ssb_filled() == filled, "setWriteLimit: the given limit, at most 4095");
      break;
    case 1: h_ssb_reset_limit(); CHECK(h_ssb_limit() == BUFLEN - 1 && h_ssb_filled() == filled, "resetWriteLimit: 4095"); break;
    case 2: h_ssb_clear(); CHECK(h_ssb_filled() == 0 && h_ssb_limit() == limit, "clear: empty text, limit kept"); break;
    default: break;
  }
  CHECK(vs_calls == 0, "no formatting");
  INVARIANT_AGAIN();
  WITNESS("end");
}
/* the freshly constructed buffer satisfies the invariant (base case) */
HARNESS(harness_base) {
  h_init(); reset_monitor(h_ssb_buf());
  CHECK(h_buflen() == BUFLEN, "buffer size");
  CHECK(h_ssb_filled() == 0 && h_ssb_limit() == BUFLEN - 1 && h_ssb_at(0) == 0, "constructed: empty, limit 4095, terminated");
  reset_monitor(h_mlb_buf());
  CHECK(h_mlb_filled() == 0 && h_mlb_limit() == BUFLEN - 1 && h_mlb_at(0) == 0, "constructed report buffer: empty, limit 4095, terminated");
  WITNESS("end");
}

/* ------------------------------------------------------------------ report protocol: start; K leaks; stop */
#define MLB_INVARIANT() do { \
  uint64_t f2 = h_mlb_filled(), l2 = h_mlb_limit(); \
  CHECK(f2 <= BUFLEN - 1 && l2 <= BUFLEN - 1, "report buffer: fill position and write limit stay inside the buffer (<= 4095)"); \
  CHECK(f2 == ghost_term, "report buffer: the fill position is where the text was terminated last"); } while (0)
#ifndef LEAKMAX
#define LEAKMAX 2
#endif
#define MLB_ARBITRARY_STATE() \
  h_init(); reset_monitor(h_mlb_buf()); vs_store = 0; \
  IN_U64(filled); IN_U64(limit); IN_U64(staleTotal); IN_BOOL(staleWarn); \
  ASSUME(filled <= BUFLEN - 1 && limit <= BUFLEN - 1);   /* since the fix of KF-C14-1 a limit below the fill level is a legal state: nothing is appended in it */ \
  h_mlb_setup(filled, limit, staleTotal, staleWarn); ghost_term = filled    /* any history of misuse messages and earlier reports */

static void body_harness_report(const int K, const int CLEARED) {
  MLB_ARBITRARY_STATE();
  if (CLEARED) {                                                               /* as at the start of every test */
    h_mlb_clear(); filled = 0; ghost_term = 0;
    CHECK(h_mlb_filled() == 0 && h_mlb_at(0) == 0, "clear: empty, terminated text");
  }
  h_mlb_start();
  CHECK(vs_calls == 0, "starting a report writes nothing");
  uint64_t lowered = h_mlb_limit();
  CHECK(lowered < BUFLEN - 1, "the write limit is lowered while leaks are listed");
#ifdef KF_C14_1
  ASSUME(filled <= lowered);          /* open finding: text already beyond the lowered limit (finding_* below) */
#endif
  MLB_INVARIANT();
  IN_ARR_U8(mem, LEAKMAX * 3); IN_ARR_U64(size, 3); IN_ARR_U32(kind, 3); IN_ARR_U8(file, 9); IN_ARR_U32(number, 3); IN_ARR_U64(line, 3);
  uint32_t anyMalloc = 0;
  for (int i = 0; i < K; i++) {
    ASSUME(size[i] <= LEAKMAX && kind[i] < 3);
    file[3 * i + 2] = 0;
    h_mlb_leak(i, &mem[LEAKMAX * i], number[i], size[i], kind[i], &file[3 * i], line[i]);
    if (kind[i] == 0) anyMalloc = 1;
    MLB_INVARIANT();
    CHECK(vs_max_end <= lowered, "no leak entry passes the lowered limit");
  }
  uint32_t dropped = vs_truncated;                 /* some entry (or the header) was cut */
  uint32_t reached = h_mlb_filled() >= h_mlb_limit();
  CHECK(n_header == ((K > 0 && filled < lowered) ? 1u : 0u), "the report has one header iff there are leaks (and room at all)");
  h_mlb_stop();
  MLB_INVARIANT();
  OBSERVE(h_mlb_filled()); OBSERVE(n_footer); OBSERVE(n_toomuch);
  if (K == 0) {
    CHECK(n_noleaks == (filled < lowered ? 1u : 0u) && n_footer == 0 && n_toomuch == 0 && n_warning == 0, "no leaks: the report says so and nothing else");
    if (CLEARED) CHECK(n_noleaks == 1 && !cut_noleaks, "no leaks, cleared buffer: the message is complete");
  } else {
    CHECK(h_mlb_limit() == BUFLEN - 1, "the write limit is restored for the footer");
    /* the footer reserve only exists when the text did not already lie beyond the lowered limit (always true from a
     * cleared buffer, i.e. at the start of every test); otherwise only safety is required, checked above */
    if (CLEARED || filled <= lowered) {
    CHECK(n_footer == 1 && footer_value == K, "the footer states the true total number of leaks");
    CHECK(!cut_footer, "the footer always fits");
    CHECK(!dropped || n_toomuch == 1, "dropped entries: the report says so");
    CHECK((n_toomuch == 1) == (reached != 0) && n_toomuch <= 1, "the too-many notice appears iff the listing reached its capacity");
    CHECK(!cut_toomuch, "the too-many notice always fits");
    CHECK(n_warning == anyMalloc, "the malloc note appears iff a malloc leak was reported");
    CHECK(!cut_warning, "the malloc note always fits");
    }
    CHECK(n_noleaks == 0, "leaks: no all-clear message");
  }
  WITNESS("end");
}
/* misuse messages: three appends to the same buffer, then the text is handed to the failure reporter */
static uint32_t fail_calls; static uint64_t fail_off;
void h_fail_hook(uint8_t* text) { fail_calls++; fail_off = PTR_DIFF(text, g_buf); }
HARNESS(harness_misuse) {
  MLB_ARBITRARY_STATE();
  IN_U32(mkind); IN_ARR_U8(mem, 2); IN_U64(size); IN_U32(akind); IN_U32(fkind); IN_ARR_U8(afile, 3); IN_ARR_U8(ffile, 3); IN_U64(aline); IN_U64(fline);
  ASSUME(mkind < 3 && akind < 3 && fkind < 3); afile[2] = 0; ffile[2] = 0;
  h_mlb_misuse(mkind, 0, mem, size, akind, afile, aline, ffile, fline, fkind);
  MLB_INVARIANT();
  OBSERVE(h_mlb_filled());
  CHECK(fail_calls == 1 && fail_off == 0, "the misuse is reported once, with the buffer text");
  CHECK((vs_max_end <= limit || filled >= limit) && h_mlb_limit() == limit && h_mlb_filled() >= filled, "misuse text is appended within the write limit");
  CHECK(vs_calls == 3 || h_mlb_filled() >= limit, "three lines (what happened, where allocated, where freed) unless the buffer is full");
  WITNESS("end");
}

/* ------------------------------------------------------------------ open finding KF_C14_1 (not part of spec.py: these FAIL)
 * setWriteLimit may put the limit below the fill position; add() then computes limit - filled, which wraps,
 * and hands vsnprintf a size of about 2^64 at buffer_+filled. */
HARNESS(finding_limit_below_fill_then_add) {
  ARBITRARY_STATE(0);
  IN_U64(newLimit);
  h_ssb_set_limit(newLimit);
  h_ssb_add_lit();
  INVARIANT_AGAIN();
  WITNESS("end");
}
/* the same through the public protocol only: cleared buffer, ONE misuse message (long file names), then a report with one leak */
HARNESS(finding_report_after_misuse) {
  h_init(); reset_monitor(h_mlb_buf()); vs_store = 0;
  h_mlb_clear(); ghost_term = 0;
  IN_ARR_U8(mem, 2); IN_ARR_U8(afile, 3); afile[2] = 0;
  h_mlb_misuse(1, 0, mem, 2, 0, afile, 1, afile, 2, 1);
  MLB_INVARIANT();
  h_mlb_start();
  h_mlb_leak(1, mem, 1, 2, 0, afile, 1);
  h_mlb_stop();
  MLB_INVARIANT();
  WITNESS("end");
}

#define K1(f, k) HARNESS(f##_##k) { body_##f(k); }
K1(harness_step_add, 0) K1(harness_step_add, 1) K1(harness_step_add, 2)
#define K2(f, k, c) HARNESS(f##_##k##_##c) { body_##f(k, c); }
K2(harness_report, 0, 0) K2(harness_report, 1, 0) K2(harness_report, 2, 0) K2(harness_report, 3, 0)
K2(harness_report, 0, 1) K2(harness_report, 1, 1) K2(harness_report, 2, 1) K2(harness_report, 3, 1)
