/* C14 part 2: building the message of any failing check terminates, reads only the operands' own bytes,
 * shows both operands (escaped when not printable), and the "difference starts at position N" it prints is
 * the first index at which the operands differ.
 *
 * The expected message is assembled below from the documented message layout and a reference escaping
 * function; operand bytes are symbolic over the whole byte range; where the class takes pointers every
 * NULL / non-NULL combination is its own obligation (a symbolic pointer would make every string loop
 * unbounded for the symbolic executor).  Reads outside the operands are caught by CBMC's pointer checks on the exactly-sized operand
 * arrays and by the heap red zones of the engine (every SimpleString buffer is checked against its
 * requested size).  Termination: unwinding assertions.
 * vsnprintf: %s %c %x %X rendered faithfully; decimal conversions are rendered as one '#' per digit (the
 * digit characters themselves are libc's business) and recorded, so "position N" is checked on the value. */
#ifndef MAXL
#define MAXL 1
#endif
#ifndef ENV_MALLOC_CAP
#define ENV_MALLOC_CAP 64
#endif
#define ENV_CUSTOM_VSNPRINTF
#define ENV_CUSTOM_MALLOC
#define ENV_CUSTOM_NEW
#include "env.c"
#include "zheap.h"
#include "translated.h"

#define OUTCAP 224
#define STR(n) IN_ARR_U8(n, MAXL + 1); n[MAXL] = 0

/* ---------------------------------------------------------------- vsnprintf stub (see h13f.c) */
#define MAXREC 8
static struct { uint8_t conv; int8_t lng; uint64_t val; } rec[MAXREC];
static uint32_t nrec;
static void f_put(uint8_t* s, uint64_t n, uint64_t* pos, uint8_t c) { if (*pos + 1 < n) s[*pos] = c; (*pos)++; }
static int t_digits(uint64_t v) { int d = 1; uint64_t lim = 10; for (int i = 0; i < 19; i++) { if (v >= lim) d++; lim *= 10; } return d; }
uint32_t env_vsnprintf(uint8_t* s, uint64_t n, uint8_t* f, uint8_t* va) {
  va_list* ap = (va_list*)va;
  uint64_t pos = 0;
  for (; *f; f++) {
    if (*f != '%') { f_put(s, n, &pos, *f); continue; }
    f++;
    int zero = 0, width = 0, lng = 0, prec = -1;
    if (*f == '0') { zero = 1; f++; }
    while (*f >= '0' && *f <= '9') { width = width * 10 + (*f - '0'); f++; }
    if (*f == '.') { f++; if (*f == '*') { prec = va_arg(*ap, int); f++; } }
    for (;; f++) { if (*f == 'l') lng++; else if (*f == 'h') lng--; else break; }
    uint8_t c = *f;
    if (c == '%') { f_put(s, n, &pos, '%'); continue; }
    if (c == 's') { const uint8_t* a = va_arg(*ap, const uint8_t*); for (uint64_t i = 0; a[i]; i++) f_put(s, n, &pos, a[i]); continue; }
    if (c == 'c') { int v = va_arg(*ap, int); f_put(s, n, &pos, (uint8_t)v); continue; }
    if (c == 'd' || c == 'u') {
      uint64_t v = lng >= 1 ? va_arg(*ap, uint64_t) : (c == 'd' ? (uint64_t)(int64_t)va_arg(*ap, int) : (uint64_t)va_arg(*ap, unsigned));
      if (nrec < MAXREC) { rec[nrec].conv = c; rec[nrec].lng = (int8_t)lng; rec[nrec].val = v; nrec++; }
      if (c == 'd' && (int64_t)v < 0) { f_put(s, n, &pos, '-'); v = 0 - v; }
      int d = t_digits(v);
      for (int k = 0; k < d; k++) f_put(s, n, &pos, '#');
      continue;
    }
    if (c == 'x' || c == 'X') {
      uint64_t v = lng >= 1 ? va_arg(*ap, uint64_t) : (uint64_t)va_arg(*ap, unsigned);
      int digits = 1; for (int k = 15; k >= 1; k--) if ((v >> (4 * k)) & 15) { digits = k + 1; break; }
      for (int k = digits; k < width; k++) f_put(s, n, &pos, zero ? '0' : ' ');
      for (int k = digits - 1; k >= 0; k--) { unsigned dg = (unsigned)((v >> (4 * k)) & 15); f_put(s, n, &pos, (uint8_t)(dg < 10 ? '0' + dg : (c == 'X' ? 'A' : 'a') + dg - 10)); }
      continue;
    }
    if (c == 'g') { double d = va_arg(*ap, double); (void)d; (void)prec; f_put(s, n, &pos, '#'); continue; }
    ENV_ENGINE_ASSERT(0, "vsnprintf stub: unsupported directive");
  }
  if (n) s[pos < n ? pos : n - 1] = 0;
  return (uint32_t)pos;
}

/* ---------------------------------------------------------------- reference text functions */
/* every loop of the reference code has a constant bound (TMAX) so that the symbolic executor can stop it; the bound is never the limiting factor (checked) */
#define TMAX 224
static uint64_t t_len(const uint8_t* s) { uint64_t n = 0; while (n < TMAX && s[n]) n++; ENV_ENGINE_ASSERT(n < TMAX, "reference text within TMAX"); return n; }
static uint8_t t_lower(uint8_t c) { return (c >= 'A' && c <= 'Z') ? (uint8_t)(c + 32) : c; }
static void app(uint8_t* dst, uint64_t* n, const char* s) { for (uint64_t i = 0; s[i]; i++) dst[(*n)++] = (uint8_t)s[i]; dst[*n] = 0; }
static void appu(uint8_t* dst, uint64_t* n, const uint8_t* s) { for (uint64_t i = 0; i < 24 && s[i]; i++) dst[(*n)++] = s[i]; dst[*n] = 0; }      /* operand texts: at most 4*MAXL+6 < 24 characters */
static void appc(uint8_t* dst, uint64_t* n, uint8_t c, uint64_t times) { ENV_ENGINE_ASSERT(times <= 80, "reference padding within 80"); for (uint64_t i = 0; i < 80 && i < times; i++) dst[(*n)++] = c; dst[*n] = 0; }
static const char HEXU[] = "0123456789ABCDEF";
static const char HEXL[] = "0123456789abcdef";
/* escaping of what is not printable: \a \b \t \n \v \f \r for 7..13, \xHH for every other byte outside 0x20..0x7e */
static void t_printable(const uint8_t* s, uint8_t* dst) {
  uint64_t n = 0; dst[0] = 0;
  for (uint64_t i = 0; i < MAXL && s[i]; i++) {
    uint8_t c = s[i];
    if (c >= 7 && c <= 13) { dst[n++] = '\\'; dst[n++] = (uint8_t)"abtnvfr"[c - 7]; }
    else if (c < 0x20 || c >= 0x7f) { dst[n++] = '\\'; dst[n++] = 'x'; dst[n++] = (uint8_t)HEXU[c >> 4]; dst[n++] = (uint8_t)HEXU[c & 15]; }
    else dst[n++] = c;
    dst[n] = 0;
  }
}
static void t_hex(uint64_t v, uint8_t* dst, uint64_t* n) {
  int digits = 1; for (int k = 15; k >= 1; k--) if ((v >> (4 * k)) & 15) { digits = k + 1; break; }
  for (int k = digits - 1; k >= 0; k--) dst[(*n)++] = (uint8_t)HEXL[(v >> (4 * k)) & 15];
  dst[*n] = 0;
}
static int out_is(const uint8_t* out, uint64_t n, const uint8_t* want, uint64_t wn) {
  if (n != wn || wn >= OUTCAP) return 0;
  for (uint64_t i = 0; i < OUTCAP; i++) if (i < wn && out[i] != want[i]) return 0;
  return out[wn] == 0;
}
/* the optional user text in front of every message */
static void user_text(uint8_t* w, uint64_t* n, const uint8_t* text) { if (text[0]) { app(w, n, "Message: "); appu(w, n, text); app(w, n, "\n\t"); } }
/* "\n\tdifference starts at position N at: <20 characters around it>\n\t      ^" */
static void difference_marker(uint8_t* w, uint64_t* n, const uint8_t* shown, uint64_t shownPos, uint64_t reportedPos) {
  uint8_t padded[96] = {0}; uint64_t pn = 0;
  appc(padded, &pn, ' ', 10); appu(padded, &pn, shown); appc(padded, &pn, ' ', 10);
  uint64_t lead = *n;
  app(w, n, "\n\tdifference starts at position "); appc(w, n, '#', (uint64_t)t_digits(reportedPos)); app(w, n, " at: <");
  uint64_t headline = *n - lead - 2;                /* without "\n\t" */
  for (uint64_t k = 0; k < 20 && shownPos + k < pn; k++) w[(*n)++] = padded[shownPos + k];
  w[*n] = 0;
  app(w, n, ">\n\t"); appc(w, n, ' ', headline + 10); app(w, n, "^");
}

/* ---------------------------------------------------------------- the marker renderer in the solver world of the 'msg' group
 * TestFailure::createDifferenceAtPosString builds ~110-character strings (20-character window, caret line); with them
 * every constructor obligation needs 168-byte heap objects and does not finish.  Decomposition: in the translated
 * (solver) world of this group the renderer is a RECORDING stub - the constructor obligations check that it is
 * called once with (shown actual text, index of the first difference in the shown text, index of the first
 * difference of the operands); the renderer itself is checked for all such arguments by harness_marker in the
 * 'long' group.  The real build runs the real renderer and the full message is compared there. */
#if defined(MARKER_STUBBED) && defined(LL2C_TRANSLATED)
#define MARKER_IS_STUB 1
void _ZN12SimpleStringC2EPKc(uint8_t*, uint8_t*);
uint8_t* _ZNK12SimpleString12asCharStringEv(uint8_t*);
static uint32_t marker_calls; static uint64_t marker_offset, marker_pos; static uint8_t marker_text[32];
void _ZN11TestFailure27createDifferenceAtPosStringERK12SimpleStringmm(uint8_t* result, uint8_t* self, uint8_t* actual, uint64_t offset, uint64_t pos) {
  (void)self;
  const uint8_t* t = _ZNK12SimpleString12asCharStringEv(actual);
  uint64_t i = 0; for (; i < 31 && t[i]; i++) marker_text[i] = t[i];
  marker_text[i] = 0;
  marker_calls++; marker_offset = offset; marker_pos = pos;
  _ZN12SimpleStringC2EPKc(result, (uint8_t*)"");
}
#else
#define MARKER_IS_STUB 0
static uint32_t marker_calls; static uint64_t marker_offset, marker_pos; static uint8_t marker_text[32];
#endif
static int text_is(const uint8_t* a, const uint8_t* b) { for (uint64_t i = 0; i < 32; i++) { if (a[i] != b[i]) return 0; if (!a[i]) return 1; } return 0; }
/* the part of the message after "expected <..> but was <..>": in the stubbed world the recorded call, in the real world the text */
static void expect_marker(uint8_t* w, uint64_t* wn, const uint8_t* shown, uint64_t shownPos, uint64_t reportedPos) {
  if (MARKER_IS_STUB) {
    CHECK(marker_calls == 1, "the difference is marked once");
    CHECK(marker_pos == reportedPos, "the position handed to the marker is the first index at which the operands differ");
    CHECK(marker_offset == shownPos, "the marker points at the first difference of the shown texts");
    CHECK(text_is(marker_text, shown), "the marker window is cut from the shown actual text");
  } else {
    difference_marker(w, wn, shown, shownPos, reportedPos);
    if (nrec) { int found = 0; for (uint32_t k = 0; k < nrec && k < MAXREC; k++) if (rec[k].conv == 'u' && rec[k].lng == 1) { found++; CHECK(rec[k].val == reportedPos, "the printed position is the first index at which the operands differ"); }
                CHECK(found == 1, "the position is printed once"); }
  }
}

/* ---------------------------------------------------------------- first-difference classes: CHECK_EQUAL, STRCMP_EQUAL, STRCMP_NOCASE_EQUAL */
static void body_harness_diff(const int KIND, const int enull, const int anull) {   /* NULL-ness is a constant per obligation: a symbolic pointer would unbound every string loop */
  h_init();
  STR(e); STR(a);
  const int nocase = KIND == 2;
  uint8_t E[4 * MAXL + 8] = {0}, A[4 * MAXL + 8] = {0};
  if (enull) { uint64_t k = 0; app(E, &k, "(null)"); } else t_printable(e, E);
  if (anull) { uint64_t k = 0; app(A, &k, "(null)"); } else t_printable(a, A);
  /* first index at which the operands differ / at which what is shown differs */
  uint64_t N = 0, P = 0;
  if (!enull && !anull) {
    while (N < MAXL && e[N] && (nocase ? t_lower(e[N]) == t_lower(a[N]) : e[N] == a[N])) N++;
    int same = nocase ? t_lower(e[N]) == t_lower(a[N]) : e[N] == a[N];
    /* STRCMP checks build this failure only for operands that differ; CHECK_EQUAL compares the VALUES, their texts may coincide */
    if (KIND != 0) ASSUME(!same);
    while (P < 4 * MAXL && E[P] && (nocase ? t_lower(E[P]) == t_lower(A[P]) : E[P] == A[P])) P++;
    int shown_same = nocase ? t_lower(E[P]) == t_lower(A[P]) : E[P] == A[P];
#ifdef KF_C14_2
    ASSUME(!shown_same);     /* open finding: operands whose shown forms coincide ("\n" vs "\\n", equal texts) - the scans run past the terminator */
#else
    (void)shown_same;
#endif
  }
  nrec = 0;
  uint8_t out[OUTCAP] = {0};
  uint64_t n = h_msg_text(KIND, enull ? (uint8_t*)0 : e, anull ? (uint8_t*)0 : a, (uint8_t*)"", out, OUTCAP);
  uint8_t w[OUTCAP] = {0}; uint64_t wn = 0;
  app(w, &wn, "expected <"); appu(w, &wn, E); app(w, &wn, ">\n\tbut was  <"); appu(w, &wn, A); app(w, &wn, ">");
  if (!enull && !anull) expect_marker(w, &wn, A, P, N);
  else CHECK(marker_calls == 0, "no position without two texts");
  OBSERVE(N); OBSERVE(P);
  CHECK(out_is(out, n, w, wn), "the message shows both operands, escaped when not printable, and marks the difference in the shown text");
  WITNESS("end");
}
/* ---------------------------------------------------------------- classes that only show their operands */
static void body_harness_show(const int KIND, const int enull, const int anull) {   /* 3 EqualsFailure(char*), 4 EqualsFailure(SimpleString), 5 Contains, 6 Check, 7 Comparison, 8 Fail, 9 FeatureUnsupported */
  h_init();
  STR(e); STR(a); IN_ARR_U8(text, 2); text[1] = 0;
  if (KIND == 8) ASSUME(text[0] == 0);                        /* FAIL has only its message */
  uint8_t out[OUTCAP] = {0};
  uint64_t n = h_msg_text(KIND, enull ? (uint8_t*)0 : e, anull ? (uint8_t*)0 : a, text, out, OUTCAP);
  OBSERVE_STR(out);
  const uint8_t* E = enull ? (const uint8_t*)"(null)" : e; const uint8_t* A = anull ? (const uint8_t*)"(null)" : a;
  uint8_t w[OUTCAP] = {0}; uint64_t wn = 0;
  user_text(w, &wn, text);
  switch (KIND) {
    case 3: case 4: app(w, &wn, "expected <"); appu(w, &wn, E); app(w, &wn, ">\n\tbut was  <"); appu(w, &wn, A); app(w, &wn, ">"); break;
    case 5: app(w, &wn, "actual <"); appu(w, &wn, A); app(w, &wn, ">\n\tdid not contain  <"); appu(w, &wn, E); app(w, &wn, ">"); break;
    case 6: case 7: appu(w, &wn, E); app(w, &wn, "("); appu(w, &wn, A); app(w, &wn, ") failed"); break;
    case 8: appu(w, &wn, E); break;
    default: app(w, &wn, "The feature \""); appu(w, &wn, E); app(w, &wn, "\" is not supported in this environment or with the feature set selected when building the library."); break;
  }
  CHECK(out_is(out, n, w, wn), "the message shows the operands and the user's text");
  WITNESS("end");
}
/* ---------------------------------------------------------------- MEMCMP_EQUAL */
#ifndef BINMAX
#define BINMAX 2
#endif
static void body_harness_binary(const int enull, const int anull) {
  h_init();
  IN_ARR_U8(e, BINMAX); IN_ARR_U8(a, BINMAX); IN_U64(size);
  ASSUME(size <= BINMAX);
  uint64_t N = 0;
  if (!enull && !anull) { while (N < BINMAX && N < size && e[N] == a[N]) N++; ASSUME(N < size); }   /* the check fails only for blocks that differ */
  nrec = 0;
  uint8_t out[OUTCAP] = {0};
  uint64_t n = h_msg_binary(enull ? (uint8_t*)0 : e, anull ? (uint8_t*)0 : a, size, out, OUTCAP);
  uint8_t E[3 * BINMAX + 8] = {0}, A[3 * BINMAX + 8] = {0}; uint64_t k;
  k = 0; if (enull) app(E, &k, "(null)"); else for (uint64_t i = 0; i < BINMAX && i < size; i++) { if (i) E[k++] = ' '; E[k++] = (uint8_t)HEXU[e[i] >> 4]; E[k++] = (uint8_t)HEXU[e[i] & 15]; E[k] = 0; }
  k = 0; if (anull) app(A, &k, "(null)"); else for (uint64_t i = 0; i < BINMAX && i < size; i++) { if (i) A[k++] = ' '; A[k++] = (uint8_t)HEXU[a[i] >> 4]; A[k++] = (uint8_t)HEXU[a[i] & 15]; A[k] = 0; }
  uint8_t w[OUTCAP] = {0}; uint64_t wn = 0;
  app(w, &wn, "expected <"); appu(w, &wn, E); app(w, &wn, ">\n\tbut was  <"); appu(w, &wn, A); app(w, &wn, ">");
  if (!enull && !anull) expect_marker(w, &wn, A, 3 * N + 1, N);
  else CHECK(marker_calls == 0, "no position without two blocks");
  OBSERVE(N);
  CHECK(out_is(out, n, w, wn), "the message shows both blocks in hexadecimal and marks the first differing byte");
  WITNESS("end");
}
/* ---------------------------------------------------------------- integer classes: decimal and hexadecimal form of both operands */
static void dec_placeholder(uint8_t* dst, uint64_t* n, uint64_t v, int is_signed) {
  if (is_signed && (int64_t)v < 0) { dst[(*n)++] = '-'; v = 0 - v; }
  appc(dst, n, '#', (uint64_t)t_digits(v));
}
static void body_harness_number(const int KIND) {  /* 0 long 1 unsigned long 2 long long 3 unsigned long long 4 signed char */
  h_init(); IN_U64(e); IN_U64(a);
  const int is_signed = KIND == 0 || KIND == 2 || KIND == 4;
  if (KIND == 4) { e = (uint64_t)(int64_t)(int8_t)e; a = (uint64_t)(int64_t)(int8_t)a; }
#ifdef NUMMAX
  /* magnitudes up to NUMMAX (full 64-bit operands do not finish: the texts have up to 20 + 16 digits each) */
  if (is_signed) ASSUME((int64_t)e >= -(int64_t)NUMMAX && (int64_t)e <= (int64_t)NUMMAX && (int64_t)a >= -(int64_t)NUMMAX && (int64_t)a <= (int64_t)NUMMAX);
  else ASSUME(e <= NUMMAX && a <= NUMMAX);
#endif
  nrec = 0;
  uint8_t out[OUTCAP] = {0};
  uint64_t n = h_msg_number(KIND, e, a, out, OUTCAP);
  OBSERVE_STR(out);
  uint8_t ED[24] = {0}, AD[24] = {0}; uint64_t en = 0, an = 0;
  dec_placeholder(ED, &en, e, is_signed); dec_placeholder(AD, &an, a, is_signed);
  uint64_t width = en > an ? en : an;                       /* the shorter number is right-aligned to the longer */
  uint8_t w[OUTCAP] = {0}; uint64_t wn = 0;
  app(w, &wn, "expected <"); appc(w, &wn, ' ', width - en); appu(w, &wn, ED); app(w, &wn, " (0x"); t_hex(KIND == 4 ? (uint64_t)(uint8_t)e : e, w, &wn); app(w, &wn, ")>\n\tbut was  <");
  appc(w, &wn, ' ', width - an); appu(w, &wn, AD); app(w, &wn, " (0x"); t_hex(KIND == 4 ? (uint64_t)(uint8_t)a : a, w, &wn); app(w, &wn, ")>");
  CHECK(out_is(out, n, w, wn), "the message shows both operands in decimal (aligned) and hexadecimal");
  CHECK(nrec == 2 && rec[0].val == a && rec[1].val == e, "the decimal forms are those of the two operands");
  WITNESS("end");
}
/* ---------------------------------------------------------------- BITS_EQUAL */
#ifndef BITBYTES
#define BITBYTES 1
#endif
static void t_bits(uint8_t* dst, uint64_t* n, uint64_t v, uint64_t mask, uint64_t bytes) {
  uint64_t bits = bytes * 8;
  for (uint64_t i = 0; i < bits; i++) { uint64_t bit = 1ULL << (bits - 1 - i); dst[(*n)++] = (mask & bit) ? ((v & bit) ? '1' : '0') : 'x'; if ((i % 8) == 7 && i != bits - 1) dst[(*n)++] = ' '; }
  dst[*n] = 0;
}
HARNESS(harness_bits) {
  h_init(); IN_U64(e); IN_U64(a); IN_U64(mask); IN_U64(bytes);
  ASSUME(bytes >= 1 && bytes <= BITBYTES);
  uint8_t out[OUTCAP] = {0};
  uint64_t n = h_msg_bits(e, a, mask, bytes, out, OUTCAP);
  OBSERVE_STR(out);
  uint8_t w[OUTCAP] = {0}; uint64_t wn = 0;
  app(w, &wn, "expected <"); t_bits(w, &wn, e, mask, bytes); app(w, &wn, ">\n\tbut was  <"); t_bits(w, &wn, a, mask, bytes); app(w, &wn, ">");
  CHECK(out_is(out, n, w, wn), "the message shows the compared bits of both operands, x where masked out");
  WITNESS("end");
}
/* ---------------------------------------------------------------- DOUBLES_EQUAL */
static void t_double(uint8_t* dst, uint64_t* n, double d) { if (d != d) app(dst, n, "Nan - Not a number"); else if (d - d != 0.0) app(dst, n, "Inf - Infinity"); else app(dst, n, "#"); }
HARNESS(harness_doubles) {
  h_init(); IN_DBL(e); IN_DBL(a); IN_DBL(t);
  uint8_t out[OUTCAP] = {0};
  uint64_t n = h_msg_doubles(e, a, t, out, OUTCAP);
  uint8_t w[OUTCAP] = {0}; uint64_t wn = 0;
  app(w, &wn, "expected <"); t_double(w, &wn, e); app(w, &wn, ">\n\tbut was  <"); t_double(w, &wn, a); app(w, &wn, "> threshold used was <"); t_double(w, &wn, t); app(w, &wn, ">");
  if (e != e || a != a || t != t) app(w, &wn, "\n\tCannot make comparisons with Nan");
  OBSERVE(n);
  CHECK(out_is(out, n, w, wn), "the message shows both operands and the threshold, and says when a NaN is involved");
  WITNESS("end");
}
/* ---------------------------------------------------------------- the marker renderer itself ('long' group) */
#ifndef MARKMAX
#define MARKMAX 4
#endif
HARNESS(harness_marker) {
  h_init();
  IN_ARR_U8(actual, MARKMAX + 1); IN_U64(offset); IN_U64(pos); actual[MARKMAX] = 0;
  ASSUME(offset <= t_len(actual));          /* the constructors hand over the index of a first difference: at most the length */
#ifdef MARKPOSMAX
  ASSUME(pos <= MARKPOSMAX);
#endif
  nrec = 0;
  uint8_t out[OUTCAP] = {0};
  uint64_t n = h_marker(actual, offset, pos, out, OUTCAP);
  OBSERVE_STR(out);
  uint8_t w[OUTCAP] = {0}; uint64_t wn = 0;
  difference_marker(w, &wn, actual, offset, pos);
  CHECK(out_is(out, n, w, wn), "\"difference starts at position N at: <20 characters around it>\" and a caret under the position");
  CHECK(nrec == 1 && rec[0].conv == 'u' && rec[0].lng == 1 && rec[0].val == pos, "the printed position is the one handed over");
  WITNESS("end");
}
/* ---------------------------------------------------------------- where it happened */
HARNESS(harness_where) {
  h_init(); STR(file); IN_U64(line);
  uint8_t of[16], ot[32];
  uint64_t l = h_msg_where(file, line, of, ot, 16);
  CHECK(l == line && out_is(of, t_len(file), file, t_len(file)), "the failure carries the file and line of the failing check");
  CHECK(out_is(ot, 10, (const uint8_t*)"TEST(g, n)", 10), "the failure names the test");
  WITNESS("end");
}

/* ---------------------------------------------------------------- open finding KF_C14_2 (not part of spec.py: these FAIL) */
HARNESS(finding_strcmp_equal_shown_forms) {   /* STRCMP_EQUAL("\\n", "\n"): both are shown as \n and the scan of the shown forms leaves the buffers */
  h_init();
  uint8_t e[3] = { '\\', 'n', 0 }, a[2] = { '\n', 0 };
  uint8_t out[OUTCAP] = {0};
  uint64_t n = h_msg_text(1, e, a, (uint8_t*)"", out, OUTCAP);
  CHECK(n > 0, "a message is built");
  WITNESS("end");
}
HARNESS(finding_check_equal_same_text) {      /* CHECK_EQUAL of two different values whose StringFrom texts are both "1" */
  h_init();
  uint8_t e[2] = { '1', 0 }, a[2] = { '1', 0 };
  uint8_t out[OUTCAP] = {0};
  uint64_t n = h_msg_text(0, e, a, (uint8_t*)"", out, OUTCAP);
  CHECK(n > 0, "a message is built");
  WITNESS("end");
}

#define K1(f, k) HARNESS(f##_##k) { body_##f(k); }
#define K3(f, k, en, an) HARNESS(f##_##k##_##en##an) { body_##f(k, en, an); }
K3(harness_diff, 0, 0, 0)
K3(harness_diff, 1, 0, 0) K3(harness_diff, 1, 0, 1) K3(harness_diff, 1, 1, 0)      /* NULL against NULL compares equal: no failure to build */
K3(harness_diff, 2, 0, 0) K3(harness_diff, 2, 0, 1) K3(harness_diff, 2, 1, 0)
K3(harness_show, 3, 0, 0) K3(harness_show, 3, 0, 1) K3(harness_show, 3, 1, 0) K3(harness_show, 3, 1, 1)
K3(harness_show, 4, 0, 0) K3(harness_show, 5, 0, 0) K3(harness_show, 6, 0, 0) K3(harness_show, 7, 0, 0) K3(harness_show, 8, 0, 0) K3(harness_show, 9, 0, 0)
HARNESS(harness_binary_00) { body_harness_binary(0, 0); } HARNESS(harness_binary_01) { body_harness_binary(0, 1); } HARNESS(harness_binary_10) { body_harness_binary(1, 0); }
K1(harness_number, 0) K1(harness_number, 1) K1(harness_number, 2) K1(harness_number, 3) K1(harness_number, 4)
