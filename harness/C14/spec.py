def ob(fn, unwind=20, timeout=300, bounds='', **kw):
    d = {'fn': fn, 'unwind': unwind, 'timeout': timeout, 'bounds': bounds}
    d.update(kw)
    return d
# the contract model of vsnprintf measures the format text it is given (the malloc note is ~330 characters)
FMTSCAN = ['env_vsnprintf.0:400', 'env_vsnprintf.1:32', 'starts.0:64']
D = '_ZN18SimpleStringBuffer13addMemoryDumpEPKvm.'
def dump(per_line, lines):   # loops of addMemoryDump: hex bytes, padding, characters, lines
    return FMTSCAN + [D + '0:%d' % (per_line + 1), D + '1:17', D + '2:%d' % (per_line + 1), D + '3:%d' % (lines + 1)]
STATE = 'buffer state arbitrary within the invariant (fill position <= write limit <= 4095, terminated at the fill position): covers every history'
VS = 'vsnprintf = contract model returning an arbitrary would-be length 0..INT_MAX'
KF = []   # KF-C14-1 and KF-C14-2 are fixed in /repo: nothing is excluded any more
# loops whose bound is a symbolic length: the symbolic executor cannot stop them by itself, give them their true small bound
SYMB = ['_ZNK12SimpleString16getPrintableSizeEv.0:4', '_ZNK12SimpleString9printableEv.0:4', 'out_is.0:226']
FS = ['--max-field-sensitivity-array-size', '168']
NULLS = {'00': '', '01': ', actual NULL', '10': ', expected NULL', '11': ', both NULL'}
OPS2 = 'operand strings 0..2 bytes over the full byte range, NULL-ness symbolic where the class takes pointers'
SHOW = ['EqualsFailure(const char*)', 'EqualsFailure(SimpleString)', 'ContainsFailure', 'CheckFailure', 'ComparisonFailure', 'FailFailure', 'FeatureUnsupportedFailure']
NUM = ['LongsEqualFailure', 'UnsignedLongsEqualFailure', 'LongLongsEqualFailure', 'UnsignedLongLongsEqualFailure', 'SignedBytesEqualFailure']
CTOR = {0: '_ZN17CheckEqualFailureC2EP10UtestShellPKcmRK12SimpleStringS6_S6_', 1: '_ZN18StringEqualFailureC2EP10UtestShellPKcmS3_S3_RK12SimpleString',
        2: '_ZN24StringEqualNoCaseFailureC2EP10UtestShellPKcmS3_S3_RK12SimpleString'}
def symb(L, extra=()):
    return ['_ZNK12SimpleString16getPrintableSizeEv.0:%d' % (L + 2), '_ZNK12SimpleString9printableEv.0:%d' % (L + 2), 'out_is.0:226'] + list(extra)
def msg_obligations(L, tier):
    """message classes with operands of 0..L bytes; the longest string is "expected <....>\\n\\tbut was  <....>" with both operands escaped"""
    u = 28 + 8 * L
    kw = dict(unwind=u, tier=tier, timeout=(600 if L == 1 else 3600), defines=([] if L == 1 else ['-DMAXL=%d' % L, '-DBINMAX=%d' % (L + 1)]))
    if L > 1:
        kw['solver'] = 'kissat'
    ops = 'operand strings 0..%d bytes over the full byte range' % L
    B = L + 1 if L > 1 else 2
    return (
        [ob('harness_diff_%d_%s' % (k, nn), unwindset=symb(L, [CTOR[k] + '.0:%d' % (L + 2), CTOR[k] + '.1:%d' % (4 * L + 2)]),
            bounds=ops + '; ' + ['CheckEqualFailure', 'StringEqualFailure', 'StringEqualNoCaseFailure'][k] + NULLS[nn] + (' [KF_C14_2: shown forms differ]' if nn == '00' else ''), **kw)
         for k, nn in [(0, '00'), (1, '00'), (1, '01'), (1, '10'), (2, '00'), (2, '01'), (2, '10')]] +
        [ob('harness_binary_%s' % nn, unwindset=symb(L, ['_Z16StringFromBinaryPKhm.0:%d' % (B + 2), '_ZN18BinaryEqualFailureC2EP10UtestShellPKcmPKhS5_mRK12SimpleString.0:%d' % (B + 1)]),
            bounds='blocks of 0..%d arbitrary bytes, differing within the size; BinaryEqualFailure' % B + NULLS[nn], **dict(kw, tier=(tier if nn == '00' else 'thorough'))) for nn in ('00', '01', '10')] +
        [ob('harness_show_%d_%s' % (k, nn), unwindset=symb(L), bounds=ops + ', user text 0..1 byte; ' + SHOW[k - 3] + NULLS[nn], **dict(kw, unwind=54 + 2 * L, tier=(tier if nn in ('00', '11') else 'thorough')))
         for k, nn in [(3, '00'), (3, '01'), (3, '10'), (3, '11'), (4, '00'), (5, '00'), (6, '00'), (7, '00'), (8, '00')]] +
        ([ob('harness_bits', unwindset=symb(L, ['_Z20StringFromMaskedBitsmmm.0:10']), bounds='operands and mask any 64-bit value, byteCount 1; BitsEqualFailure', **dict(kw, unwind=44, tier='thorough', timeout=1800)),
          ob('harness_where', unwindset=symb(L), bounds='file name 0..1 bytes, any line', **kw)] if L == 1 else []))
SPEC = {
    'property': 'C14',
    'functions_of_interest': ['SimpleStringBuffer', 'MemoryLeakOutputStringBuffer', 'Failure'],
    'assumptions': [
        'buffer group: vsnprintf is a contract model (stores only inside [str, str+size), terminates what it stores, returns an arbitrary non-negative would-be length; literal texts and the footer have their real length); the model itself asserts that the range it is handed lies inside the 4096-byte buffer',
        'buffer group: unbounded in history through the inductive invariant fill <= limit <= 4095 and buffer[fill] == 0; the base case (constructed object) is a separate obligation',
        'buffer group: the single-call obligations (step_add, step_limits) let the model store into the real 4096-byte array and read the byte at the fill position back; the multi-call obligations (dump, misuse, report) track the position of the last terminator in a ghost variable instead (a symbolic-index store into the 4096-byte array costs the solver ~20 s each)',
        'finding KF-C14-1, now FIXED in /repo (setWriteLimit below the fill position; start of a report when text already lies beyond the lowered limit) is excluded by -DKF_C14_1 and demonstrated by finding_limit_below_fill_then_add / finding_report_after_misuse in h14.c',
        'message groups: heap = fixed-capacity ZERO-FILLED blocks with requested-size red zones (zheap.h): reads/writes outside a block\'s requested size are reported, an unterminated intermediate string is not visible (C13 covers the string operations on uninitialised blocks); NULL-ness of operands is a constant per obligation; failure objects are function-local statics (their destructor is not run)',
        'message groups: vsnprintf renders %s %c %x %X faithfully and every decimal digit as #; the value of each decimal conversion is recorded and compared',
        'group msg: TestFailure::createDifferenceAtPosString (the "difference starts at position N at: <...>" line with its 20-character window and caret) is a RECORDING stub in the solver world: the obligations prove that it is called once with the shown actual text, the index of the first difference in the shown texts and the index of the first difference of the operands; the text it renders is compared with the reference only on the sampled inputs of the differential run against the real build (the renderer itself is proved for all shown texts / offsets / positions by harness_marker in group long, thorough tier only: 246 s at 0..2 bytes, 1511 s at 0..4 bytes and any 64-bit position)',
        'finding KF-C14-2, now FIXED in /repo (operands whose shown forms coincide make the first-difference scans run past the terminators) is excluded by -DKF_C14_2 and demonstrated by finding_strcmp_equal_shown_forms / finding_check_equal_same_text in h14m.c',
    ],
    'groups': [{
        'name': 'buf', 'wrapper': 'w14.cpp', 'harness': 'h14.c', 'config': {}, 'defines': KF,
        'obligations':
            [ob('harness_base', bounds='freshly constructed SimpleStringBuffer and MemoryLeakOutputStringBuffer', unwindset=FMTSCAN)] +
            [ob('harness_step_add_%d' % k, bounds=STATE + '; one add() with format #%d of 3 (literal, %%s, mixed %%s %%d %%lu %%s), argument strings <= 2 bytes; ' % k + VS, unwindset=FMTSCAN) for k in range(3)] +
            [ob('harness_step_dump', bounds=STATE + '; one addMemoryDump of a block of 0..3 arbitrary bytes; ' + VS, unwindset=dump(3, 1), timeout=900, solver='kissat')] +
            [ob('harness_step_limits', bounds=STATE + '; one of setWriteLimit(any 64-bit value >= fill position [KF_C14_1]), resetWriteLimit, clear, reachedItsCapacity, toString', unwindset=FMTSCAN)] +
            [ob('harness_misuse', bounds=STATE + '; one misuse report of each of the 3 kinds, file names <= 2 bytes, lines/sizes 64-bit; ' + VS, unwindset=FMTSCAN)] +
            [ob('harness_report_%d_%d' % (k, c), bounds=('cleared buffer' if c else STATE + ', fill position <= lowered limit [KF_C14_1]') + '; start, %d leak(s) of 0..2 bytes each with any allocator kind, file name <= 2 bytes, any number/line, stop; ' % k + VS,
                unwindset=dump(2, 1), timeout=900, solver='kissat', tier=('thorough' if k == 3 else 'both')) for k in range(4) for c in range(2)],
    }, {
        # short messages; the marker renderer is a recording stub in the solver world (see h14m.c)
        'name': 'msg', 'wrapper': 'w14m.cpp', 'harness': 'h14m.c', 'defines': ['-DMARKER_STUBBED'],
        'config': {'stubs': ['_ZN11TestFailure27createDifferenceAtPosStringERK12SimpleStringmm']},
        'obligations': msg_obligations(1, 'quick') + msg_obligations(2, 'thorough'),
    }, {
        # long messages: 168-byte heap objects
        'name': 'long', 'wrapper': 'w14m.cpp', 'harness': 'h14m.c', 'defines': ['-DENV_MALLOC_CAP=168'], 'config': {},
        'obligations':
            [ob('harness_marker', unwind=120, unwindset=SYMB, timeout=1800, tier='thorough', defines=['-DMARKMAX=2', '-DMARKPOSMAX=9'], bounds='shown text any 0..2 bytes, offset 0..length, reported position 0..9; createDifferenceAtPosString')] +
            [ob('harness_marker', unwind=170, unwindset=SYMB, timeout=7200, tier='thorough', solver='kissat', bounds='shown text any 0..4 bytes, offset 0..length, reported position any 64-bit value; createDifferenceAtPosString')] +
            [ob('harness_show_9_00', unwind=170, unwindset=SYMB, timeout=1800, tier='thorough', bounds='operand strings 0..1 bytes over the full byte range, user text 0..1 byte; FeatureUnsupportedFailure')] +
            # harness_number_0..4 (Longs/UnsignedLongs/LongLongs/UnsignedLongLongs/SignedBytesEqualFailure: decimal + hexadecimal of both operands):
            # symbolic execution does not finish - full 64-bit operands: no verdict in 1800 s each; magnitudes <= 99: killed at 24 GB after 2770 s.  Not claimed
            # (the number formatters are C13's subject, the comparison itself C03's); the harness stays in h14m.c.
            [ob('harness_doubles', unwind=170, unwindset=SYMB, timeout=1800, tier='thorough', bounds='operands and threshold any double incl. NaN and infinities; DoublesEqualFailure')],
    }],
}
