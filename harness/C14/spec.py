def ob(fn, unwind=20, timeout=300, bounds='', **kw):
    d = {'fn': fn, 'unwind': unwind, 'timeout': timeout, 'bounds': bounds}
    d.update(kw)
    return d
# the contract model of vsnprintf measures the format text it is given (the malloc note is ~330 characters)
FMTSCAN = ['env_vsnprintf.0:400', 'env_vsnprintf.1:32', 'starts.0:64']
D = '_ZN18SimpleStringBuffer13addMemoryDumpEPKvm.'
def dump(per_line, lines):   # loops of addMemoryDump: hex bytes, padding, characters, lines
    return FMTSCAN + [D + '0:%d' % (per_line + 1), D + '1:17', D + '2:%d' % (per_line + 1), D + '3:%d' % (lines + 1)]
STATE = 'buffer state arbitrary within the invariant (fill position <= write limit <= 4095, terminated at the fill position, one arbitrary stale byte anywhere): covers every history'
VS = 'vsnprintf = contract model returning an arbitrary would-be length 0..INT_MAX'
KF = ['-DKF_C14_1']
# loops whose bound is a symbolic length: the symbolic executor cannot stop them by itself, give them their true small bound
SYMB = ['_ZNK12SimpleString16getPrintableSizeEv.0:4', '_ZNK12SimpleString9printableEv.0:4']
FS = ['--max-field-sensitivity-array-size', '168']
NULLS = {'00': '', '01': ', actual NULL', '10': ', expected NULL', '11': ', both NULL'}
OPS2 = 'operand strings 0..2 bytes over the full byte range, NULL-ness symbolic where the class takes pointers'
SHOW = ['EqualsFailure(const char*)', 'EqualsFailure(SimpleString)', 'ContainsFailure', 'CheckFailure', 'ComparisonFailure', 'FailFailure', 'FeatureUnsupportedFailure']
NUM = ['LongsEqualFailure', 'UnsignedLongsEqualFailure', 'LongLongsEqualFailure', 'UnsignedLongLongsEqualFailure', 'SignedBytesEqualFailure']
SPEC = {
    'property': 'C14',
    'functions_of_interest': ['SimpleStringBuffer', 'MemoryLeakOutputStringBuffer', 'Failure'],
    'assumptions': [
        'buffer group: vsnprintf is a contract model (stores only inside [str, str+size), terminates what it stores, returns an arbitrary non-negative would-be length; literal texts and the footer have their real length); the model itself asserts that the range it is handed lies inside the 4096-byte buffer',
        'buffer group: unbounded in history through the inductive invariant fill <= limit <= 4095 and buffer[fill] == 0; the base case (constructed object) is a separate obligation',
        'open finding KF_C14_1 (setWriteLimit below the fill position; start of a report when text already lies beyond the lowered limit) is excluded by -DKF_C14_1 and demonstrated by finding_* harnesses in h14.c',
    ],
    'groups': [{
        'name': 'buf', 'wrapper': 'w14.cpp', 'harness': 'h14.c', 'config': {}, 'defines': KF,
        'obligations':
            [ob('harness_base', bounds='freshly constructed SimpleStringBuffer and MemoryLeakOutputStringBuffer', unwindset=FMTSCAN)] +
            [ob('harness_step_add_%d' % k, bounds=STATE + '; one add() with format #%d of 3 (literal, %%s, mixed %%s %%d %%lu %%s), argument strings <= 2 bytes; ' % k + VS, unwindset=FMTSCAN) for k in range(3)] +
            [ob('harness_step_dump', bounds=STATE + '; one addMemoryDump of a block of 0..3 arbitrary bytes; ' + VS, unwindset=dump(3, 1), timeout=900, solver='kissat')] +
            [ob('harness_step_limits', bounds=STATE + '; one of setWriteLimit(any 64-bit value >= fill position [KF_C14_1]), resetWriteLimit, clear, reachedItsCapacity, toString', unwindset=FMTSCAN)] +
            [ob('harness_misuse', bounds=STATE + '; one misuse report of each of the 3 kinds, file names <= 2 bytes, lines/sizes 64-bit; ' + VS, unwindset=FMTSCAN)] +
            [ob('harness_report_%d_%d' % (k, c), bounds=('cleared buffer' if c else STATE + ', fill position <= lowered limit [KF_C14_1]') + '; start, %d leak(s) of 0..2 bytes each with any allocator kind, file name <= 2 bytes, any number/line, stop; ' % k + VS,
                unwindset=dump(2, 1), timeout=900, solver='kissat', tier=('thorough' if k == 3 else 'both')) for k in range(4) for c in range(2)],
    }, {
        # short messages; the marker renderer is a recording stub in the solver world (see h14m.c)
        'name': 'msg', 'wrapper': 'w14m.cpp', 'harness': 'h14m.c', 'defines': ['-DKF_C14_2', '-DMARKER_STUBBED'],
        'config': {'stubs': ['_ZN11TestFailure27createDifferenceAtPosStringERK12SimpleStringmm']},
        'obligations':
            [ob('harness_diff_%d_%s' % (k, nn), unwind=64, unwindset=SYMB, timeout=900,
                bounds=OPS2 + '; ' + ['CheckEqualFailure', 'StringEqualFailure', 'StringEqualNoCaseFailure'][k] + NULLS[nn] + (' [KF_C14_2: shown forms differ]' if nn == '00' else ''))
             for k, nn in [(0, '00'), (1, '00'), (1, '01'), (1, '10'), (2, '00'), (2, '01'), (2, '10')]] +
            [ob('harness_binary_%s' % nn, unwind=64, unwindset=SYMB, timeout=900, bounds='blocks of 0..2 arbitrary bytes, differing within the size; BinaryEqualFailure' + NULLS[nn]) for nn in ('00', '01', '10')] +
            [ob('harness_show_%d_%s' % (k, nn), unwind=64, unwindset=SYMB, timeout=900, bounds=OPS2 + ', user text 0..1 byte; ' + SHOW[k - 3] + NULLS[nn])
             for k, nn in [(3, '00'), (3, '01'), (3, '10'), (3, '11'), (4, '00'), (5, '00'), (6, '00'), (7, '00'), (8, '00')]] +
            [ob('harness_bits', unwind=64, unwindset=SYMB, timeout=900, bounds='operands and mask any 64-bit value, byteCount 1; BitsEqualFailure')] +
            [ob('harness_where', unwind=32, bounds='file name 0..2 bytes, any line')],
    }, {
        # long messages: 168-byte heap objects
        'name': 'long', 'wrapper': 'w14m.cpp', 'harness': 'h14m.c', 'defines': ['-DKF_C14_2', '-DENV_MALLOC_CAP=168'], 'config': {},
        'obligations':
            [ob('harness_marker', unwind=170, unwindset=SYMB, timeout=1800, cbmc_flags=FS, bounds='shown text any 0..4 bytes, offset 0..length, reported position any 64-bit value; createDifferenceAtPosString')] +
            [ob('harness_show_9_00', unwind=170, unwindset=SYMB, timeout=1800, cbmc_flags=FS, bounds=OPS2 + ', user text 0..1 byte; FeatureUnsupportedFailure')] +
            [ob('harness_number_%d' % k, unwind=170, unwindset=SYMB, timeout=1800, cbmc_flags=FS, bounds='both operands any 64-bit value; ' + NUM[k]) for k in range(5)] +
            [ob('harness_doubles', unwind=170, unwindset=SYMB, timeout=1800, cbmc_flags=FS, bounds='operands and threshold any double incl. NaN and infinities; DoublesEqualFailure')],
    }],
}
