// C14 wrapper, part 1: the fixed 4096-byte text buffer of the leak detector.
// SimpleStringBuffer / MemoryLeakOutputStringBuffer objects of their real type; the harness puts them into an
// arbitrary state (fill position, write limit) through the opened-up private fields and then runs real operations.
#define private public
#define protected public
#include "CppUTest/TestHarness.h"
#include "CppUTest/MemoryLeakDetector.h"
#include "CppUTest/TestMemoryAllocator.h"
#include "CppUTest/PlatformSpecificFunctions.h"

extern "C" {
void h_env_install(void);
void h_fail_hook(char* text);     // harness: MemoryLeakFailure::fail was called with the buffer text
}

class HookReporter : public MemoryLeakFailure
{
public:
    virtual void fail(char* fail_string) CPPUTEST_OVERRIDE { h_fail_hook(fail_string); }
};

static SimpleStringBuffer* ssb_;
static MemoryLeakOutputStringBuffer* mlb_;
static MemoryLeakDetectorNode* nodes_;
static TestMemoryAllocator* allocs_[3];
static HookReporter* reporter_;

extern "C" {
void h_init(void)
{
    static SimpleStringBuffer ssb;
    static MemoryLeakOutputStringBuffer mlb;
    static MemoryLeakDetectorNode nodes[4];
    static TestMemoryAllocator amalloc("Standard Malloc Allocator", "malloc", "free");
    static TestMemoryAllocator anew("Standard New Allocator", "new", "delete");
    static TestMemoryAllocator aarr("Standard New [] Allocator", "new []", "delete []");
    static HookReporter reporter;
    h_env_install();
    ssb_ = &ssb; mlb_ = &mlb; nodes_ = nodes; reporter_ = &reporter;
    allocs_[0] = &amalloc; allocs_[1] = &anew; allocs_[2] = &aarr;
}
unsigned long h_buflen(void) { return SimpleStringBuffer::SIMPLE_STRING_BUFFER_LEN; }

// ---- SimpleStringBuffer: state access
char* h_ssb_buf(void) { return ssb_->buffer_; }
void h_ssb_setup(unsigned long filled, unsigned long limit, int storeTerminator)
{
    if (storeTerminator) ssb_->buffer_[filled] = '\0';   // otherwise the harness tracks the terminator position itself (see h14.c)
    ssb_->positions_filled_ = filled;
    ssb_->write_limit_ = limit;
}
void h_ssb_stale(unsigned long pos, int byte) { ssb_->buffer_[pos] = (char)byte; }   // one arbitrary byte of earlier text
unsigned long h_ssb_filled(void) { return ssb_->positions_filled_; }
unsigned long h_ssb_limit(void) { return ssb_->write_limit_; }
int h_ssb_at(unsigned long i) { return (int)(unsigned char)ssb_->buffer_[i]; }
long h_ssb_tostring_off(void) { return (long)(ssb_->toString() - ssb_->buffer_); }
// ---- SimpleStringBuffer: one real operation each
void h_ssb_add_lit(void) { ssb_->add("Memory leak(s) found.\n"); }
void h_ssb_add_s(const char* s) { ssb_->add("%s", s); }
void h_ssb_add_mixed(const char* file, unsigned long line, unsigned long size, const char* type)
{
    ssb_->add("   allocated at file: %s line: %d size: %lu type: %s\n", file, (int)line, size, type);
}
void h_ssb_dump(const void* memory, unsigned long size) { ssb_->addMemoryDump(memory, size); }
void h_ssb_set_limit(unsigned long limit) { ssb_->setWriteLimit(limit); }
void h_ssb_reset_limit(void) { ssb_->resetWriteLimit(); }
void h_ssb_clear(void) { ssb_->clear(); }
int h_ssb_reached(void) { return ssb_->reachedItsCapacity(); }

// ---- MemoryLeakOutputStringBuffer: state access and the reporting protocol
char* h_mlb_buf(void) { return mlb_->outputBuffer_.buffer_; }
void h_mlb_setup(unsigned long filled, unsigned long limit, unsigned long staleTotal, int staleWarn)
{
    SimpleStringBuffer& b = mlb_->outputBuffer_;
    b.positions_filled_ = filled;                    // the terminator at this position is tracked by the harness (see h14.c)
    b.write_limit_ = limit;
    mlb_->total_leaks_ = staleTotal;                 // left over from an earlier report
    mlb_->giveWarningOnUsingMalloc_ = staleWarn != 0;
}
unsigned long h_mlb_filled(void) { return mlb_->outputBuffer_.positions_filled_; }
unsigned long h_mlb_limit(void) { return mlb_->outputBuffer_.write_limit_; }
int h_mlb_at(unsigned long i) { return (int)(unsigned char)mlb_->outputBuffer_.buffer_[i]; }
long h_mlb_tostring_off(void) { return (long)(mlb_->toString() - mlb_->outputBuffer_.buffer_); }
void h_mlb_clear(void) { mlb_->clear(); }
void h_mlb_start(void) { mlb_->startMemoryLeakReporting(); }
void h_mlb_stop(void) { mlb_->stopMemoryLeakReporting(); }
void h_mlb_leak(int idx, char* memory, unsigned number, unsigned long size, int allocKind, const char* file, unsigned long line)
{
    MemoryLeakDetectorNode* n = &nodes_[idx];
    n->init(memory, number, size, allocs_[allocKind], mem_leak_period_enabled, 0, file, line);
    mlb_->reportMemoryLeak(n);
}
// misuse messages (they share the buffer with the leak report)
void h_mlb_misuse(int kind, int idx, char* memory, unsigned long size, int allocKind, const char* allocFile, unsigned long allocLine,
                  const char* freeFile, unsigned long freeLine, int freeKind)
{
    MemoryLeakDetectorNode* n = &nodes_[idx];
    n->init(memory, 1, size, allocs_[allocKind], mem_leak_period_enabled, 0, allocFile, allocLine);
    switch (kind) {
    case 0: mlb_->reportDeallocateNonAllocatedMemoryFailure(freeFile, freeLine, allocs_[freeKind], reporter_); break;
    case 1: mlb_->reportAllocationDeallocationMismatchFailure(n, freeFile, freeLine, allocs_[freeKind], reporter_); break;
    default: mlb_->reportMemoryCorruptionFailure(n, freeFile, freeLine, allocs_[freeKind], reporter_); break;
    }
}
}
