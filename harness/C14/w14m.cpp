// C14 wrapper, part 2: the message of every failure class of TestFailure.cpp, built by the real constructors.
// Operands arrive as the user's check macro would pass them; the finished message is copied out with a plain loop.
#include "CppUTest/TestHarness.h"
#include "CppUTest/TestFailure.h"
#include "CppUTest/PlatformSpecificFunctions.h"

extern "C" {
void h_env_install(void);
}

static UtestShell* shell_;
typedef unsigned long long u64;

static unsigned long copyOut(const SimpleString& s, char* out, unsigned long cap)
{
    const char* p = s.asCharString();
    unsigned long n = 0;
    while (p[n]) { if (n + 1 < cap) out[n] = p[n]; n++; }
    if (cap) out[n < cap ? n : cap - 1] = 0;
    return n;
}
static unsigned long finish(const TestFailure& f, char* out, unsigned long cap) { return copyOut(f.getMessage(), out, cap); }
// The failure objects are function-local statics of their real class (each entry point runs once per harness run).
// A stack object would end in a call of the derived class' destructor, which clang emits as a call through a
// bitcast of TestFailure::~TestFailure; the translator treats that as an indirect call outside the closed world.

class MarkerProbe;
extern "C" {
void h_init(void)
{
    static UtestShell shell("g", "n", "t.cpp", 7);
    h_env_install();
    shell_ = &shell;
}
// two text operands; a NULL pointer is passed on as NULL where the class takes const char*
unsigned long h_msg_text(int kind, const char* expected, const char* actual, const char* text, char* out, unsigned long cap)
{
    switch (kind) {
    case 0: { static CheckEqualFailure f(shell_, "f.cpp", 3, expected, actual, text); return finish(f, out, cap); }
    case 1: { static StringEqualFailure f(shell_, "f.cpp", 3, expected, actual, text); return finish(f, out, cap); }
    case 2: { static StringEqualNoCaseFailure f(shell_, "f.cpp", 3, expected, actual, text); return finish(f, out, cap); }
    case 3: { static EqualsFailure f(shell_, "f.cpp", 3, expected, actual, text); return finish(f, out, cap); }
    case 4: { static EqualsFailure f(shell_, "f.cpp", 3, SimpleString(expected), SimpleString(actual), text); return finish(f, out, cap); }
    case 5: { static ContainsFailure f(shell_, "f.cpp", 3, expected, actual, text); return finish(f, out, cap); }
    case 6: { static CheckFailure f(shell_, "f.cpp", 3, expected, actual, text); return finish(f, out, cap); }
    case 7: { static ComparisonFailure f(shell_, "f.cpp", 3, expected, actual, text); return finish(f, out, cap); }
    case 8: { static FailFailure f(shell_, "f.cpp", 3, expected); return finish(f, out, cap); }
    default: { static FeatureUnsupportedFailure f(shell_, "f.cpp", 3, expected, text); return finish(f, out, cap); }
    }
}
unsigned long h_msg_binary(const unsigned char* expected, const unsigned char* actual, unsigned long size, char* out, unsigned long cap)
{
    { static BinaryEqualFailure f(shell_, "f.cpp", 3, expected, actual, size, ""); return finish(f, out, cap); }
}
unsigned long h_msg_number(int kind, u64 expected, u64 actual, char* out, unsigned long cap)
{
    switch (kind) {
    case 0: { static LongsEqualFailure f(shell_, "f.cpp", 3, (long)expected, (long)actual, ""); return finish(f, out, cap); }
    case 1: { static UnsignedLongsEqualFailure f(shell_, "f.cpp", 3, (unsigned long)expected, (unsigned long)actual, ""); return finish(f, out, cap); }
    case 2: { static LongLongsEqualFailure f(shell_, "f.cpp", 3, (long long)expected, (long long)actual, ""); return finish(f, out, cap); }
    case 3: { static UnsignedLongLongsEqualFailure f(shell_, "f.cpp", 3, expected, actual, ""); return finish(f, out, cap); }
    default: { static SignedBytesEqualFailure f(shell_, "f.cpp", 3, (signed char)expected, (signed char)actual, ""); return finish(f, out, cap); }
    }
}
unsigned long h_msg_bits(u64 expected, u64 actual, u64 mask, unsigned long byteCount, char* out, unsigned long cap)
{
    { static BitsEqualFailure f(shell_, "f.cpp", 3, (unsigned long)expected, (unsigned long)actual, (unsigned long)mask, byteCount, ""); return finish(f, out, cap); }
}
unsigned long h_msg_doubles(double expected, double actual, double threshold, char* out, unsigned long cap)
{
    { static DoublesEqualFailure f(shell_, "f.cpp", 3, expected, actual, threshold, ""); return finish(f, out, cap); }
}
// the marker renderer on its own (a protected member: reached through a subclass)
class MarkerProbe : public TestFailure
{
public:
    MarkerProbe(UtestShell* t) : TestFailure(t, "f.cpp", 3) {}
    SimpleString marker(const SimpleString& actual, size_t offset, size_t position) { return createDifferenceAtPosString(actual, offset, position); }
};
unsigned long h_marker(const char* actual, unsigned long offset, unsigned long position, char* out, unsigned long cap)
{
    static MarkerProbe f(shell_);
    return copyOut(f.marker(actual, offset, position), out, cap);
}
// where the failure says it happened
unsigned long h_msg_where(const char* file, unsigned long line, char* outFile, char* outTest, unsigned long cap)
{
    static FailFailure f(shell_, file, line, "m");
    copyOut(f.getFileName(), outFile, cap);
    copyOut(f.getTestName(), outTest, cap);
    return f.getFailureLineNumber();
}
}
