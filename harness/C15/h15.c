/* C15 (part 1): FailableMemoryAllocator - injected failures hit exactly the designated allocations.
 *
 * Reference semantics (written from the property text, not from the implementation):
 *   a designation is either "the n-th allocation overall" or "the n-th allocation at location L" (L = file name + line);
 *   allocation number i (counted from 1) at location L fails iff a pending designation names it: overall with n == i,
 *   or at-L whose own count of allocations at L (from 1) reaches n.  A designation that fired is consumed.
 *   checkAllFailedAllocsWereDone fails the current test iff a designation is still pending; clearFailedAllocs drops
 *   all designations and restarts the numbering.
 * Designations are registered first (kinds, numbers, locations and hence the registration ORDER symbolic), then the
 * allocation history runs (locations symbolic). */
#define ENV_CUSTOM_VSNPRINTF
#include "env.c"
#include "translated.h"

/* the text of the failure message is not the subject (C14 owns messages) */
uint32_t env_vsnprintf(uint8_t* s, uint64_t n, uint8_t* f, uint8_t* va) { (void)f; (void)va; if (n > 1) { s[0] = '#'; s[1] = 0; } else if (n) s[0] = 0; return 1; }

#ifndef ND
#define ND 3          /* designations */
#endif
#ifndef NA
#define NA 4          /* allocations of the history */
#endif
#define NLOC 3        /* ("a.c",10) ("a.c",20) ("b.c",10) */

/* ---------------------------------------------------------------- reference model */
enum { K_NONE, K_GLOBAL, K_AT };
static struct { uint32_t kind; int32_t n; uint32_t loc; uint32_t pending; int32_t count; } m_d[ND];
static int32_t m_index;                 /* allocations so far (since construction / the last clear) */
static uint32_t m_coincide;             /* one allocation named by two pending designations (excluded: stated precondition) */
static uint32_t m_kf1, m_kf2;           /* the input hits known finding 1 / 2 (see spec.py) */

static void m_designate(int d, uint32_t kind, int32_t n, uint32_t loc) { m_d[d].kind = kind; m_d[d].n = n; m_d[d].loc = loc; m_d[d].pending = kind != K_NONE; m_d[d].count = 0; }
/* 1 = this allocation has to fail */
static int m_alloc(uint32_t loc) {
  uint32_t hit[ND]; int fires = 0;
  m_index++;
  for (int d = 0; d < ND; d++) {
    hit[d] = 0;
    if (!m_d[d].pending) continue;
    if (m_d[d].kind == K_GLOBAL) hit[d] = m_index == m_d[d].n;
    else if (m_d[d].loc == loc) { m_d[d].count++; hit[d] = m_d[d].count == m_d[d].n; }
    else if (m_index == m_d[d].n) m_kf1 = 1;          /* KF1: an at-location designation whose n equals the OVERALL number of an allocation elsewhere */
    fires += (int)hit[d];
  }
  if (fires > 1) m_coincide = 1;
  for (int d = 0; d < ND; d++) if (hit[d]) {
    /* KF2: a designation fires while a designation for the same location registered BEFORE it is still pending */
    for (int e = 0; e < d; e++) if (m_d[e].pending && !hit[e] && m_d[e].kind == K_AT && m_d[e].loc == loc) m_kf2 = 1;
    m_d[d].pending = 0;
  }
  return fires > 0;
}
static int m_pending(void) { int p = 0; for (int d = 0; d < ND; d++) p |= (int)m_d[d].pending; return p; }
static void m_clear(void) { for (int d = 0; d < ND; d++) m_d[d].pending = 0; m_index = 0; }

/* ---------------------------------------------------------------- leaving the test */
static uint32_t exp_exit, exited;
void h_exit_hook(void) {
  exited = 1;
  CHECK(exp_exit, "the test is failed by checkAllFailedAllocsWereDone only if a designated failure never happened");
  CHECK(h_failures() == 1, "exactly one failure is recorded for it");
  WITNESS("exit path");
  END_PATH();
}

static void known_findings(void) {
  ASSUME(!m_coincide);              /* precondition: no allocation is named by two designations at once */
#ifdef KF_C15_1
  ASSUME(!m_kf1);
#endif
#ifdef KF_C15_2
  ASSUME(!m_kf2);
#endif
}
static void designate(int d, uint32_t kind, int32_t n, uint32_t loc) { if (kind == K_GLOBAL) h_fail_global((uint32_t)n); else if (kind == K_AT) h_fail_at((uint32_t)n, loc); }

/* designations, history, then the "were all done" check */
HARNESS(harness_fail_history) {
  h_init();
  IN_ARR_U32(dkind, ND); IN_ARR_U32(dn, ND); IN_ARR_U32(dloc, ND); IN_ARR_U32(aloc, NA);
  uint32_t expect_fail[NA];
  for (int d = 0; d < ND; d++) m_designate(d, dkind[d] % 3, (int32_t)dn[d], dloc[d] % NLOC);
  for (int i = 0; i < NA; i++) expect_fail[i] = (uint32_t)m_alloc(aloc[i] % NLOC);
  known_findings();
  for (int d = 0; d < ND; d++) designate(d, dkind[d] % 3, (int32_t)dn[d], dloc[d] % NLOC);
  for (int i = 0; i < NA; i++) {
    uint32_t got = h_alloc(aloc[i] % NLOC);
    OBSERVE(got);
    CHECK((got == 0) == (expect_fail[i] != 0), "an allocation returns NULL iff a pending designation names it (n-th overall / n-th at its location)");
  }
  CHECK(h_failures() == 0, "injected failures by themselves do not fail the test");
  exp_exit = (uint32_t)m_pending();
  OBSERVE(exp_exit);
  h_check_done();
  CHECK(!exp_exit, "checkAllFailedAllocsWereDone fails the test when a designated failure never happened");
  CHECK(h_failures() == 0, "... and only then");
  WITNESS("end");
}

/* designations, part of the history, clearFailedAllocs, a fresh designation, the rest */
HARNESS(harness_fail_clear) {
  h_init();
  IN_ARR_U32(dkind, ND); IN_ARR_U32(dn, ND); IN_ARR_U32(dloc, ND); IN_ARR_U32(aloc, NA);
  IN_U32(fresh_kind); IN_U32(fresh_n); IN_U32(fresh_loc);
  uint32_t expect_fail[NA];
  for (int d = 0; d < ND; d++) m_designate(d, dkind[d] % 3, (int32_t)dn[d], dloc[d] % NLOC);
  for (int i = 0; i < 2; i++) expect_fail[i] = (uint32_t)m_alloc(aloc[i] % NLOC);
  m_clear();
  m_designate(0, fresh_kind % 3, (int32_t)fresh_n, fresh_loc % NLOC);
  for (int i = 2; i < NA; i++) expect_fail[i] = (uint32_t)m_alloc(aloc[i] % NLOC);
  known_findings();
  for (int d = 0; d < ND; d++) designate(d, dkind[d] % 3, (int32_t)dn[d], dloc[d] % NLOC);
  for (int i = 0; i < NA; i++) {
    if (i == 2) {
      h_clear();
      h_check_done();                                   /* nothing is pending after a clear: must return */
      CHECK(h_failures() == 0, "after clearFailedAllocs no designation is pending");
      designate(0, fresh_kind % 3, (int32_t)fresh_n, fresh_loc % NLOC);
    }
    uint32_t got = h_alloc(aloc[i] % NLOC);
    OBSERVE(got);
    CHECK((got == 0) == (expect_fail[i] != 0), "clearFailedAllocs drops every designation and restarts the numbering; a later designation counts from there");
  }
  exp_exit = (uint32_t)m_pending();
  h_check_done();
  CHECK(!exp_exit, "checkAllFailedAllocsWereDone fails the test when a designated failure never happened");
  WITNESS("end");
}

/* ---------------------------------------------------------------- demonstrations of the known findings (NOT in spec.py: expected to FAIL) */
HARNESS(finding_location_designation_fires_elsewhere) {
  h_init();
  h_fail_at(2, 0);                     /* "the 2nd allocation at a.c:10" */
  uint32_t r1 = h_alloc(2), r2 = h_alloc(2);        /* two allocations at b.c:10 */
  CHECK(r1 == 1 && r2 == 1, "allocations at another location are not affected");
  WITNESS("end");
}
HARNESS(finding_firing_skips_counting_of_earlier_designations) {
  h_init();
  h_fail_at(2, 0); h_fail_at(1, 0);    /* "the 2nd at a.c:10", then "the 1st at a.c:10" */
  uint32_t r1 = h_alloc(0), r2 = h_alloc(0), r3 = h_alloc(0);
  CHECK(r1 == 0, "the 1st allocation at the location fails");
  CHECK(r2 == 0, "the 2nd allocation at the location fails");
  CHECK(r3 == 1, "the 3rd allocation at the location succeeds");
  WITNESS("end");
}
