/* C15 (part 3): the C-level out-of-memory simulation (leak detection compiled in).
 * Reference semantics, from TestHarness_c.h and the documenting tests of TestHarness_cTest.cpp
 * (countdown(3): the 1st and 2nd malloc succeed, the 3rd fails; countdown(0): the next malloc fails):
 *   set_out_of_memory():            every allocation fails until set_not_out_of_memory()
 *   set_out_of_memory_countdown(c): c > 0: allocations number 1 .. c-1 after the call succeed, number c and all later ones fail;
 *                                   c == 0: all fail; c < 0: no effect
 *   set_not_out_of_memory():        allocations succeed again
 * An allocation that fails returns NULL and does not fail the test. */
#define ENV_CUSTOM_VSNPRINTF
#define ENV_CUSTOM_NEW
#include "env.c"
#include "translated.h"
uint32_t env_vsnprintf(uint8_t* s, uint64_t n, uint8_t* f, uint8_t* va) { (void)f; (void)va; if (n > 1) { s[0] = '#'; s[1] = 0; } else if (n) s[0] = 0; return 1; }

#ifdef LL2C_TRANSLATED
/* Contract model of the leak detector in the translated world (its own behaviour is properties C04/C05, and its real
 * code - a 4 KB report buffer and a 73-bucket table inside one object - is too heavy for this query): an allocation is
 * exactly one request to the allocator it is given and yields NULL iff that yields NULL; a release hands the block back
 * to the allocator it is given.  The real g++ build used for the differential run and for replays has the real detector. */
static uint64_t det_allocs, det_frees;
uint8_t* _ZN18MemoryLeakDetector11allocMemoryEP19TestMemoryAllocatormPKcmb(uint8_t* self, uint8_t* allocator, uint64_t size, uint8_t* file, uint64_t line, uint8_t separately) {
  (void)self; (void)separately; det_allocs++;
  return h_via_allocator(allocator, size, file, line);
}
void _ZN18MemoryLeakDetector13deallocMemoryEP19TestMemoryAllocatorPvPKcmb(uint8_t* self, uint8_t* allocator, uint8_t* memory, uint8_t* file, uint64_t line, uint8_t separately) {
  (void)self; (void)separately;
  if (!memory) return;
  det_frees++;
  h_free_via_allocator(allocator, memory, 0, file, line);
}
void _ZN18MemoryLeakDetector16invalidateMemoryEPc(uint8_t* self, uint8_t* memory) { (void)self; (void)memory; }
#endif
static uint32_t leak_reports;
void h_rec_leak_report(void) { leak_reports++; }
void h_exit_hook(void) { CHECK(0, "a simulated out-of-memory does not fail the test by itself"); END_PATH(); }

#ifndef NA
#define NA 4
#endif
HARNESS(harness_countdown) {
  h_init();
  IN_I32(c); IN_U32(back_at);
  uint32_t before = h_malloc(8);
  CHECK(before == 1, "without simulation allocations succeed");
  h_countdown((uint32_t)c);
  uint32_t restored = 0;
  for (uint32_t i = 1; i <= NA; i++) {
    if (i == (back_at & 7)) { h_not_oom(); restored = 1; }
    uint32_t got = h_malloc(8);
    OBSERVE(got);
    uint32_t fail = !restored && c >= 0 && (int64_t)i >= (int64_t)c;
    CHECK((got == 0) == (fail != 0), "countdown(c): allocation number i after the call fails iff c >= 0 and i >= c, until set_not_out_of_memory");
  }
  CHECK(h_failures() == 0 && leak_reports == 0, "nothing is reported as a failure or leak");
  CHECK(h_count() == NA + 1, "every call is counted");
  WITNESS("end");
}
HARNESS(harness_countdown_mixed) {
  /* the countdown counts EVERY tracked C allocation: malloc, calloc and strdup take turns (constant pattern) */
  h_init();
  IN_I32(c); IN_U32(back_at);
  static uint8_t str[3] = { 'a', 'b', 0 };
  h_countdown((uint32_t)c);
  uint32_t restored = 0;
  for (uint32_t i = 1; i <= 4; i++) {
    if (i == (back_at & 7)) { h_not_oom(); restored = 1; }
    uint32_t got = (i == 1 || i == 4) ? h_strdup(str) : (i == 2 ? h_calloc(2, 4) : h_malloc(8));
    OBSERVE(got);
    uint32_t fail = !restored && c >= 0 && (int64_t)i >= (int64_t)c;
    CHECK((got == 0) == (fail != 0), "countdown(c): tracked allocation number i (strdup, calloc, malloc, strdup) fails iff c >= 0 and i >= c, until set_not_out_of_memory");
  }
  CHECK(h_failures() == 0 && leak_reports == 0, "nothing is reported as a failure or leak");
  CHECK(h_count() == 4, "every call is counted");
  WITNESS("end");
}
HARNESS(harness_oom_switch) {
  h_init();
  IN_ARR_U32(act, NA);
  uint32_t oom = 0;
  for (uint32_t i = 0; i < NA; i++) {
    uint32_t a = act[i] % 3;
    if (a == 1) { h_oom(); oom = 1; }
    else if (a == 2 && oom) { h_not_oom(); oom = 0; }     /* set_not_out_of_memory only after set_out_of_memory (its stated use) */
    uint32_t got = h_malloc(8);
    OBSERVE(got);
    CHECK((got == 0) == (oom != 0), "set_out_of_memory: every allocation fails until set_not_out_of_memory");
  }
  if (oom) h_not_oom();
  CHECK(h_malloc(8) == 1, "clearing the simulation restores normal behaviour");
  CHECK(h_failures() == 0 && leak_reports == 0, "nothing is reported as a failure or leak");
  WITNESS("end");
}
HARNESS(harness_oom_calloc) {
  h_init();
  IN_BOOL(oom);
  if (oom) h_countdown(0);
  uint32_t r = h_calloc(2, 4);
  CHECK((r == 0) == (oom != 0), "calloc returns NULL while out-of-memory is simulated");
  if (oom) h_not_oom();
  CHECK(h_calloc(1, 1) == 1, "and succeeds afterwards");
  WITNESS("end");
}
