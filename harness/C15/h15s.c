/* C15 (part 2): the tracked strdup / strndup / calloc / malloc behave like their C library counterparts when the
 * allocation they rely on fails: they return NULL (and touch no memory); when it succeeds they return the copy /
 * the zeroed block.  Configuration: leak detection compiled out, so cpputest_malloc_location goes straight to
 * PlatformSpecificMalloc = env_malloc, where this harness injects the failure (symbolic). */
#define ENV_MALLOC_FAILS
#define ENV_CUSTOM_VSNPRINTF
#include "env.c"
#include "translated.h"
#ifndef MAXL
#define MAXL 3
#endif
uint32_t env_vsnprintf(uint8_t* s, uint64_t n, uint8_t* f, uint8_t* va) { (void)f; (void)va; if (n > 1) { s[0] = '#'; s[1] = 0; } else if (n) s[0] = 0; return 1; }

static uint32_t oom_now;
int h_alloc_fails(uint64_t n) { (void)n; return (int)oom_now; }
void h_exit_hook(void) { CHECK(0, "an allocation that fails does not fail the test by itself"); END_PATH(); }

static uint64_t t_len(const uint8_t* s) { uint64_t n = 0; while (s[n]) n++; return n; }

HARNESS(harness_malloc_oom) {
  h_init(); IN_U64(size); IN_BOOL(oom);
  ASSUME(size <= 32);
  oom_now = oom;
  uint32_t r = h_malloc(size);
  OBSERVE(r);
  CHECK((r == 0) == (oom != 0), "malloc returns NULL iff the allocation fails");
  WITNESS("end");
}
HARNESS(harness_strdup_oom) {
  h_init(); IN_ARR_U8(s, MAXL + 1); s[MAXL] = 0; IN_BOOL(oom);
#ifdef KF_C15_3
  ASSUME(!oom);                         /* known finding 3: strdup/strndup copy into the NULL result */
#endif
  oom_now = oom;
  uint8_t out[MAXL + 2];
  uint32_t r = h_strdup(s, out, MAXL + 2);
  OBSERVE(r);
  CHECK((r == 0) == (oom != 0), "strdup returns NULL iff its allocation fails");
  if (r) {
    uint64_t n = t_len(s);
    CHECK(t_len(out) == n, "strdup: length of the copy");
    for (uint64_t i = 0; i < n; i++) CHECK(out[i] == s[i], "strdup: content of the copy");
    OBSERVE_STR(out);
  }
  WITNESS("end");
}
HARNESS(harness_strndup_oom) {
  h_init(); IN_ARR_U8(s, MAXL + 1); s[MAXL] = 0; IN_U64(n); IN_BOOL(oom);
#ifdef KF_C15_3
  ASSUME(!oom);
#endif
  oom_now = oom;
  uint8_t out[MAXL + 2];
  uint32_t r = h_strndup(s, n, out, MAXL + 2);
  OBSERVE(r);
  CHECK((r == 0) == (oom != 0), "strndup returns NULL iff its allocation fails");
  if (r) {
    uint64_t len = t_len(s), w = len < n ? len : n;
    CHECK(t_len(out) == w, "strndup: the copy has min(n, length) bytes");
    for (uint64_t i = 0; i < w; i++) CHECK(out[i] == s[i], "strndup: content of the copy");
    OBSERVE_STR(out);
  }
  WITNESS("end");
}
static void body_calloc_oom_(const uint64_t size, const int small_wrapped) {
  h_init(); IN_U64(num); IN_BOOL(oom);
  uint64_t prod; int wraps = __builtin_mul_overflow(num, size, &prod);
  ASSUME(wraps || prod <= 16);
  if (small_wrapped) ASSUME(prod <= 16);         /* element sizes just above 2^64/k: the wrapped product is a SMALL number >= num (seeded C05-r4) */                   /* stated bound: blocks of at most 16 bytes (the wrapped product when it wraps) */
  oom_now = oom;
  uint8_t out[16];
  for (int i = 0; i < 16; i++) out[i] = 0xEE;
  uint32_t r = h_calloc(num, size, out, 16);
  OBSERVE(r);
  CHECK((r == 0) == (oom != 0 || wraps), "calloc returns NULL iff its allocation fails or num * size is not representable");
  if (r) for (uint64_t i = 0; i < 16; i++) CHECK(out[i] == (i < prod ? 0 : 0xEE), "calloc: the block is zeroed");
  WITNESS("end");
}
static void body_calloc_oom(const uint64_t size) { body_calloc_oom_(size, 0); }
/* element size is a constant per obligation (division by a symbolic divisor is out of the solver's reach) */
HARNESS(harness_calloc_oom_0) { body_calloc_oom(0); }
HARNESS(harness_calloc_oom_1) { body_calloc_oom(1); }
HARNESS(harness_calloc_oom_2) { body_calloc_oom(2); }
HARNESS(harness_calloc_oom_3) { body_calloc_oom(3); }
HARNESS(harness_calloc_oom_8) { body_calloc_oom(8); }
HARNESS(harness_calloc_oom_big) { body_calloc_oom(0x8000000000000000ULL); }
HARNESS(harness_calloc_oom_q62) { body_calloc_oom_(0x4000000000000001ULL, 1); }   /* 4 x (2^62+1) wraps to 4 */
HARNESS(harness_calloc_oom_q60) { body_calloc_oom_(0x1000000000000001ULL, 1); }   /* 16 x (2^60+1) wraps to 16 */
HARNESS(harness_calloc_oom_max) { body_calloc_oom(0xFFFFFFFFFFFFFFFFULL); }

/* ---- demonstrations of the known findings (NOT in spec.py: expected to FAIL) */
HARNESS(finding_strdup_under_oom) {
  h_init(); uint8_t s[2] = {'x', 0}, out[4];
  oom_now = 1;
  uint32_t r = h_strdup(s, out, 4);
  CHECK(r == 0, "strdup returns NULL when its allocation fails");
  WITNESS("end");
}
HARNESS(finding_strndup_under_oom) {
  h_init(); uint8_t s[2] = {'x', 0}, out[4];
  oom_now = 1;
  uint32_t r = h_strndup(s, 1, out, 4);
  CHECK(r == 0, "strndup returns NULL when its allocation fails");
  WITNESS("end");
}
HARNESS(finding_calloc_overflow) {
  h_init(); uint8_t out[16];
  uint32_t r = h_calloc((uint64_t)1 << 63, 2, out, 16);        /* 2^64 bytes requested */
  CHECK(r == 0, "calloc returns NULL when num * size is not representable");
  WITNESS("end");
}
