def ob(fn, unwind=12, timeout=300, bounds='', **kw):
    d = {'fn': fn, 'unwind': unwind, 'timeout': timeout, 'bounds': bounds}
    d.update(kw)
    return d
# the leak detector's hash table has 73 buckets (constructor loop); its lists hold at most one block here
CD = {'unwind': 7, 'unwindset': ['_ZN23MemoryLeakDetectorTableC2Ev.0:74'], 'timeout': 120}
CD9 = dict(CD, unwind=9)
DES = ('%d designation slots, each symbolically none / failAllocNumber(n) / failNthAllocAt(n, L) in symbolic registration order, n any 32-bit int, '
       'L one of 3 locations ("a.c":10, "a.c":20, "b.c":10; designation and allocation pass the file name through different arrays); ')
SPEC = {
    'property': 'C15',
    'functions_of_interest': ['FailableMemoryAllocator', 'LocationToFailAllocNode', 'cpputest_malloc', 'cpputest_calloc', 'cpputest_strdup', 'cpputest_strndup', 'countdown'],
    'assumptions': [
        'designations are registered before the allocation history starts (or right after clearFailedAllocs); no allocation is named by two pending designations at once',
        'failure-message constructors have empty bodies and vsnprintf renders "#": message text is property C14',
        'the test is left through PlatformSpecificLongJmp, replaced by a harness hook that checks the expectation and ends the path',
        'groups failable and cstr: leak detection compiled out (config memleak False): cpputest_malloc_location goes straight to PlatformSpecificMalloc = env_malloc, where the harness injects the failure symbolically',
        'group countdown: leak detection compiled in (the C-level out-of-memory simulation has no effect without it); in the translated world MemoryLeakDetector::allocMemory / deallocMemory / invalidateMemory are contract stubs of the harness (one request to the allocator passed in, NULL iff that yields NULL; release = free_memory on the allocator passed in) - the real detector is properties C04/C05 and runs in the real build of the differential check',
        'countdown semantics taken from TestHarness_c.h and the documenting tests in tests/CppUTest/TestHarness_cTest.cpp (countdown(3): 3rd malloc fails; countdown(0): next malloc fails)',
        'the bad_alloc-throwing operator new variants of the failure injection are outside this check (build without exceptions)',
    ],
    'groups': [{
        'name': 'failable', 'wrapper': 'w15.cpp', 'harness': 'h15.c',
        'config': {'memleak': False, 'empty_regex': ['^_ZN[0-9]+[A-Za-z]*FailureC[12]E', '^_ZN10UtestShell5printEPKcS1_m$']},
        'obligations': [
            ob('harness_fail_history', bounds=DES % 3 + 'then 4 allocations at symbolic locations, then checkAllFailedAllocsWereDone', timeout=600),
            ob('harness_fail_clear', bounds=DES % 3 + 'then 2 allocations, clearFailedAllocs (+ checkAll), one fresh symbolic designation, 2 more allocations, checkAll', timeout=600),
            ob('harness_fail_history', defines=['-DND=4', '-DNA=6'], tier='thorough', timeout=1800, bounds=DES % 4 + 'then 6 allocations at symbolic locations, then checkAllFailedAllocsWereDone'),
            ob('harness_fail_clear', defines=['-DND=4', '-DNA=6'], tier='thorough', timeout=1800, bounds=DES % 4 + 'then 2 allocations, clearFailedAllocs (+ checkAll), one fresh symbolic designation, 4 more allocations, checkAll'),
            # open known finding KF-C15-2: the defect must still reproduce (expected to FAIL)
            ob('finding_firing_skips_counting_of_earlier_designations', expect='fail', bounds='failNthAllocAt(2,L); failNthAllocAt(1,L); three allocations at L'),
        ],
    }, {
        'name': 'cstr', 'wrapper': 'w15.cpp', 'harness': 'h15s.c',
        'config': {'memleak': False, 'empty_regex': ['^_ZN[0-9]+[A-Za-z]*FailureC[12]E', '^_ZN10UtestShell5printEPKcS1_m$']},
        'obligations': [
            ob('harness_malloc_oom', bounds='size 0..32, allocation failure symbolic'),
            ob('harness_strdup_oom', bounds='strings <= 3 bytes over the full byte range, allocation failure symbolic'),
            ob('harness_strndup_oom', bounds='strings <= 3 bytes over the full byte range, n any 64-bit value, allocation failure symbolic'),
        ] + [ob('harness_calloc_oom_%s' % k, bounds='calloc(num, %s): num any 64-bit value (block <= 16 bytes when the product fits), allocation failure symbolic' % k, unwind=18, timeout=600) for k in ('0', '1', '2', '3', '8', 'big', 'max')] + [ob('harness_calloc_oom_%s' % k, bounds='calloc(num, %s): num any 64-bit value whose product with the element size, taken modulo 2^64, is <= 16 (overflowing products that wrap to a small number >= num included), allocation failure symbolic' % d, unwind=18, timeout=600) for k, d in (('q62', '2^62+1'), ('q60', '2^60+1'))] + [
        ],
    }, {
        'name': 'countdown', 'wrapper': 'w15c.cpp', 'harness': 'h15c.c',
        # the leak detector's failure REPORTS (text assembled in a 4 KB buffer) are not the subject: empty bodies; the reporter double counts calls
        'config': {'memleak': True, 'empty_regex': ['^_ZN[0-9]+[A-Za-z]*FailureC[12]E', '^_ZN10UtestShell5printEPKcS1_m$', '^_ZN28MemoryLeakOutputStringBuffer6report'],
                   'stubs': ['_ZN18MemoryLeakDetector11allocMemoryEP19TestMemoryAllocatormPKcmb', '_ZN18MemoryLeakDetector13deallocMemoryEP19TestMemoryAllocatorPvPKcmb', '_ZN18MemoryLeakDetector16invalidateMemoryEPc']},
        'obligations': [
            ob('harness_countdown', **CD, bounds='countdown value any 32-bit int; 4 allocations after it; set_not_out_of_memory before a symbolic one of them (or never)'),
            ob('harness_countdown', defines=['-DNA=7'], tier='thorough', **CD9, bounds='countdown value any 32-bit int; 7 allocations after it; set_not_out_of_memory before a symbolic one of them (or never)'),
            ob('harness_oom_switch', defines=['-DNA=7'], tier='thorough', **CD9, bounds='7 steps, each symbolically nothing / set_out_of_memory / set_not_out_of_memory, followed by an allocation'),
            ob('harness_oom_switch', **CD, bounds='4 steps, each symbolically nothing / set_out_of_memory / set_not_out_of_memory, followed by an allocation'),
            ob('harness_countdown_mixed', **CD, bounds='countdown value any 32-bit int; then strdup, calloc, malloc, strdup; set_not_out_of_memory before a symbolic one of them (or never)'),
            ob('harness_oom_calloc', **CD, bounds='calloc(2,4) with and without simulated out-of-memory'),
        ],
    }],
}
