// C15 wrapper (leak detection compiled out): a FailableMemoryAllocator of its real type driven through its
// public interface, and the C-level tracked allocation functions (cpputest_malloc/calloc/strdup/strndup _location),
// which in this configuration go straight to PlatformSpecificMalloc (= env_malloc, where the harness injects failure).
#define private public
#define protected public
#include "CppUTest/TestHarness.h"
#include "CppUTest/TestHarness_c.h"
#include "CppUTest/TestOutput.h"
#include "CppUTest/TestResult.h"
#include "CppUTest/TestMemoryAllocator.h"
#include "CppUTest/PlatformSpecificFunctions.h"

extern "C" {
void h_env_install(void);
void h_exit_hook(void);   // harness: the test was left through a failing check
}

class CountingOutput : public TestOutput
{
public:
    unsigned long failuresPrinted;
    CountingOutput() : failuresPrinted(0) {}
    virtual void printBuffer(const char*) CPPUTEST_OVERRIDE {}
    virtual void flush() CPPUTEST_OVERRIDE {}
    virtual void printFailure(const TestFailure&) CPPUTEST_OVERRIDE { failuresPrinted++; }
};

static TestResult* result_;
static FailableMemoryAllocator* fa_;

// three source locations: two share the file, two share the line.  The designation and the allocation name the
// file through DIFFERENT arrays with equal contents (a location is a file NAME and a line, not a pointer).
static const char fileA1[] = "a.c";
static const char fileA2[] = "a.c";
static const char fileB1[] = "b.c";
static const char fileB2[] = "b.c";
static const char* desigFile(int loc) { return loc == 2 ? fileB1 : fileA1; }
static const char* allocFile(int loc) { return loc == 2 ? fileB2 : fileA2; }
static size_t lineOf(int loc) { return loc == 1 ? 20 : 10; }

extern "C" {
void h_init(void)
{
    static CountingOutput out;
    static TestResult result(out);
    static UtestShell shell("group", "name", "file.cpp", 7);
    static FailableMemoryAllocator fa;
    h_env_install();
    PlatformSpecificLongJmp = h_exit_hook;
    result_ = &result; fa_ = &fa;
    shell.setTestResult(&result);
    shell.setCurrentTest(&shell);
}
unsigned long h_failures(void) { return result_->getFailureCount(); }

void h_fail_global(int n) { fa_->failAllocNumber(n); }
void h_fail_at(int n, int loc) { fa_->failNthAllocAt(n, desigFile(loc), lineOf(loc)); }
// one allocation at a location: 1 = got memory (given back at once), 0 = NULL
int h_alloc(int loc)
{
    char* p = fa_->alloc_memory(8, allocFile(loc), lineOf(loc));
    if (p == NULLPTR) return 0;
    p[0] = 1; p[7] = 1;
    fa_->free_memory(p, 8, allocFile(loc), lineOf(loc));
    return 1;
}
void h_check_done(void) { fa_->checkAllFailedAllocsWereDone(); }
void h_clear(void) { fa_->clearFailedAllocs(); }

// C-level tracked allocation functions; the caller's buffer `out` receives what the block holds
int h_malloc(unsigned long size)
{
    void* p = cpputest_malloc_location(size, "c.c", 1);
    if (p == NULLPTR) return 0;
    cpputest_free_location(p, "c.c", 2);
    return 1;
}
int h_calloc(unsigned long num, unsigned long size, unsigned char* out, unsigned long cap)
{
    unsigned char* p = (unsigned char*) cpputest_calloc_location(num, size, "c.c", 3);
    if (p == NULLPTR) return 0;
    for (unsigned long i = 0; i < cap && i < num * size; i++) out[i] = p[i];
    cpputest_free_location(p, "c.c", 4);
    return 1;
}
int h_strdup(const char* s, char* out, unsigned long cap)
{
    char* p = cpputest_strdup_location(s, "c.c", 5);
    if (p == NULLPTR) return 0;
    unsigned long i = 0;
    for (; p[i] && i + 1 < cap; i++) out[i] = p[i];
    out[i] = 0;
    cpputest_free_location(p, "c.c", 6);
    return 1;
}
int h_strndup(const char* s, unsigned long n, char* out, unsigned long cap)
{
    char* p = cpputest_strndup_location(s, n, "c.c", 7);
    if (p == NULLPTR) return 0;
    unsigned long i = 0;
    for (; p[i] && i + 1 < cap; i++) out[i] = p[i];
    out[i] = 0;
    cpputest_free_location(p, "c.c", 8);
    return 1;
}
}
