// C15 wrapper (leak detection compiled IN): the C-level out-of-memory simulation
// cpputest_malloc_set_out_of_memory / _countdown / set_not_out_of_memory only has an effect in this configuration,
// where cpputest_malloc_location allocates through the leak detector with getCurrentMallocAllocator().
// The global leak detector is a static object of its real type installed with setGlobalDetector (the lazily
// created one is a 4 KB `new`, beyond the heap model's block size).
#define private public
#define protected public
#include "CppUTest/TestHarness.h"
#include "CppUTest/TestHarness_c.h"
#include "CppUTest/TestOutput.h"
#include "CppUTest/TestResult.h"
#include "CppUTest/TestMemoryAllocator.h"
#include "CppUTest/MemoryLeakDetector.h"
#include "CppUTest/MemoryLeakWarningPlugin.h"
#include "CppUTest/PlatformSpecificFunctions.h"

extern "C" {
void h_env_install(void);
void h_exit_hook(void);
void h_rec_leak_report(void);
}

class CountingOutput : public TestOutput
{
public:
    virtual void printBuffer(const char*) CPPUTEST_OVERRIDE {}
    virtual void flush() CPPUTEST_OVERRIDE {}
    virtual void printFailure(const TestFailure&) CPPUTEST_OVERRIDE {}
};
class RecReporter : public MemoryLeakFailure
{
public:
    virtual void fail(char*) CPPUTEST_OVERRIDE { h_rec_leak_report(); }
};

static TestResult* result_;

extern "C" {
void h_init(void)
{
    h_env_install();
    PlatformSpecificLongJmp = h_exit_hook;
    MemoryLeakWarningPlugin::saveAndDisableNewDeleteOverloads();   // as getGlobalDetector() does: plain operator new while the detector is built
    static CountingOutput out;
    static TestResult result(out);
    static UtestShell shell("group", "name", "file.cpp", 7);
    static RecReporter reporter;
    static MemoryLeakDetector detector(&reporter);
    MemoryLeakWarningPlugin::setGlobalDetector(&detector, &reporter);
    MemoryLeakWarningPlugin::restoreNewDeleteOverloads();
    result_ = &result;
    shell.setTestResult(&result);
    shell.setCurrentTest(&shell);
}
unsigned long h_failures(void) { return result_->getFailureCount(); }
void h_countdown(int c) { cpputest_malloc_set_out_of_memory_countdown(c); }
void h_oom(void) { cpputest_malloc_set_out_of_memory(); }
void h_not_oom(void) { cpputest_malloc_set_not_out_of_memory(); }
int h_count(void) { return cpputest_malloc_get_count(); }
// for the harness' contract model of the leak detector (solver world only): plain virtual calls on an allocator
char* h_via_allocator(TestMemoryAllocator* a, unsigned long size, const char* file, unsigned long line) { return a->alloc_memory(size, file, line); }
void h_free_via_allocator(TestMemoryAllocator* a, char* p, unsigned long size, const char* file, unsigned long line) { a->free_memory(p, size, file, line); }
int h_malloc(unsigned long size)
{
    void* p = cpputest_malloc_location(size, "c.c", 1);
    if (p == NULLPTR) return 0;
    cpputest_free_location(p, "c.c", 2);
    return 1;
}
int h_calloc(unsigned long num, unsigned long size)
{
    void* p = cpputest_calloc_location(num, size, "c.c", 3);
    if (p == NULLPTR) return 0;
    cpputest_free_location(p, "c.c", 4);
    return 1;
}
int h_strdup(const char* s)
{
    char* p = cpputest_strdup_location(s, "c.c", 5);
    if (p == NULLPTR) return 0;
    cpputest_free_location(p, "c.c", 6);
    return 1;
}
}
