/* C16: the JUnit report of a test group is well-formed XML and faithful to the run.
 *
 * The oracle is a READER, not a second writer: a recogniser + decoder of the XML subset a report may use
 *   document  ::= '<?xml' pseudo-attributes '?>'  S?  element  S?
 *   element   ::= '<' Name (S Name Eq '"' AttValue '"')* S? ( '/>' | '>' content '</' Name S? '>' )
 *   content   ::= ( character data | element | reference )*
 *   reference ::= '&amp;' | '&lt;' | '&gt;' | '&quot;' | '&apos;' | '&#' decimal ';'
 * with the well-formedness constraints: tags nest and match, no '<' in an attribute value, no bare '&', attribute names
 * unique per tag, one root, declaration only at the very start.  Like a conforming parser it normalises white space in
 * attribute values to blanks.  It walks the bytes written to the file once and reports open / attribute / close events
 * to a checker that compares the document with the run (counts, order, names, files, lines, skipped / failure markers,
 * decoded failure message and printed text).  The run is produced by the real TestRegistry::runAllTests (w16.cpp). */
#ifndef ENV_MALLOC_CAP
#define ENV_MALLOC_CAP 112
#endif
#define ENV_CUSTOM_FILE
#define ENV_CUSTOM_VSNPRINTF
#define ENV_CUSTOM_TIME
#include "env.c"
#include "translated.h"

#define MAXT 2          /* tests per run (each harness fixes its own number <= MAXT) */
#ifndef SLEN
#define SLEN 2          /* symbolic bytes per text field */
#endif

/* ---------------------------------------------------------------- time model: the clock stands still; short time stamp */
uint64_t env_now_millis;
uint64_t env_time_millis(void) { return env_now_millis; }
uint8_t* env_time_string(void) { return (uint8_t*)"T"; }

/* ---------------------------------------------------------------- vsnprintf model
 * env.c's directive model for %s %d %u with 0-flag and width, except that decimal digits are produced by comparisons
 * instead of division (division circuits on symbolic words are out of the solver's reach): numbers up to 99 only,
 * anything larger is an ENGINE error (= bound too small), never silently wrong. */
static void f_put(uint8_t* s, uint64_t n, uint64_t* pos, uint8_t c) { if (*pos + 1 < n) s[*pos] = c; (*pos)++; }
static unsigned tens_of(uint64_t u) { return (unsigned)((u >= 10) + (u >= 20) + (u >= 30) + (u >= 40) + (u >= 50) + (u >= 60) + (u >= 70) + (u >= 80) + (u >= 90)); }
uint32_t env_vsnprintf(uint8_t* s, uint64_t n, uint8_t* f, uint8_t* va) {
  va_list* ap = (va_list*)va;
  uint64_t pos = 0;
  for (; *f; f++) {
    if (*f != '%') { f_put(s, n, &pos, *f); continue; }
    f++;
    int zero = 0, width = 0, lng = 0;
    if (*f == '0') { zero = 1; f++; }
    while (*f >= '0' && *f <= '9') { width = width * 10 + (*f - '0'); f++; }
    for (;; f++) { if (*f == 'l') lng++; else if (*f == 'z') lng = 1; else break; }
    uint8_t c = *f;
    if (c == 's') { const uint8_t* a = va_arg(*ap, const uint8_t*); for (uint64_t i = 0; a[i]; i++) f_put(s, n, &pos, a[i]); continue; }
    if (c == 'd' || c == 'u') {
      uint64_t u;
      if (c == 'd') { int64_t v = lng >= 1 ? va_arg(*ap, int64_t) : (int64_t)va_arg(*ap, int); ENV_ENGINE_ASSERT(v >= 0, "vsnprintf model: negative number"); u = (uint64_t)v; }
      else u = lng >= 1 ? va_arg(*ap, uint64_t) : (uint64_t)va_arg(*ap, unsigned);
      ENV_ENGINE_ASSERT(u < 100, "vsnprintf model: number above 99 (bound too small)");
      unsigned t = tens_of(u), o = (unsigned)(u - 10 * t);
      int len = t ? 2 : 1;
      for (int i = len; i < width; i++) f_put(s, n, &pos, zero ? '0' : ' ');
      if (t) f_put(s, n, &pos, (uint8_t)('0' + t));
      f_put(s, n, &pos, (uint8_t)('0' + o));
      continue;
    }
    ENV_ENGINE_ASSERT(0, "vsnprintf model: unsupported directive");
  }
  if (n) s[pos < n ? pos : n - 1] = 0;
  return (uint32_t)pos;
}

/* ---------------------------------------------------------------- texts
 * A text of up to 16 bytes (the longest value the run determines has 9) is kept packed in two 64-bit words plus its length (one equality test instead of a loop).
 * Harness state lives in separate small objects on purpose: the symbolic execution pays for every access to a big
 * struct; and there are no two-dimensional arrays (CBMC 6.11 misreads rows of a uint8_t[][] through a pointer). */
#define TXT_CAP 16
struct txt { uint64_t w[2]; uint32_t n; };          /* n == TXT_CAP + 1: longer than the capacity */
static void txt_add(struct txt* t, uint8_t c) {
  if (t->n < TXT_CAP) { t->w[t->n >> 3] |= (uint64_t)c << ((t->n & 7) * 8); t->n++; } else t->n = TXT_CAP + 1;
}
static void txt_clear(struct txt* t) { t->w[0] = t->w[1] = 0; t->n = 0; }
static int txt_eq(const struct txt* a, const struct txt* b) { return a->n == b->n && a->w[0] == b->w[0] && a->w[1] == b->w[1]; }
static void txt_cat(struct txt* t, const uint8_t* s, uint32_t cap) { for (uint32_t i = 0; i < cap && s[i]; i++) txt_add(t, s[i]); }
static void txt_cat_dec(struct txt* t, uint32_t v) { unsigned d = tens_of(v); if (d) txt_add(t, (uint8_t)('0' + d)); txt_add(t, (uint8_t)('0' + (v - 10 * d))); }   /* v < 100 */

/* ---------------------------------------------------------------- the run as the harness set it up (the originals) */
#define FCAP (SLEN + 1)
struct fld { uint8_t s[FCAP]; };
static uint32_t NT;                                  /* number of tests of this run */
static uint32_t t_ignored[MAXT], t_fails[MAXT], t_line[MAXT], t_fline[MAXT];
static struct fld t_package, t_group, t_printed, t_name[MAXT], t_file[MAXT], t_ffile[MAXT], t_fmsg[MAXT];
/* what a reader of the report must get back */
#define FNCAP 24
static uint8_t x_filename[FNCAP];

static int t_eq(const uint8_t* a, const uint8_t* b) { uint64_t i = 0; while (a[i] && a[i] == b[i]) i++; return a[i] == b[i]; }
static int t_has_any(const uint8_t* s, const char* set) { for (uint32_t i = 0; i < SLEN && s[i]; i++) for (uint32_t j = 0; set[j]; j++) if (s[i] == (uint8_t)set[j]) return 1; return 0; }

/* ---------------------------------------------------------------- XML reader */
/* names are kept as two numbers of nine 7-bit character codes plus the length: exact for names of up to 18 characters */
static uint64_t name_code(uint64_t acc, uint8_t c) { return (acc << 7) | (uint64_t)(c & 127); }
enum { N_NONE, E_TESTSUITE, E_PROPERTIES, E_TESTCASE, E_FAILURE, E_SKIPPED, E_SYSOUT, E_SYSERR,
       AT_ERRORS, AT_FAILURES, AT_HOSTNAME, AT_NAME, AT_TESTS, AT_TIME, AT_TIMESTAMP, AT_CLASSNAME, AT_ASSERTIONS, AT_FILE, AT_LINE, AT_MESSAGE, AT_TYPE, AT_VERSION, AT_ENCODING,
       EN_AMP, EN_LT, EN_GT, EN_QUOT, EN_APOS, PI_XML, NNAMES };
static const char* const NAMES[NNAMES] = { "", "testsuite", "properties", "testcase", "failure", "skipped", "system-out", "system-err",
       "errors", "failures", "hostname", "name", "tests", "time", "timestamp", "classname", "assertions", "file", "line", "message", "type", "version", "encoding",
       "amp", "lt", "gt", "quot", "apos", "xml" };
static uint64_t N_a[NNAMES], N_b[NNAMES]; static uint32_t N_n[NNAMES];
static void names_init(void) {
  for (int j = 0; j < NNAMES; j++) {
    uint64_t a = 0, b = 0; uint32_t n = 0;
    for (; NAMES[j][n]; n++) { if (n < 9) a = name_code(a, (uint8_t)NAMES[j][n]); else b = name_code(b, (uint8_t)NAMES[j][n]); }
    N_a[j] = a; N_b[j] = b; N_n[j] = n;
  }
}
static uint64_t R_ta, R_tb; static uint32_t R_tn;           /* the name being read */
static uint32_t name_of_token(uint32_t first, uint32_t last) {      /* which of NAMES[first..last] the token is, 0 = none */
  uint32_t r = N_NONE;
  for (uint32_t j = first; j <= last; j++) r = (R_ta == N_a[j] && R_tb == N_b[j] && R_tn == N_n[j]) ? j : r;
  return r;
}

/* Table-driven automaton over character classes (it runs once per written byte under symbolic execution, hence a
 * transition table plus a few guarded actions instead of nested branches).  Every entry not listed is "ill-formed".
 *
 *   CONTENT     '<' -> LT ; '&' -> ENT ; any other character is character data
 *   LT          '/' -> CLOSENAME ; '?' -> PITARGET (only as the first bytes of the file) ; name start -> TAGNAME
 *   TAGNAME     name character -> TAGNAME ; S -> INTAG (element opens) ; '>' -> CONTENT (opens, tag ends) ; '/' -> SLASH (opens)
 *   INTAG       S -> INTAG ; name start -> ATTRNAME ; '>' -> CONTENT (tag ends) ; '/' -> SLASH ; '?' -> PIQ (declaration only)
 *   ATTRNAME    name character -> ATTRNAME ; '=' -> ATTREQ ; S -> ATTRAFTER
 *   ATTRAFTER   S -> ATTRAFTER ; '=' -> ATTREQ
 *   ATTREQ      S -> ATTREQ ; '"' -> VALUE
 *   VALUE       '"' -> AFTERVALUE (attribute complete) ; '&' -> ENT ; S -> VALUE (a blank) ; '<' ill-formed ; other -> VALUE
 *   AFTERVALUE  S -> INTAG ; '>' -> CONTENT (tag ends) ; '/' -> SLASH ; '?' -> PIQ (declaration only)
 *   SLASH       '>' -> CONTENT (empty element: tag ends, element closes)
 *   CLOSENAME   name character -> CLOSENAME ; S -> CLOSEWS ; '>' -> CONTENT (element closes)
 *   CLOSEWS     S -> CLOSEWS ; '>' -> CONTENT (element closes)
 *   ENT         letter, digit, '#' -> ENT ; ';' -> back to CONTENT / VALUE with the decoded character
 *   PITARGET    name character -> PITARGET ; S -> INTAG (target must be xml)
 *   PIQ         '>' -> CONTENT
 *   ERR         ill-formed input: stays */
enum { S_CONTENT, S_LT, S_TAGNAME, S_INTAG, S_ATTRNAME, S_ATTRAFTER, S_ATTREQ, S_VALUE, S_AFTERVALUE, S_SLASH, S_CLOSENAME, S_CLOSEWS, S_ENT, S_PITARGET, S_PIQ, S_ERR, NSTATES };
enum { C_LT, C_GT, C_AMP, C_QUOT, C_APOS, C_EQ, C_SLASH, C_QM, C_SEMI, C_HASH, C_WS, C_DIGIT, C_NAME, C_NAMEX, C_OTHER, NCLASSES };
enum { A_NONE, A_BAD, A_TEXT, A_TOK_FIRST, A_TOK_ADD, A_TOK_BEGIN, A_OPEN, A_OPEN_AND_END, A_OPEN_END, A_EMPTY_END, A_CLOSE, A_ATTRNAME_END, A_VAL_BEGIN, A_VAL, A_VAL_WS, A_ATTR,
       A_ENT_BEGIN, A_ENT_ADD, A_ENT_END, A_PI_BEGIN, A_PI_TARGET_END, A_PI_END, NACTIONS };
#define GO(state, action) ((uint16_t)((action) << 5 | (state)))
#define BAD GO(S_ERR, A_BAD)
#define TXT GO(S_CONTENT, A_TEXT)
#define VAL GO(S_VALUE, A_VAL)
#define TAG GO(S_TAGNAME, A_TOK_ADD)
#define ATN GO(S_ATTRNAME, A_TOK_ADD)
#define CLN GO(S_CLOSENAME, A_TOK_ADD)
#define PIT GO(S_PITARGET, A_TOK_ADD)
#define ENA GO(S_ENT, A_ENT_ADD)
static const uint16_t TABLE[NSTATES * NCLASSES] = {
  /*                 LT              GT                           AMP                      QUOT                       APOS  EQ                              SLASH                          QM                         SEMI                   HASH  WS                                DIGIT NAME                              NAMEX OTHER */
  /* CONTENT    */   GO(S_LT, 0),    TXT,                         GO(S_ENT, A_ENT_BEGIN),  TXT,                       TXT,  TXT,                            TXT,                           TXT,                       TXT,                   TXT,  TXT,                              TXT,  TXT,                              TXT,  TXT,
  /* LT         */   BAD,            BAD,                         BAD,                     BAD,                       BAD,  BAD,                            GO(S_CLOSENAME, A_TOK_BEGIN),  GO(S_PITARGET, A_PI_BEGIN), BAD,                  BAD,  BAD,                              BAD,  GO(S_TAGNAME, A_TOK_FIRST),       BAD,  BAD,
  /* TAGNAME    */   BAD,            GO(S_CONTENT, A_OPEN_AND_END), BAD,                   BAD,                       BAD,  BAD,                            GO(S_SLASH, A_OPEN),           BAD,                       BAD,                   BAD,  GO(S_INTAG, A_OPEN),              TAG,  TAG,                              TAG,  BAD,
  /* INTAG      */   BAD,            GO(S_CONTENT, A_OPEN_END),   BAD,                     BAD,                       BAD,  BAD,                            GO(S_SLASH, 0),                GO(S_PIQ, 0),              BAD,                   BAD,  GO(S_INTAG, 0),                   BAD,  GO(S_ATTRNAME, A_TOK_FIRST),      BAD,  BAD,
  /* ATTRNAME   */   BAD,            BAD,                         BAD,                     BAD,                       BAD,  GO(S_ATTREQ, A_ATTRNAME_END),   BAD,                           BAD,                       BAD,                   BAD,  GO(S_ATTRAFTER, A_ATTRNAME_END),  ATN,  ATN,                              ATN,  BAD,
  /* ATTRAFTER  */   BAD,            BAD,                         BAD,                     BAD,                       BAD,  GO(S_ATTREQ, 0),                BAD,                           BAD,                       BAD,                   BAD,  GO(S_ATTRAFTER, 0),               BAD,  BAD,                              BAD,  BAD,
  /* ATTREQ     */   BAD,            BAD,                         BAD,                     GO(S_VALUE, A_VAL_BEGIN),  BAD,  BAD,                            BAD,                           BAD,                       BAD,                   BAD,  GO(S_ATTREQ, 0),                  BAD,  BAD,                              BAD,  BAD,
  /* VALUE      */   BAD,            VAL,                         GO(S_ENT, A_ENT_BEGIN),  GO(S_AFTERVALUE, A_ATTR),  VAL,  VAL,                            VAL,                           VAL,                       VAL,                   VAL,  GO(S_VALUE, A_VAL_WS),            VAL,  VAL,                              VAL,  VAL,
  /* AFTERVALUE */   BAD,            GO(S_CONTENT, A_OPEN_END),   BAD,                     BAD,                       BAD,  BAD,                            GO(S_SLASH, 0),                GO(S_PIQ, 0),              BAD,                   BAD,  GO(S_INTAG, 0),                   BAD,  BAD,                              BAD,  BAD,
  /* SLASH      */   BAD,            GO(S_CONTENT, A_EMPTY_END),  BAD,                     BAD,                       BAD,  BAD,                            BAD,                           BAD,                       BAD,                   BAD,  BAD,                              BAD,  BAD,                              BAD,  BAD,
  /* CLOSENAME  */   BAD,            GO(S_CONTENT, A_CLOSE),      BAD,                     BAD,                       BAD,  BAD,                            BAD,                           BAD,                       BAD,                   BAD,  GO(S_CLOSEWS, 0),                 CLN,  CLN,                              CLN,  BAD,
  /* CLOSEWS    */   BAD,            GO(S_CONTENT, A_CLOSE),      BAD,                     BAD,                       BAD,  BAD,                            BAD,                           BAD,                       BAD,                   BAD,  GO(S_CLOSEWS, 0),                 BAD,  BAD,                              BAD,  BAD,
  /* ENT        */   BAD,            BAD,                         BAD,                     BAD,                       BAD,  BAD,                            BAD,                           BAD,                       GO(S_ENT, A_ENT_END),  ENA,  BAD,                              ENA,  ENA,                              BAD,  BAD,
  /* PITARGET   */   BAD,            BAD,                         BAD,                     BAD,                       BAD,  BAD,                            BAD,                           BAD,                       BAD,                   BAD,  GO(S_INTAG, A_PI_TARGET_END),     PIT,  PIT,                              PIT,  BAD,
  /* PIQ        */   BAD,            GO(S_CONTENT, A_PI_END),     BAD,                     BAD,                       BAD,  BAD,                            BAD,                           BAD,                       BAD,                   BAD,  BAD,                              BAD,  BAD,                              BAD,  BAD,
  /* ERR        */   BAD,            BAD,                         BAD,                     BAD,                       BAD,  BAD,                            BAD,                           BAD,                       BAD,                   BAD,  BAD,                              BAD,  BAD,                              BAD,  BAD,
};
static uint32_t R_state, R_illformed, R_started, R_lt_first, R_in_pi, R_ent_ret, R_ent_num, R_ent_numeric, R_elem, R_attr;
static struct txt R_cur;                              /* attribute value / character data being decoded */
static void on_open(void); static void on_open_end(void); static void on_attr(void); static void on_close(uint32_t elem);
static uint32_t C_depth, C_top, C_bad_structure;

static uint32_t class_of(uint8_t c) {
  return c == '<' ? C_LT : c == '>' ? C_GT : c == '&' ? C_AMP : c == '"' ? C_QUOT : c == '\'' ? C_APOS : c == '=' ? C_EQ : c == '/' ? C_SLASH : c == '?' ? C_QM : c == ';' ? C_SEMI : c == '#' ? C_HASH
       : (c == ' ' || c == '\n' || c == '\r' || c == '\t') ? C_WS : (c >= '0' && c <= '9') ? C_DIGIT
       : ((c >= 'a' && c <= 'z') || (c >= 'A' && c <= 'Z') || c == '_' || c == ':') ? C_NAME : (c == '-' || c == '.') ? C_NAMEX : C_OTHER;
}
static void cur_add(uint8_t d) { if (R_cur.n < TXT_CAP) { R_cur.w[R_cur.n >> 3] |= (uint64_t)d << ((R_cur.n & 7) * 8); R_cur.n++; } else R_cur.n = TXT_CAP + 1; }
static void cur_clear(void) { R_cur.w[0] = R_cur.w[1] = 0; R_cur.n = 0; }
static void reader_step(uint8_t c) {
  uint32_t s = R_state < NSTATES ? R_state : S_ERR, cls = class_of(c);
  uint32_t e = TABLE[s * NCLASSES + cls], act = e >> 5, ns = e & 31;
  uint8_t d = c;
  uint32_t first = !R_started, w = N_NONE;
  R_started = 1;
  if (act == A_OPEN || act == A_OPEN_AND_END || act == A_ATTRNAME_END || act == A_CLOSE || act == A_ENT_END || act == A_PI_TARGET_END) w = name_of_token(1, NNAMES - 1);
  /* side conditions */
  if (act == A_PI_BEGIN && !R_lt_first) act = A_BAD;                                              /* a declaration anywhere but at the very start */
  if ((s == S_INTAG || s == S_AFTERVALUE) && ((cls == C_QM) != (R_in_pi != 0)) && (cls == C_QM || cls == C_GT || cls == C_SLASH)) act = A_BAD;   /* ?> ends a declaration and nothing else */
  if (act == A_TOK_ADD && s == S_CLOSENAME && R_tn == 0 && cls != C_NAME) act = A_BAD;             /* a name starts with a name-start character */
  if (act == A_CLOSE && R_tn == 0) act = A_BAD;
  if (act == A_TEXT && C_depth == 0 && cls != C_WS) act = A_BAD;                                   /* character data outside the root element */
  if (act == A_ENT_ADD && cls == C_HASH && R_tn != 0) act = A_BAD;                                 /* '#' only directly after '&' */
  if (act == A_ENT_ADD && R_ent_numeric && cls != C_DIGIT) act = A_BAD;                            /* decimal character references only */
  if (act == A_ENT_END) {
    if (R_ent_numeric) { d = (uint8_t)R_ent_num; if (R_tn < 2 || R_ent_num > 255 || !(R_ent_num == 9 || R_ent_num == 10 || R_ent_num == 13 || R_ent_num >= 32)) act = A_BAD; }
    else if (w == EN_AMP) d = '&'; else if (w == EN_LT) d = '<'; else if (w == EN_GT) d = '>'; else if (w == EN_QUOT) d = '"'; else if (w == EN_APOS) d = '\''; else act = A_BAD;
    ns = R_ent_ret;
  }
  if (act == A_PI_TARGET_END && w != PI_XML) act = A_BAD;
  if (act == A_BAD) { R_illformed = 1; ns = S_ERR; }
  /* actions */
  if (s == S_CONTENT && cls == C_LT) R_lt_first = first;
  if (act == A_TOK_FIRST || act == A_TOK_BEGIN || act == A_ENT_BEGIN || act == A_PI_BEGIN) { R_ta = R_tb = 0; R_tn = 0; }
  if (act == A_ENT_BEGIN) { R_ent_ret = s; R_ent_num = 0; R_ent_numeric = 0; }
  if (act == A_TOK_FIRST || act == A_TOK_ADD || act == A_ENT_ADD) {
    if (act == A_ENT_ADD) { if (cls == C_HASH) R_ent_numeric = 1; else if (R_ent_numeric) R_ent_num = R_ent_num < 100 ? R_ent_num * 10 + (uint32_t)(c - '0') : 1000; }
    if (R_tn < 9) R_ta = name_code(R_ta, c); else if (R_tn < 18) R_tb = name_code(R_tb, c);
    if (R_tn < 19) R_tn++;                            /* 19 characters: longer than any name of the vocabulary */
  }
  if (act == A_PI_TARGET_END) R_in_pi = 1;
  if (act == A_PI_END) R_in_pi = 0;
  if (act == A_OPEN || act == A_OPEN_AND_END) { R_elem = (w >= E_TESTSUITE && w <= E_SYSERR) ? w : N_NONE; on_open(); }
  if (act == A_ATTRNAME_END) R_attr = (w >= AT_ERRORS && w <= AT_ENCODING) ? w : N_NONE;
  if (act == A_ATTR) on_attr();
  if (act == A_OPEN_AND_END || act == A_OPEN_END || act == A_EMPTY_END) on_open_end();
  if (act == A_EMPTY_END || act == A_CLOSE) on_close(act == A_CLOSE ? ((w >= E_TESTSUITE && w <= E_SYSERR) ? w : NNAMES) : N_NONE);
  /* the decoded character of an attribute value (white space normalised to a blank) or of character data */
  if (act == A_VAL_WS) d = ' ';
  uint32_t in_value = act == A_VAL || act == A_VAL_WS || (act == A_ENT_END && R_ent_ret == S_VALUE);
  uint32_t in_text = act == A_TEXT || (act == A_ENT_END && R_ent_ret == S_CONTENT);
  if (in_text && C_top != E_SYSOUT && !(d == ' ' || d == '\n' || d == '\r' || d == '\t')) C_bad_structure = 1;      /* text where the report format has none */
  if (act == A_VAL_BEGIN || act == A_OPEN || act == A_OPEN_AND_END || act == A_OPEN_END || act == A_EMPTY_END || act == A_CLOSE) cur_clear();
  if (in_value || (in_text && C_top == E_SYSOUT)) cur_add(d);
  R_state = ns;
}

/* ---------------------------------------------------------------- checker: document structure and decoded values against the run */
/* what a reader of the report must get back: one slot per value the run determines */
enum { X_NOTHING, X_ZERO, X_FAILURES, X_GROUP, X_TESTS, X_TIME, X_CLASSNAME, X_PRINTED, X_NAME, X_FILE = X_NAME + MAXT, X_LINE = X_FILE + MAXT, X_MESSAGE = X_LINE + MAXT, NX = X_MESSAGE + MAXT };
static uint64_t XW0[NX], XW1[NX]; static uint32_t XN[NX];
static void x_set(uint32_t slot, const struct txt* t) { XW0[slot] = t->w[0]; XW1[slot] = t->w[1]; XN[slot] = t->n; }
#define ANY 0x80        /* attribute belongs to the element, its value is not determined by the run */
#define PER_TEST 0x40   /* slot + index of the test case */
static const uint8_t EXPECTED[8 * 32] = {       /* [element * 32 + attribute]; 0 = the element has no such attribute */
  [E_TESTSUITE * 32 + AT_ERRORS] = X_ZERO, [E_TESTSUITE * 32 + AT_FAILURES] = X_FAILURES, [E_TESTSUITE * 32 + AT_NAME] = X_GROUP, [E_TESTSUITE * 32 + AT_TESTS] = X_TESTS,
  [E_TESTSUITE * 32 + AT_TIME] = X_TIME, [E_TESTSUITE * 32 + AT_HOSTNAME] = ANY, [E_TESTSUITE * 32 + AT_TIMESTAMP] = ANY,
  [E_TESTCASE * 32 + AT_CLASSNAME] = X_CLASSNAME, [E_TESTCASE * 32 + AT_TIME] = X_TIME, [E_TESTCASE * 32 + AT_ASSERTIONS] = X_ZERO,
  [E_TESTCASE * 32 + AT_NAME] = PER_TEST | X_NAME, [E_TESTCASE * 32 + AT_FILE] = PER_TEST | X_FILE, [E_TESTCASE * 32 + AT_LINE] = PER_TEST | X_LINE,
  [E_FAILURE * 32 + AT_MESSAGE] = PER_TEST | X_MESSAGE, [E_FAILURE * 32 + AT_TYPE] = ANY,
};
static uint32_t C_s0, C_s1, C_root_seen, C_phase, C_count, C_child_failure, C_child_skipped, C_seen, C_bad_value, C_too_long;
enum { PH_PROPERTIES, PH_TESTCASES, PH_SYSERR, PH_DONE };
static void expect_slot(uint32_t slot) {
  if (slot >= NX) slot = X_NOTHING;
  if (!(R_cur.n == XN[slot] && R_cur.w[0] == XW0[slot] && R_cur.w[1] == XW1[slot])) C_bad_value = 1;
  if (R_cur.n > TXT_CAP) C_too_long = 1;
}
static void on_open(void) {
  uint32_t e = R_elem, parent = C_top;
  if (e == N_NONE) C_bad_structure = 1;                                  /* an element the report format does not have */
  if (C_depth == 0) { if (e != E_TESTSUITE || C_root_seen) C_bad_structure = 1; C_root_seen = 1; C_phase = PH_PROPERTIES; C_count = 0; }
  else if (parent == E_TESTSUITE) {
    if (e == E_PROPERTIES) { if (C_phase != PH_PROPERTIES) C_bad_structure = 1; C_phase = PH_TESTCASES; }
    else if (e == E_TESTCASE) { if (C_phase != PH_TESTCASES) C_bad_structure = 1; C_count++; C_child_failure = 0; C_child_skipped = 0; }
    else if (e == E_SYSOUT) { if (C_phase != PH_TESTCASES) C_bad_structure = 1; C_phase = PH_SYSERR; }
    else if (e == E_SYSERR) { if (C_phase != PH_SYSERR) C_bad_structure = 1; C_phase = PH_DONE; }
    else C_bad_structure = 1;
  }
  else if (parent == E_TESTCASE) {
    if (C_child_failure || C_child_skipped) C_bad_structure = 1;          /* at most one marker per test case */
    if (e == E_FAILURE) C_child_failure = 1; else if (e == E_SKIPPED) C_child_skipped = 1; else C_bad_structure = 1;
  }
  else C_bad_structure = 1;                                               /* properties, failure, skipped, system-out, system-err have no children */
  if (C_depth == 1) C_s0 = C_top; else if (C_depth == 2) C_s1 = C_top; else if (C_depth >= 3) R_illformed = 1;   /* (deeper than any report: beyond the reader's stack) */
  C_top = e;
  if (C_depth < 3) C_depth++;
  C_seen = 0;
}
static void on_attr(void) {
  uint32_t a = R_attr, ci = C_count - 1;
  if (a != N_NONE && ((C_seen >> a) & 1)) R_illformed = 1;               /* attribute names are unique within a tag */
  C_seen |= 1u << a;
  if (R_in_pi) { if (a != AT_VERSION && a != AT_ENCODING) R_illformed = 1; }
  else {
    uint32_t x = EXPECTED[(C_top < 8 ? C_top : 0) * 32 + a];
    if (x == 0) C_bad_structure = 1;                                      /* the element has no such attribute */
    else if (x != ANY) { if ((x & PER_TEST) && ci >= NT) C_bad_structure = 1; else expect_slot((x & PER_TEST) ? (x & 63) + ci : x); }
  }
}
#define SEEN(a) ((C_seen >> (a)) & 1)
static void on_open_end(void) {
  uint32_t e = C_top;
  if (e == E_TESTSUITE && !(SEEN(AT_FAILURES) && SEEN(AT_NAME) && SEEN(AT_TESTS))) C_bad_structure = 1;
  if (e == E_TESTCASE && !(SEEN(AT_CLASSNAME) && SEEN(AT_NAME) && SEEN(AT_FILE) && SEEN(AT_LINE))) C_bad_structure = 1;
  if (e == E_FAILURE && !SEEN(AT_MESSAGE)) C_bad_structure = 1;
}
static void on_close(uint32_t name) {      /* N_NONE: the end of an empty-element tag; NNAMES: an end tag with a name outside the vocabulary */
  uint32_t e = C_top, ci = C_count - 1;
  if (C_depth == 0 || (name != N_NONE && name != e)) R_illformed = 1;                     /* end tag without / with another start tag */
  if (e == E_TESTCASE) {
    if (ci >= NT) C_bad_structure = 1;
    for (uint32_t i = 0; i < MAXT; i++) if (i == ci) {
      if (C_child_failure != t_fails[i]) C_bad_structure = 1;                              /* failure element iff the test failed */
      if (C_child_skipped != t_ignored[i]) C_bad_structure = 1;                            /* skipped marker iff the test was ignored */
    }
  }
  if (e == E_SYSOUT) expect_slot(X_PRINTED);                                               /* the decoded text is what the tests printed */
  if (e == E_TESTSUITE && (C_count != NT || C_phase != PH_DONE)) C_bad_structure = 1;       /* one test case per test; all parts present */
  C_top = C_depth == 3 ? C_s1 : C_depth == 2 ? C_s0 : N_NONE;
  if (C_depth > 0) C_depth--;
}

/* ---------------------------------------------------------------- SimpleString::replace(const char*, const char*) by contract
 * In the translated world of the obligations that say so (spec.py: config 'stubs') the function is replaced by its contract -
 * every left-to-right, non-overlapping occurrence of `to` becomes `with`, an empty `to` or no occurrence changes nothing -
 * which property C13 proves for the real function; the real one writes its result through a pointer with a symbolic offset
 * into the heap model, which costs two orders of magnitude more.  The real build and the '_real' obligations use the real one. */
#if defined(LL2C_TRANSLATED) && defined(REPLACE_BY_CONTRACT)
#define RCAP 16
void _ZN12SimpleString7replaceEPKcS1_(uint8_t* self, uint8_t* to, uint8_t* with) {
  uint8_t* buf = *(uint8_t**)self;
  uint8_t in[RCAP], out[RCAP];
  uint32_t tolen = 0, withlen = 0, len = 0, live = 1;
  while (to[tolen]) tolen++;
  while (with[withlen]) withlen++;
  if (tolen == 0) return;
  for (uint32_t i = 0; i < RCAP; i++) { in[i] = live ? buf[i] : 0; if (!in[i]) live = 0; else len++; }
  ENV_ENGINE_ASSERT(!live, "replace contract: text longer than RCAP (bound too small)");
  uint32_t i = 0, j = 0, hits = 0, overflow = 0;
  for (uint32_t step = 0; step < RCAP; step++) if (i < len) {
    uint32_t match = i + tolen <= len;
    for (uint32_t k = 0; k < tolen && k < 2; k++) if (match && in[(i + k) & (RCAP - 1)] != to[k]) match = 0;
    if (match) { for (uint32_t k = 0; k < withlen && k < 8; k++) { if (j < RCAP - 1) out[j] = with[k]; else overflow = 1; j++; } i += tolen; hits++; }
    else { if (j < RCAP - 1) out[j] = in[i & (RCAP - 1)]; else overflow = 1; j++; i++; }
  }
  ENV_ENGINE_ASSERT(tolen <= 2 && withlen <= 8 && !overflow, "replace contract: pattern / result larger than the model (bound too small)");
  if (hits == 0) return;
  uint8_t* nb = env_raw_alloc((uint64_t)j + 1);
  for (uint32_t k = 0; k < RCAP; k++) if (k <= j) nb[k] = k < j ? out[k] : 0;
  env_raw_free(buf);
  *(uint8_t**)self = nb; *(uint64_t*)(self + 8) = (uint64_t)j + 1;
}
#endif

/* ---------------------------------------------------------------- the file seams */
static uint32_t F_opened, F_closed, F_name_ok, F_flag_ok, F_wrong_handle;
static uint32_t prelude;   /* 1: the run starts with another group whose file is not judged; 2: inside that file; 3: done */
NATIVE_ONLY(static uint64_t stream_hash = 0xcbf29ce484222325ULL;)
#define HANDLE ((uint8_t*)(uintptr_t)0x501)
uint8_t* env_fopen(uint8_t* name, uint8_t* flag) {
  if (prelude == 1) { prelude = 2; return HANDLE; }
  F_opened++;
  uint32_t same = 1, live = 1;
  for (uint32_t i = 0; i < FNCAP; i++) if (live) { if (name[i] != x_filename[i]) same = 0; if (!name[i] || !x_filename[i]) live = 0; }
  F_name_ok = same;
  F_flag_ok = flag[0] == 'w' && flag[1] == 0;
  NATIVE_ONLY(for (uint32_t i = 0; name[i]; i++) stream_hash = (stream_hash ^ name[i]) * 0x100000001b3ULL;)
  R_state = S_CONTENT; R_started = 0;
  return HANDLE;
}
void env_fputs(uint8_t* s, uint8_t* f) {
  if (prelude == 2) return;
  if (f != HANDLE || F_opened != F_closed + 1) F_wrong_handle = 1;
  for (uint64_t i = 0; s[i]; i++) {
    reader_step(s[i]);
    NATIVE_ONLY(stream_hash = (stream_hash ^ s[i]) * 0x100000001b3ULL;)
  }
}
void env_fclose(uint8_t* f) { if (prelude == 2) { prelude = 3; return; } if (f != HANDLE) F_wrong_handle = 1; F_closed++; }
void env_flush(void) {}

/* ---------------------------------------------------------------- inputs */
/* text fields: SLEN bytes each over an alphabet with every character that has a meaning in XML or in file names, NUL (so
 * the length varies 0..SLEN) and ordinary characters */
static const uint8_t ALPHA[16] = {0, 'a', '&', '<', '>', '"', '\'', '\n', ' ', '/', '_', '.', ';', '#', 'b', 0};
#define FIELD(dst, raw, off) do { for (int i_ = 0; i_ < SLEN; i_++) (dst)[i_] = ALPHA[(raw)[(off) + i_] & 15]; (dst)[SLEN] = 0; } while (0)
#define NFIELDS (3 + 4 * MAXT)

static void set_up_run(const int n, const uint8_t* raw, const uint8_t* lines, const uint8_t* kinds) {
  struct txt t;
  NT = (uint32_t)n;
  FIELD(t_package.s, raw, 0); FIELD(t_group.s, raw, SLEN); FIELD(t_printed.s, raw, 2 * SLEN);
  uint32_t failures = 0;
  for (int i = 0; i < n; i++) {
    const uint8_t* r = raw + (3 + 4 * i) * SLEN;
    FIELD(t_name[i].s, r, 0); FIELD(t_file[i].s, r, SLEN); FIELD(t_ffile[i].s, r, 2 * SLEN); FIELD(t_fmsg[i].s, r, 3 * SLEN);
    t_line[i] = lines[2 * i] & 63; t_fline[i] = lines[2 * i + 1] & 63;
    t_ignored[i] = kinds[i] == 2; t_fails[i] = kinds[i] == 1;                 /* 0 pass, 1 fail, 2 ignored */
    failures += t_fails[i];
    txt_clear(&t); txt_cat(&t, t_name[i].s, SLEN); x_set(X_NAME + (uint32_t)i, &t);
    txt_clear(&t); txt_cat(&t, t_file[i].s, SLEN); x_set(X_FILE + (uint32_t)i, &t);
    txt_clear(&t); txt_cat_dec(&t, t_line[i]); x_set(X_LINE + (uint32_t)i, &t);
    /* message of a failure: "<file>:<line>: <text>" */
    txt_clear(&t); txt_cat(&t, t_ffile[i].s, SLEN); txt_add(&t, ':'); txt_cat_dec(&t, t_fline[i]); txt_add(&t, ':'); txt_add(&t, ' '); txt_cat(&t, t_fmsg[i].s, SLEN);
    x_set(X_MESSAGE + (uint32_t)i, &t);
  }
  txt_clear(&t); txt_cat(&t, t_group.s, SLEN); x_set(X_GROUP, &t);
  /* printed text: the first test prints it (an ignored test has no body) */
  txt_clear(&t); if (!t_ignored[0]) txt_cat(&t, t_printed.s, SLEN); x_set(X_PRINTED, &t);
  /* class name: "<package>.<group>", just "<group>" without a package */
  txt_clear(&t);
  if (t_package.s[0]) { txt_cat(&t, t_package.s, SLEN); txt_add(&t, '.'); }
  txt_cat(&t, t_group.s, SLEN); x_set(X_CLASSNAME, &t);
  txt_clear(&t); txt_cat_dec(&t, failures); x_set(X_FAILURES, &t);
  txt_clear(&t); txt_cat_dec(&t, (uint32_t)n); x_set(X_TESTS, &t);
  txt_clear(&t); txt_add(&t, '0'); x_set(X_ZERO, &t);
  txt_clear(&t); txt_cat(&t, (const uint8_t*)"0.000", 5); x_set(X_TIME, &t);
  txt_clear(&t); t.n = TXT_CAP + 2; x_set(X_NOTHING, &t);                      /* equals no decoded text */
  /* file name: cpputest_[<package>_]<group>.xml with the characters that are illegal in file names ( / \ ? % * : | " < > ) replaced by _ */
  uint32_t j = 0;
  const char* pre = "cpputest_"; for (uint32_t i = 0; pre[i]; i++) x_filename[j++] = (uint8_t)pre[i];
  if (t_package.s[0]) { for (uint32_t i = 0; i < SLEN && t_package.s[i]; i++) x_filename[j++] = t_package.s[i]; x_filename[j++] = '_'; }
  for (uint32_t i = 0; i < SLEN && t_group.s[i]; i++) x_filename[j++] = t_group.s[i];
  for (uint32_t i = 9; i < FNCAP; i++) if (i < j) { uint8_t c = x_filename[i]; if (c == '/' || c == '\\' || c == '?' || c == '%' || c == '*' || c == ':' || c == '|' || c == '"' || c == '<' || c == '>') x_filename[i] = '_'; }
  const char* suf = ".xml"; for (uint32_t i = 0; suf[i]; i++) x_filename[j++] = (uint8_t)suf[i];
  x_filename[j] = 0;
}
static int second_failure_on_first_test;
static void drive_and_check(const int n) {
  names_init();
  h_set_package(t_package.s);
  for (int i = 0; i < n; i++) {
    h_set_test((uint32_t)i, t_ignored[i], t_group.s, t_name[i].s, t_file[i].s, t_line[i]);
    if (t_fails[i]) h_set_failure((uint32_t)i, t_ffile[i].s, t_fline[i], t_fmsg[i].s);
  }
  if (!t_ignored[0]) h_set_printed(0, t_printed.s);
  if (second_failure_on_first_test && t_fails[0]) h_set_second_failure(0);   /* the report still counts one failed TEST and shows its first failure */
  h_run((uint32_t)n);
  NATIVE_ONLY(OBSERVE(stream_hash);)
  OBSERVE(F_opened);
  ENV_ENGINE_ASSERT(!C_too_long || R_illformed, "a decoded value is longer than TXT_CAP (bound too small)");
  CHECK(F_opened == 1 && F_closed == 1 && !F_wrong_handle, "one file per test group, opened, written and closed");
  CHECK(F_name_ok && F_flag_ok, "the file is cpputest_[<package>_]<group>.xml with the characters illegal in file names replaced, opened for writing");
  CHECK(!R_illformed && R_state == S_CONTENT && C_depth == 0 && C_root_seen, "the file content is a well-formed XML document");
  CHECK(!C_bad_structure, "suite element with properties, one test case per test in run order, skipped iff ignored, failure iff failed, system-out, system-err");
  CHECK(!C_bad_value, "counts, names, files, lines, the decoded failure message and the decoded printed text equal the originals");
  WITNESS("end");
}
/* KINDS: base-3 digits give pass(0)/fail(1)/ignored(2) per test, first test = last digit.
 * SYM: which text fields are symbolic in this obligation; the others are the ordinary text "ab" (failing file = source file). */
enum { SY_PACKAGE = 1, SY_GROUP = 2, SY_PRINTED = 4, SY_NAME = 8, SY_FILE = 16, SY_FFILE = 32, SY_FMSG = 64, SY_LINES = 128, SY_ALL = 255 };
static void body_report(const int n, const int KINDS, const int SYM) {
  h_init();
  IN_ARR_U8(raw, NFIELDS * SLEN); IN_ARR_U8(lines, MAXT * 2);
  uint8_t kinds[MAXT]; int k = KINDS;
  for (int i = 0; i < MAXT; i++) { kinds[i] = (uint8_t)(k % 3); k /= 3; }
  for (int f = 0; f < NFIELDS; f++) {
    int bit = f < 3 ? (1 << f) : (8 << ((f - 3) % 4));
    if (!(SYM & bit)) for (int j = 0; j < SLEN; j++) raw[f * SLEN + j] = j == 0 ? 1 : 14;      /* "ab" (or "a") */
  }
  if (!(SYM & SY_LINES)) for (int i = 0; i < MAXT; i++) { lines[2 * i] = 7; lines[2 * i + 1] = 12; }      /* test at line 7, failing check at line 12 */
  set_up_run(n, raw, lines, kinds);
#ifdef KF_C16_1   /* known finding: group, test name, source file, package and failing file go into attribute values unescaped */
  { static const char META[] = "&<\"\n";
    ASSUME(!t_has_any(t_package.s, META) && !t_has_any(t_group.s, META));
    for (int i = 0; i < n; i++) { ASSUME(!t_has_any(t_name[i].s, META) && !t_has_any(t_file[i].s, META)); if (t_fails[i]) ASSUME(!t_has_any(t_ffile[i].s, META)); } }
#endif
  drive_and_check(n);
}
/* texts: failure message and printed text symbolic (the XML encoding of character data and attribute values) */
HARNESS(harness_msg_1_1) { body_report(1, 1, SY_FMSG); }
/* the checked group is preceded, in the same run, by another group with a failing test */
HARNESS(harness_after_failing_group_1_0) { h_prelude_failing_group(); prelude = 1; body_report(1, 0, SY_FMSG); }
HARNESS(harness_two_failures_2_01) { second_failure_on_first_test = 1; body_report(2, 1 + 3 * 0, SY_FMSG); }
HARNESS(harness_group_only_1_0) { body_report(1, 0, SY_GROUP); }
HARNESS(harness_package_only_1_0) { body_report(1, 0, SY_PACKAGE); }
HARNESS(harness_name_only_1_2) { body_report(1, 2, SY_NAME); }
HARNESS(harness_file_only_1_1) { body_report(1, 1, SY_FILE | SY_FFILE); }
HARNESS(harness_printed_1_0) { body_report(1, 0, SY_PRINTED); }
HARNESS(harness_texts_1_0) { body_report(1, 0, SY_PRINTED | SY_FMSG); }
HARNESS(harness_texts_1_1) { body_report(1, 1, SY_PRINTED | SY_FMSG); }
HARNESS(harness_texts_1_2) { body_report(1, 2, SY_PRINTED | SY_FMSG); }
/* names: package and group symbolic (file name, suite name, class name); test name, source file and failing file symbolic */
HARNESS(harness_group_1_0) { body_report(1, 0, SY_PACKAGE | SY_GROUP); }
HARNESS(harness_names_1_1) { body_report(1, 1, SY_NAME | SY_FILE | SY_FFILE); }
/* two tests */
#define R2(a, b) HARNESS(harness_texts_2_##a##b) { body_report(2, a + 3 * b, SY_PRINTED | SY_FMSG); }
R2(0, 0) R2(0, 1) R2(0, 2) R2(1, 0) R2(1, 1) R2(1, 2) R2(2, 0) R2(2, 1) R2(2, 2)
HARNESS(harness_names_2_12) { body_report(2, 1 + 3 * 2, SY_NAME | SY_FILE | SY_FFILE); }
/* everything symbolic */
HARNESS(harness_all_1_0) { body_report(1, 0, SY_ALL); }
HARNESS(harness_all_1_1) { body_report(1, 1, SY_ALL); }
HARNESS(harness_all_1_2) { body_report(1, 2, SY_ALL); }

/* demonstration of the finding (not part of spec.py: FAILS on the unchanged tree): package "a", group "a<", one passing test named "a&" in file a" */
#if SLEN == 2
HARNESS(finding_attributes_unescaped) {
  h_init();
  static const uint8_t raw[NFIELDS * SLEN] = {1, 0,  1, 3,  1, 0,  1, 2,  1, 5,  1, 1,  1, 1,  1, 1,  1, 1,  1, 1,  1, 1};
  static const uint8_t lines[MAXT * 2] = {7, 9, 7, 9};
  static const uint8_t kinds[MAXT] = {0, 0};
  set_up_run(1, raw, lines, kinds);
  drive_and_check(1);
}
#endif
