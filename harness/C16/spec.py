US = ['_ZN12SimpleString6StrLenEPKc.0:112', '_ZN12SimpleString7StrNCpyEPcPKcm.0:112',      # the longest line of a report within the bounds has 106 characters
      'env_fputs.0:112', 'env_vsnprintf.4:112', 'env_fopen.0:26', 'body_report.0:24', 'body_report.1:24', 'names_init.0:31', 'names_init.1:31', 'name_of_token.0:31',
      '_ZN12SimpleString7replaceEPKcS1_.0:4', '_ZN12SimpleString7replaceEPKcS1_.1:14', '_ZN12SimpleString6StrStrEPKcS1_.0:14', '_ZN12SimpleString7StrNCmpEPKcS1_m.0:3']
FS = ['--max-field-sensitivity-array-size', '112']   # heap objects (112 bytes) cell by cell: literal text stays literal through SimpleString copies
US128 = [u.replace(':112', ':128') for u in US]
FS128 = ['--max-field-sensitivity-array-size', '128']
def ob(fn, unwind=20, timeout=900, bounds='', **kw):
    d = {'fn': fn, 'unwind': unwind, 'timeout': timeout, 'bounds': bounds, 'unwindset': US, 'diff_runs': 200, 'cbmc_flags': FS}
    d.update(kw)
    return d
A = 'over {a b & < > " \' LF blank / _ . ; #}'
REST = '; every other text field is "ab", test at line 7, failing check at line 12; clock model stands still (every time 0.000); the first test prints the text'
K = ['passes', 'fails one check', 'is ignored']
SPEC = {
    'property': 'C16',
    'functions_of_interest': ['JUnitTestOutput', 'TestRegistry11runAllTests', 'TestResult', 'SimpleString7replace', 'StringFromFormat'],
    'assumptions': ['the run is produced by the real TestRegistry::runAllTests and TestResult over scripted shells: a scripted shell stands for the execution of the test body, prints through TestResult::print and reports one failure through UtestShell::addFailure (what a failing check does); ignored tests are real IgnoredUtestShell objects',
                    'the file is taken at the PlatformSpecificFOpen/FPuts/FClose seams and judged by a one-pass reader of the XML subset (declaration, nested elements, double-quoted attributes, character data, the five named references and decimal character references; attribute-value normalisation as a conforming parser does it)',
                    'vsnprintf: the directive model of engine/rt/env.c with decimal digits produced by comparison (numbers 0..99; anything larger is an engine error); time stamp model "T"',
                    'group junit: SimpleString::replace(const char*, const char*) is replaced by its contract in the translated world (C13 proves the contract for the real function); group junit_real (thorough tier) runs the real one',
                    'requested-size red zones (ll2c --heapcheck) are off: SimpleString memory safety is property C13',
                    'finding KF-C16-1 (attribute values written unescaped) is fixed in /repo: no field is restricted any more'],
    'groups': [{
        'name': 'junit', 'wrapper': 'w16.cpp', 'harness': 'h16.c', 'config': {'heapcheck': False, 'stubs': ['_ZN12SimpleString7replaceEPKcS1_']},
        'defines': ['-DREPLACE_BY_CONTRACT', '-DENV_MALLOC_CAP=112'],
        'obligations': [
            ob('harness_msg_1_1', bounds='group of 1 failing test; failure message 0..2 bytes ' + A + REST),
            ob('harness_after_failing_group_1_0', timeout=1200, bounds='a run of two groups: first a group with one failing test (its file is not judged), then the judged group of 1 passing test; ' + REST),
            ob('harness_two_failures_2_01', timeout=1200, bounds='group of 2 tests: the first reports TWO failures (the second one after its failed check), the second passes; failure message 0..2 bytes ' + A + REST),
            ob('harness_printed_1_0', bounds='group of 1 passing test; printed text 0..2 bytes ' + A + REST),
            ob('harness_name_only_1_2', bounds='group of 1 ignored test; test name 0..2 bytes ' + A + REST),
            # group name: since the attribute values are escaped (fix 4c869fe) a 2-byte group can take 12 characters, three times per file: 128-byte heap objects
            ob('harness_group_only_1_0', tier='thorough', timeout=5400, defines=['-UENV_MALLOC_CAP', '-DENV_MALLOC_CAP=128'], unwindset=US128, cbmc_flags=FS128, bounds='group of 1 passing test; group name 0..2 bytes ' + A + ' (file name, suite name, class name)' + REST),
            ob('harness_package_only_1_0', tier='thorough', timeout=3600, bounds='group of 1 passing test; package name 0..2 bytes ' + A + ' (file name, class name)' + REST),
            ob('harness_file_only_1_1', tier='thorough', timeout=3600, bounds='group of 1 failing test; source file and failing file 0..2 bytes each ' + A + REST),
            ob('harness_texts_2_12', tier='thorough', timeout=7200, bounds='group of 2 tests, the first fails, the second is ignored; failure message and printed text 0..2 bytes each ' + A + REST),
        ],
    }, {
        'name': 'junit_real', 'wrapper': 'w16.cpp', 'harness': 'h16.c', 'config': {'heapcheck': False},
        'defines': ['-DENV_MALLOC_CAP=112'],
        'obligations': [
            ob('harness_printed_1_0', tier='thorough', timeout=3600, bounds='real SimpleString::replace; group of 1 passing test; printed text 0..2 bytes ' + A + REST),
            ob('harness_msg_1_1', tier='thorough', timeout=3600, bounds='real SimpleString::replace; group of 1 failing test; failure message 0..2 bytes ' + A + REST),
        ],
    }],
}
