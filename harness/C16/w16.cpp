// C16 wrapper: a real JUnitTestOutput behind a real TestResult, driven by the real
// TestRegistry::runAllTests over scripted test shells.  A scripted shell replaces only the
// execution of the test body: it reports what a body would report (run counted, optional text
// printed through TestResult::print as UT_PRINT does, optionally one failure through
// UtestShell::addFailure, exactly what a failing CHECK does before leaving the test).
#define private public
#define protected public
#include "CppUTest/TestHarness.h"
#include "CppUTest/TestRegistry.h"
#include "CppUTest/TestOutput.h"
#include "CppUTest/JUnitTestOutput.h"
#include "CppUTest/TestResult.h"
#include "CppUTest/TestFailure.h"
#include "CppUTest/PlatformSpecificFunctions.h"

extern "C" {
void h_env_install(void);
}

class ScriptedShell : public UtestShell
{
public:
    int fails_;
    const char* failFile_;
    size_t failLine_;
    const char* failMessage_;
    const char* printed_;
    ScriptedShell() : UtestShell("", "", "", 0), fails_(0), failFile_(""), failLine_(0), failMessage_(""), printed_(NULLPTR) {}
    virtual void runOneTest(TestPlugin*, TestResult& result) CPPUTEST_OVERRIDE
    {
        hasFailed_ = false;
        result.countRun();
        UtestShell::setTestResult(&result);
        UtestShell::setCurrentTest(this);
        if (printed_) result.print(printed_);
        if (fails_) {
            TestFailure f(this, failFile_, failLine_, SimpleString(failMessage_));
            addFailure(f);
            if (fails_ == 2) {      // a second failure of the SAME test (e.g. a leak or mock failure raised by a plugin after a failed check)
                TestFailure g(this, failFile_, failLine_ + 1, SimpleString("second"));
                addFailure(g);
            }
        }
    }
};

#define MAXT 2
static JUnitTestOutput* out_;
static TestResult* res_;
static TestRegistry* reg_;
static ScriptedShell* run_;
static IgnoredUtestShell* ign_;
static UtestShell* chosen_[MAXT];

extern "C" {
void h_init(void)
{
    h_env_install();                       // before the output object: its constructor allocates
    static JUnitTestOutput out;
    static TestResult result(out);
    static TestRegistry reg;
    static ScriptedShell run[MAXT];
    static IgnoredUtestShell ign[MAXT];
    out_ = &out; res_ = &result; reg_ = &reg; run_ = run; ign_ = ign;
}
void h_set_package(const char* package) { out_->setPackageName(SimpleString(package)); }
// test #i of the run: TEST(group, name) or IGNORE_TEST(group, name) at file:line
void h_set_test(int i, int ignored, const char* group, const char* name, const char* file, unsigned long line)
{
    UtestShell* t = ignored ? (UtestShell*)&ign_[i] : (UtestShell*)&run_[i];
    t->setGroupName(group); t->setTestName(name); t->setFileName(file); t->setLineNumber(line);
    chosen_[i] = t;
}
// the body of test #i prints this text
void h_set_printed(int i, const char* text) { run_[i].printed_ = text; }
// the body of test #i fails one check at file:line with the given message
void h_set_failure(int i, const char* file, unsigned long line, const char* message)
{
    run_[i].fails_ = 1; run_[i].failFile_ = file; run_[i].failLine_ = line; run_[i].failMessage_ = message;
}
void h_set_second_failure(int i) { run_[i].fails_ = 2; }
// an earlier test group of the same run (its own file): one failing test; what it leaves behind must not leak into the next group's file
static ScriptedShell* prelude_;
void h_prelude_failing_group(void)
{
    static ScriptedShell p;
    p.setGroupName("zz"); p.setTestName("p"); p.setFileName("f"); p.setLineNumber(1);
    p.fails_ = 1; p.failFile_ = "f"; p.failLine_ = 2; p.failMessage_ = "m";
    prelude_ = &p;
}
void h_run(int n)
{
    for (int i = n - 1; i >= 0; i--) reg_->addTest(chosen_[i]);      // addTest prepends
    if (prelude_) reg_->addTest(prelude_);                            // runs first, in its own group
    reg_->runAllTests(*res_);
}
}
