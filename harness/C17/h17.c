/* C17: pointers set for a test are restored after it; plugin actions nest properly.
 *
 * Reference semantics, written from the property text:
 *  H1  a test redirects pointer variables with UT_PTR_SET; each redirection takes effect at once; after the
 *      SetPointerPlugin post action every variable holds the value it had before the test's FIRST redirection
 *      of it (repeats, interleavings, any number of earlier redirections up to the limit); the documented
 *      limit is SetPointerPlugin::MAX_SET = 32 redirections per test: the 33rd fails the test (and does not
 *      return to it), redirects nothing, and the 32 recorded ones are still restored; after the post action
 *      the next test has the full limit again.
 *  H2  the plugin chain is a list, most recently installed first.  Pre actions run in list order, post
 *      actions in the exact reverse, disabled plugins see neither; remove-by-name deletes exactly the plugin
 *      with that name (nothing if there is none) and keeps the order of the others; reset empties the list. */
#define ENV_CUSTOM_VSNPRINTF
#include "env.c"
#include "translated.h"
uint32_t env_vsnprintf(uint8_t* s, uint64_t n, uint8_t* f, uint8_t* va) { (void)f; (void)va; if (n > 1) { s[0] = '#'; s[1] = 0; } else if (n) s[0] = 0; return 1; }

#define T_MAX_SET 32u                  /* the documented limit */
#define NULLP (-3)                     /* wrapper's code for a null plugin pointer */
#define TERMINATOR (-1)                /* wrapper's code for the terminating null plugin */

/* ================================================================ H1: pointer-set facility */
static uint64_t orig[3];               /* value of each variable before the test */
static uint32_t exited, phase, attempts, last_target;
static uint64_t before_last;           /* value of the target of the last attempted redirection, before it */

static void check_all_restored(void) {
  CHECK(h_var(0) == orig[0], "after the post action the first pointer has its value from before the test's first redirection");
  CHECK(h_var(1) == orig[1], "after the post action the second pointer has its value from before the test's first redirection");
  CHECK(h_var(2) == orig[2], "after the post action the filler pointer has its value from before the test's first redirection");
}
void h_exit_hook(void) {
  exited++;
  CHECK(phase == 1, "only a test that exceeds the limit is left; after a post action the table is empty again");
  phase = 2;
  CHECK(attempts == T_MAX_SET + 1, "exactly the redirection that exceeds the documented limit of 32 fails the test");
  CHECK(h_failures() == 1, "exceeding the limit is recorded as one failure");
  CHECK(h_var(last_target) == before_last, "the failing redirection redirects nothing");
  h_set_post();
  check_all_restored();                /* the 32 recorded redirections are intact: nothing was written past the table */
  h_ptr_set(0, 1);                     /* next test: the table is empty again (re-entering this hook fails the phase check) */
  h_set_post();
  check_all_restored();
  WITNESS("exit path");
  END_PATH();
}
static void init_vars(uint64_t a, uint64_t b, uint64_t c) {
  orig[0] = a; orig[1] = b; orig[2] = c;
  h_var_init(0, a); h_var_init(1, b); h_var_init(2, c);
  CHECK((uint32_t)h_max_set() == T_MAX_SET, "SetPointerPlugin::MAX_SET is the documented 32");
}
static void redirect(uint32_t t, uint64_t v) {
  attempts++; last_target = t; before_last = h_var(t);
  uint64_t o0 = h_var(0), o1 = h_var(1), o2 = h_var(2);
  h_ptr_set(t, v);
  CHECK(attempts <= T_MAX_SET, "a redirection beyond the limit does not return to the test");
  CHECK(h_var(t) == v, "a redirection takes effect at once");
  CHECK((t == 0 || h_var(0) == o0) && (t == 1 || h_var(1) == o1) && (t == 2 || h_var(2) == o2), "a redirection leaves the other pointers alone");
}

/* the table already holds PRE entries of this test (its index is PRE); then 3 redirections, each of either pointer
 * or of the filler (so 0..3 redirections of the two pointers, in any order, repeats included) */
#define PTR_RESTORE(PRE) \
  h_init(); \
  IN_U64(a0); IN_U64(b0); IN_U64(c0); IN_ARR_U32(tgt, 3); IN_ARR_U64(nv, 3); IN_BOOL(via_chain); \
  init_vars(a0, b0, c0); \
  phase = 1; \
  for (uint32_t i = 0; i < (PRE); i++) redirect(2, c0 + 1 + i); \
  for (uint32_t i = 0; i < 3; i++) redirect(tgt[i] % 3, nv[i]); \
  CHECK(!exited && h_failures() == 0, "within the limit no redirection fails the test"); \
  if (via_chain) h_set_post_via_registry(); else h_set_post(); \
  check_all_restored(); \
  OBSERVE(h_var(0) == a0); OBSERVE(h_var(1) == b0); \
  if (tgt[0] % 3 == tgt[2] % 3 && tgt[0] % 3 != tgt[1] % 3 && tgt[0] % 3 != 2) WITNESS("same pointer redirected again after another one"); \
  WITNESS("end");
HARNESS(harness_ptr_restore_0) { PTR_RESTORE(0) }
HARNESS(harness_ptr_restore_7) { PTR_RESTORE(7) }
HARNESS(harness_ptr_restore_29) { PTR_RESTORE(29) }
HARNESS(harness_ptr_restore_1) { PTR_RESTORE(1) }
HARNESS(harness_ptr_restore_16) { PTR_RESTORE(16) }
HARNESS(harness_ptr_restore_28) { PTR_RESTORE(28) }
/* N redirections in one test: the limit */
#define PTR_LIMIT(N) \
  h_init(); \
  IN_U64(a1); IN_U64(b1); IN_U64(c1); IN_U64(sel); IN_U64(base); \
  init_vars(a1, b1, c1); \
  phase = 1; \
  for (uint32_t i = 0; i < (N); i++) redirect((uint32_t)((sel >> i) & 1), base + i); \
  CHECK(!exited && h_failures() == 0 && (N) <= T_MAX_SET, "up to the limit no redirection fails the test"); \
  h_set_post(); \
  check_all_restored(); \
  OBSERVE(h_var(0) == a1); \
  WITNESS("end");
HARNESS(harness_ptr_limit_31) { PTR_LIMIT(31) }
HARNESS(harness_ptr_limit_32) { PTR_LIMIT(32) }
HARNESS(harness_ptr_limit_33) { PTR_LIMIT(33) }
HARNESS(harness_ptr_limit_35) { PTR_LIMIT(35) }
HARNESS(harness_ptr_limit_0) { PTR_LIMIT(0) }
HARNESS(harness_ptr_limit_1) { PTR_LIMIT(1) }
HARNESS(harness_ptr_limit_34) { PTR_LIMIT(34) }
/* consecutive tests: after a first test with N1 redirections the second test again has the whole limit */
#define PTR_TWO_TESTS(N1) \
  h_init(); \
  IN_U64(a2); IN_U64(b2); IN_U64(sel2); IN_U64(base2); \
  init_vars(a2, b2, 7); \
  phase = 1; \
  for (uint32_t i = 0; i < (N1); i++) redirect((uint32_t)((sel2 >> i) & 1), base2 + i); \
  h_set_post(); \
  check_all_restored(); \
  attempts = 0; \
  for (uint32_t i = 0; i < T_MAX_SET; i++) redirect((uint32_t)((sel2 >> (i + 32)) & 1), base2 + 100 + i); \
  CHECK(!exited && h_failures() == 0, "the second test can redirect up to the limit again"); \
  h_set_post(); \
  check_all_restored(); \
  OBSERVE(h_var(1) == b2); \
  WITNESS("end");
HARNESS(harness_ptr_two_tests_3) { PTR_TWO_TESTS(3) }
HARNESS(harness_ptr_two_tests_32) { PTR_TWO_TESTS(32) }

/* ================================================================ H2: plugin chain */
#define NP 4
static const uint8_t NAMES[NP + 2][2] = {"a", "b", "c", "d", "z", ""};   /* the wrapper's plugin names; two names nobody has */
#define LOGCAP 24
static int32_t log_id[LOGCAP]; static uint32_t log_post[LOGCAP]; static uint32_t nlog, log_args = 3;
void h_rec(uint32_t id, uint32_t post, uint32_t args_ok) {
  if (nlog < LOGCAP) { log_id[nlog] = (int32_t)id; log_post[nlog] = post; }
  nlog++; log_args &= args_ok;
}
/* reference list: ids, first element = head of the chain */
static int32_t model[NP + 1]; static uint32_t model_n;
static uint32_t enabled[NP];
static void model_install(int32_t id) { for (uint32_t k = model_n; k > 0; k--) model[k] = model[k - 1]; model[0] = id; model_n++; }
static int model_find(int32_t id) { for (uint32_t k = 0; k < model_n; k++) if (model[k] == id) return (int)k; return -1; }
static void model_remove_at(uint32_t pos) { for (uint32_t k = pos; k + 1 < model_n; k++) model[k] = model[k + 1]; model_n--; }
static int32_t name_to_id(const uint8_t* nm) { for (int32_t i = 0; i < NP; i++) if (nm[0] == NAMES[i][0] && nm[1] == 0) return i; return -1; }

static int light;                      /* structural checks only (chain members, order, count): used where the removed name is symbolic */
static void check_registry_chain(void) {
  CHECK((uint32_t)h_count() == model_n, "countPlugins == number of installed plugins");
  for (uint32_t k = 0; k < NP; k++) if (k < model_n) CHECK((int32_t)h_chain_id(k) == model[k], "the chain holds exactly the installed plugins, most recently installed first");
  CHECK((int32_t)h_chain_id(model_n) == TERMINATOR, "the chain ends at the null plugin right after the last installed plugin");
  if (light) return;
  for (int32_t i = 0; i < NP; i++) CHECK((int32_t)h_get_by_name((uint8_t*)NAMES[i]) == (model_find(i) >= 0 ? i : NULLP), "getPluginByName finds exactly the plugins that are in the chain");
}
static void check_tp_chain(void) {
  for (uint32_t k = 0; k < NP; k++) if (k < model_n) CHECK((int32_t)h_tp_chain_id(k) == model[k], "the chain holds exactly the added plugins, most recently added first");
  CHECK((int32_t)h_tp_chain_id(model_n) == TERMINATOR, "the chain ends at the null plugin");
  if (light) return;
  for (int32_t i = 0; i < NP; i++) CHECK((int32_t)h_tp_get((uint8_t*)NAMES[i]) == (model_find(i) >= 0 ? i : NULLP), "getPluginByName finds exactly the plugins that are in the chain");
}
/* the order log of one test: pre actions head first, post actions in the exact reverse, enabled plugins only */
static void check_log(void) {
  uint32_t k = 0;
  for (uint32_t j = 0; j < NP; j++) if (j < model_n && enabled[model[j]]) { CHECK(k < nlog && log_id[k] == model[j] && log_post[k] == 0, "pre actions run in installation-reversed order, enabled plugins only"); k++; }
  for (uint32_t j = NP; j > 0; j--) if (j - 1 < model_n && enabled[model[j - 1]]) { CHECK(k < nlog && log_id[k] == model[j - 1] && log_post[k] == 1, "post actions run in the exact reverse order of the pre actions, enabled plugins only"); k++; }
  CHECK(nlog == k, "nobody else (disabled or removed plugins) sees an action, and nobody sees one twice");
  CHECK(log_args == 3, "actions receive the running test and its result");
}
/* symbolic enable pattern: disable by mask d, then re-enable by mask e */
static void apply_enable_pattern(uint32_t d, uint32_t e) {
  for (uint32_t i = 0; i < NP; i++) {
    enabled[i] = 1;
    if ((d >> i) & 1) { h_set_enabled(i, 0); enabled[i] = 0; }
    if ((e >> i) & 1) { h_set_enabled(i, 1); enabled[i] = 1; }
    CHECK((uint32_t)h_is_enabled(i) == enabled[i], "isEnabled reports the last of enable()/disable()");
  }
}

#define CHAIN_ORDER(N) \
  h_init(); \
  IN_U32(dis); IN_U32(ena); IN_BOOL(reset); \
  for (uint32_t i = 0; i < (N); i++) { h_install(i); model_install((int32_t)i); } \
  apply_enable_pattern(dis, ena); \
  check_registry_chain(); \
  h_run_pre(); h_run_post(); \
  check_log(); \
  OBSERVE(nlog); \
  if (nlog == 2 * (N)) WITNESS("all enabled"); \
  if ((N) > 1 && nlog == 2) WITNESS("one enabled among several"); \
  if (reset) { \
    h_reset_plugins(); model_n = 0; nlog = 0; \
    check_registry_chain(); \
    h_run_pre(); h_run_post(); \
    check_log(); \
    WITNESS("reset"); \
  } \
  WITNESS("end");
HARNESS(harness_chain_order_0) { CHAIN_ORDER(0) }
HARNESS(harness_chain_order_1) { CHAIN_ORDER(1) }
HARNESS(harness_chain_order_2) { CHAIN_ORDER(2) }
HARNESS(harness_chain_order_3) { CHAIN_ORDER(3) }
HARNESS(harness_chain_order_4) { CHAIN_ORDER(4) }
/* remove-by-name.  MODE 1: the constant name NAMES[K] (K = 4, 5: "z" and the empty name, which nobody has);
 * MODE 0 and 3: the name is any 1-byte string (any installed, any absent, the empty name) - MODE 0 with the
 * structural checks only, MODE 3 (thorough tier) with by-name lookups and the order log of a test as well;
 * MODE 2: any 1-byte string that no plugin in the chain has */
#ifdef KF_C17_1
#define KF_EXCLUDE(pos) ASSUME((pos) < 2)      /* known finding: a plugin at chain depth >= 3 is not removed */
#else
#define KF_EXCLUDE(pos) ((void)0)
#endif
#define REGISTRY_REMOVE(N, MODE, K) \
  h_init(); \
  IN_U32(rdis); IN_ARR_U8(rname, 2); \
  rname[1] = 0; if ((MODE) == 1) rname[0] = NAMES[(K) % (NP + 2)][0]; \
  for (uint32_t i = 0; i < (N); i++) { h_install(i); model_install((int32_t)i); } \
  apply_enable_pattern(rdis, 0); \
  int32_t id = name_to_id(rname); \
  int pos = id >= 0 ? model_find(id) : -1;                               /* 0 = head of the chain */ \
  if ((MODE) == 2) ASSUME(pos < 0); \
  KF_EXCLUDE(pos); \
  h_remove_by_name(rname); \
  if (pos >= 0) model_remove_at((uint32_t)pos); \
  light = (MODE) == 0; \
  check_registry_chain(); \
  if (!light) { h_run_pre(); h_run_post(); check_log(); } \
  OBSERVE(pos); OBSERVE(nlog); \
  if (pos == 0) WITNESS("removed the head"); \
  if (pos == 1) WITNESS("removed the second"); \
  if (pos < 0) WITNESS("name not in the chain"); \
  WITNESS("end");
/* TestPlugin::removePluginByName called on the head of a chain built with addPlugin: removes the named plugin
 * from the rest of the chain (the head itself cannot go: nobody could be told the new head) and returns it */
#define PLUGIN_REMOVE(N, MODE, K) \
  h_init(); \
  IN_U32(tdis); IN_ARR_U8(tname, 2); \
  tname[1] = 0; if ((MODE) == 1) tname[0] = NAMES[(K) % (NP + 2)][0]; \
  for (uint32_t i = 0; i < (N); i++) { h_tp_add(i); model_install((int32_t)i); } \
  apply_enable_pattern(tdis, 0); \
  check_tp_chain(); \
  light = (MODE) == 0; \
  int32_t id = name_to_id(tname); \
  int pos = id >= 0 ? model_find(id) : -1; \
  if ((MODE) == 2) ASSUME(pos < 0); \
  ASSUME(pos != 0);                                                      /* not the plugin the call is made on */ \
  KF_EXCLUDE(pos); \
  int32_t removed = (int32_t)h_tp_remove(tname); \
  CHECK(removed == (pos > 0 ? id : NULLP), "removePluginByName returns the removed plugin, or null if no plugin has that name"); \
  if (pos > 0) model_remove_at((uint32_t)pos); \
  check_tp_chain(); \
  if (!light) { h_tp_run_pre(); h_tp_run_post(); check_log(); } \
  OBSERVE(pos); OBSERVE(removed); \
  if (pos == 1) WITNESS("removed the second"); \
  if (pos < 0) WITNESS("name not in the chain"); \
  WITNESS("end");
#define RR(N, MODE, K) HARNESS(harness_registry_remove_##N##_##MODE##_##K) { REGISTRY_REMOVE(N, MODE, K) }
#define PR(N, MODE, K) HARNESS(harness_plugin_remove_##N##_##MODE##_##K) { PLUGIN_REMOVE(N, MODE, K) }
/* the name of an installed plugin at chain position 0 or 1 (K = N-1, N-2) */
RR(1, 1, 0) RR(2, 1, 1) RR(2, 1, 0) RR(3, 1, 2) RR(3, 1, 1) RR(4, 1, 3) RR(4, 1, 2)
PR(2, 1, 0) PR(3, 1, 1) PR(4, 1, 2)
/* a name nobody in the chain has: a plugin that is not installed, "z", the empty name */
RR(0, 1, 0) RR(2, 1, 3) RR(4, 1, 4) RR(4, 1, 5) RR(3, 1, 4)
PR(0, 1, 0) PR(1, 1, 3) PR(4, 1, 4) PR(4, 1, 5)
/* any name at all, structural checks */
RR(1, 0, 0) RR(2, 0, 0) RR(3, 0, 0) RR(4, 0, 0)
PR(1, 0, 0) PR(2, 0, 0) PR(3, 0, 0) PR(4, 0, 0)
/* any name at all / any absent name, all checks (thorough tier) */
RR(2, 3, 0) RR(3, 3, 0) RR(4, 3, 0) RR(4, 2, 0)
PR(2, 3, 0) PR(3, 3, 0) PR(4, 3, 0) PR(4, 2, 0)

/* install / remove sequences over 3 plugins, 4 steps; step code 0..2 = install that plugin (it is not in the chain),
 * 3..5 = removePluginByName of plugin code-3 (in the chain or not); the order log of a test is checked after every step */
#define SEQUENCE(S0, S1, S2, S3) \
  h_init(); \
  IN_U32(sdis); \
  const uint32_t steps[4] = {S0, S1, S2, S3}; \
  apply_enable_pattern(sdis & 7, 0); \
  for (uint32_t s = 0; s < 4; s++) { \
    int32_t id = (int32_t)(steps[s] % 3); \
    int pos = model_find(id); \
    if (steps[s] < 3) { \
      ASSUME(pos < 0);                                                   /* installing a plugin twice is a usage error (cyclic chain) */ \
      h_install((uint32_t)id); model_install(id); \
    } else { \
      KF_EXCLUDE(pos); \
      h_remove_by_name((uint8_t*)NAMES[id]); \
      if (pos >= 0) model_remove_at((uint32_t)pos); \
    } \
    check_registry_chain(); \
    nlog = 0; \
    h_run_pre(); h_run_post(); \
    check_log(); \
  } \
  OBSERVE(model_n); OBSERVE(nlog); \
  WITNESS("end");
#define SQ(S0, S1, S2, S3) HARNESS(harness_sequence_##S0##S1##S2##S3) { SEQUENCE(S0, S1, S2, S3) }
SQ(0, 1, 3, 0)   /* a b -a +a : reinstall a plugin that was removed from the middle */
SQ(0, 1, 4, 1)   /* a b -b +b : reinstall the removed head */
SQ(0, 3, 0, 1)   /* a -a +a b */
SQ(0, 1, 2, 5)   /* a b c -c */
SQ(0, 1, 2, 4)   /* a b c -b */
SQ(3, 0, 4, 3)   /* -a(empty chain) a -b(absent) -a */
SQ(0, 1, 4, 3)   /* a b -b -a : down to the empty chain */
SQ(2, 1, 5, 0)   /* c b -c a */

/* ---- demonstrations of the known finding (NOT listed in spec.py: they are expected to FAIL) */
HARNESS(harness_finding_registry_remove_depth3) {
  h_init();
  for (uint32_t i = 0; i < 3; i++) { h_install(i); model_install((int32_t)i); enabled[i] = 1; }
  h_remove_by_name((uint8_t*)NAMES[0]);                                  /* "a": installed first, so at depth 3 of c -> b -> a */
  model_remove_at(2);
  check_registry_chain();                                                /* fails: countPlugins() is still 3 */
  WITNESS("end");
}
HARNESS(harness_finding_plugin_remove_depth3) {
  h_init();
  for (uint32_t i = 0; i < 3; i++) { h_tp_add(i); model_install((int32_t)i); enabled[i] = 1; }
  int32_t removed = (int32_t)h_tp_remove((uint8_t*)NAMES[0]);
  CHECK(removed == 0, "removePluginByName returns the removed plugin");  /* fails: returns null */
  model_remove_at(2);
  check_tp_chain();
  WITNESS("end");
}
