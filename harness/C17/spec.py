import os
ALLW = ['exit path', 'end', 'same pointer redirected again after another one', 'all enabled', 'one enabled among several', 'reset',
        'removed the head', 'removed the second', 'name not in the chain']
def ob(fn, need, unwind=50, timeout=600, bounds='', **kw):
    d = {'fn': fn, 'unwind': unwind, 'timeout': timeout, 'bounds': bounds, 'diff_runs': 100, 'optional_witness': [w for w in ALLW if w not in need]}
    d.update(kw)
    return d
KF = ''
EN = 'disable pattern of the plugins symbolic'
NAMES = ['"a"', '"b"', '"c"', '"d"', '"z" (nobody has it)', 'the empty name (nobody has it)']
def restore(pre, **kw):
    return ob('harness_ptr_restore_%d' % pre, ['end', 'same pointer redirected again after another one'],
              bounds='%d earlier redirections in the table (table index %d), then 3 redirections with symbolic targets among the 2 pointers and a filler (so 0..3 redirections of the 2 pointers, repeats and interleavings included), new values and original values fully symbolic (64-bit); post action called directly or through the plugin chain (symbolic)' % (pre, pre), **kw)
def limit(n, **kw):
    return ob('harness_ptr_limit_%d' % n, ['end'] if n <= 32 else ['exit path'],
              bounds='%d redirections in one test, target of each symbolic among 2 pointers, values symbolic; documented limit 32' % n, **kw)
def remove(kind, n, mode, k, **kw):
    pos = (n - 1 - k) if (mode == 1 and k < n) else -1
    if mode == 1:
        need = ['end', 'removed the head' if pos == 0 else 'removed the second' if pos == 1 else 'name not in the chain']
        b = 'chain of %d plugins, removed name %s, %s' % (n, NAMES[k], EN)
    else:
        need = ['end', 'name not in the chain'] + (['removed the second'] if n >= 2 and mode != 2 else []) + (['removed the head'] if kind == 'registry' and n >= 1 and mode != 2 else [])
        b = 'chain of %d plugins, removed name = any 1-byte string%s, %s; checked: %s%s' % (n, ' that no plugin of the chain has' if mode == 2 else '', EN,
              'members, order and count of the chain' if mode == 0 else 'members, order, count, by-name lookups and the order log of a test', '' if mode == 2 else KF)
    if kind == 'plugin':
        b += '; TestPlugin::removePluginByName called on the head of a chain built with addPlugin, name of the head itself excluded'
    else:
        b += '; TestRegistry::removePluginByName after installPlugin'
    return ob('harness_%s_remove_%d_%d_%d' % (kind, n, mode, k), need, bounds=b, unwind=12, **kw)
SEQS = [('0130', 'a b -a +a'), ('0141', 'a b -b +b'), ('0301', 'a -a +a b'), ('0125', 'a b c -c'), ('0124', 'a b c -b'), ('3043', '-a a -b -a'), ('0143', 'a b -b -a'), ('2150', 'c b -c a')]
TH = {'tier': 'thorough'}
SPEC = {
    'property': 'C17',
    'functions_of_interest': ['CppUTestStore', 'SetPointerPlugin', 'TestPlugin', 'NullTestPlugin', 'TestRegistry13installPlugin', 'TestRegistry18removePluginByName',
                             'TestRegistry12resetPlugins', 'TestRegistry12countPlugins', 'TestRegistry15getPluginByName', 'TestRegistry14getFirstPlugin'],
    'assumptions': [
        'the pointer table is a file static: it is driven only through UT_PTR_SET / CppUTestStore, the SetPointerPlugin constructor (table empty) and postTestAction; an arbitrary table index is reached by earlier redirections of the same test; counts of redirections are compile-time constants per obligation (a symbolic count makes the restore loop write through symbolic table entries and does not finish)',
        'the outcome of the test (pass / fail / throw) does not reach SetPointerPlugin::postTestAction (its arguments are unused); that post actions run on every path is property C01',
        'a redirection beyond the limit leaves the test through PlatformSpecificLongJmp, replaced by a harness hook that checks the postcondition, runs the post action, starts the next test and ends the path; failure-message constructors have empty bodies (C14)',
        'plugin names are the distinct one-letter names a..d; installing one plugin object twice is a usage error and excluded',
        'TestPlugin::removePluginByName is specified for plugins behind the one it is called on (the callee cannot unlink itself)',
    ],
    'groups': [{
        'name': 'c17', 'wrapper': 'w17.cpp', 'harness': 'h17.c',
        # C17_NO_KF=1 in the environment drops the exclusion (to check a fix of the finding: every obligation must then still be discharged)
        'defines': [],   # finding KF-C17-1 is fixed in /repo: nothing is excluded any more
        'config': {'empty_regex': ['^_ZN[0-9]+[A-Za-z]*FailureC[12]E']},
        'obligations':
            [restore(0), restore(7), restore(29), restore(1, **TH), restore(16, **TH), restore(28, **TH)] +
            [limit(31), limit(32), limit(33), limit(35), limit(0, **TH), limit(1, **TH), limit(34, **TH)] +
            [ob('harness_ptr_two_tests_%d' % n, ['end'], bounds='first test %d redirections, post action, second test exactly 32 redirections, post action; targets and values symbolic' % n) for n in (3, 32)] +
            [ob('harness_chain_order_%d' % n, ['end', 'reset', 'all enabled'] + (['one enabled among several'] if n > 1 else []), unwind=12,
                bounds='%d installed plugins; disable mask then enable mask symbolic (4+4 bits); resetPlugins afterwards symbolic' % n) for n in range(5)] +
            [remove('registry', n, 1, k) for n, k in ((1, 0), (2, 1), (2, 0), (3, 2), (3, 1), (4, 3), (4, 2), (0, 0), (2, 3), (4, 4), (4, 5), (3, 4))] +
            [remove('plugin', n, 1, k) for n, k in ((2, 0), (3, 1), (4, 2), (0, 0), (1, 3), (4, 4), (4, 5))] +
            [remove('registry', n, 0, 0) for n in (1, 2, 3, 4)] + [remove('plugin', n, 0, 0) for n in (1, 2, 3, 4)] +
            [remove('registry', n, 3, 0, timeout=1800, **TH) for n in (2, 3, 4)] + [remove('registry', 4, 2, 0, timeout=1800, **TH)] +
            [remove('plugin', n, 3, 0, timeout=1800, **TH) for n in (2, 3, 4)] + [remove('plugin', 4, 2, 0, timeout=1800, **TH)] +
            [ob('harness_sequence_' + c, ['end'], unwind=12, bounds='install/remove sequence "%s" over the registry (+x installPlugin, -x removePluginByName), %s; chain, by-name lookups and the order log of a test checked after every step' % (t, EN)) for c, t in SEQS],
    }],
}
