def ob(fn, unwind=50, timeout=600, bounds='', **kw):
    d = {'fn': fn, 'unwind': unwind, 'timeout': timeout, 'bounds': bounds, 'diff_runs': 300}
    d.update(kw)
    return d
KF = ('; EXCLUDED (known finding KF_C17_1): removing a plugin at chain depth >= 3 (third from the head or deeper)')
SPEC = {
    'property': 'C17',
    'functions_of_interest': ['CppUTestStore', 'SetPointerPlugin', 'TestPlugin', 'NullTestPlugin', 'TestRegistry13installPlugin', 'TestRegistry18removePluginByName',
                             'TestRegistry12resetPlugins', 'TestRegistry12countPlugins', 'TestRegistry15getPluginByName', 'TestRegistry14getFirstPlugin'],
    'assumptions': [
        'the pointer table is a file static: it is driven only through UT_PTR_SET / CppUTestStore, the SetPointerPlugin constructor (table empty) and postTestAction; "arbitrary table index" is reached by 0..29 earlier redirections of the same test',
        'the outcome of the test (pass / fail / throw) does not reach SetPointerPlugin::postTestAction (its arguments are unused); that post actions run on every path is property C01',
        'a redirection beyond the limit leaves the test through PlatformSpecificLongJmp, replaced by a harness hook that checks the postcondition, runs the post action and ends the path; failure-message constructors have empty bodies (C14)',
        'plugin names are the distinct one-letter names a..d; the name looked up / removed is a symbolic 1-byte string (so absent names and the empty name are inside); installing one plugin object twice is a usage error and excluded',
        'TestPlugin::removePluginByName is specified for plugins behind the one it is called on (the callee cannot unlink itself)',
    ],
    'groups': [{
        'name': 'c17', 'wrapper': 'w17.cpp', 'harness': 'h17.c',
        'defines': ['-DKF_C17_1'],
        'config': {'empty_regex': ['^_ZN[0-9]+[A-Za-z]*FailureC[12]E']},
        'obligations': [
            ob('harness_ptr_restore', bounds='0..29 earlier redirections in the table, then m <= 3 redirections over 2 pointers + filler with fully symbolic targets/values (64-bit), original values symbolic; post action called directly or through the plugin chain', optional_witness=['exit path']),
            ob('harness_ptr_limit', bounds='n = 0..35 redirections in one test over 2 pointers (target pattern symbolic), limit 32', optional_witness=[]),
            ob('harness_ptr_two_tests', bounds='first test 0..32 redirections, post action, second test exactly 32 redirections', optional_witness=['exit path']),
            ob('harness_chain_order', bounds='n <= 4 installed plugins, disable/enable pattern symbolic (4+4 bits), optional resetPlugins', optional_witness=[]),
            ob('harness_registry_remove', bounds='n <= 4 installed plugins, disable pattern symbolic, removed name = any 1-byte string' + KF, optional_witness=[]),
            ob('harness_plugin_remove', bounds='chain of n <= 4 plugins built with addPlugin, disable pattern symbolic, removed name = any 1-byte string except the head\'s' + KF, optional_witness=[]),
            ob('harness_install_remove_sequence', bounds='3 steps, each install (of a plugin not in the chain) or removePluginByName, over 3 plugins; disable pattern symbolic; order log checked after every step' + KF, optional_witness=['three installs', 'ends empty']),
        ],
    }],
}
