// C17 wrapper.  The pointer-set facility is driven only through its public surface (UT_PTR_SET /
// CppUTestStore, SetPointerPlugin's constructor and postTestAction): the table itself is a file static.
// The plugin chain is driven through TestPlugin and TestRegistry with recording plugins.
#define private public
#define protected public
#include "CppUTest/TestHarness.h"
#include "CppUTest/TestOutput.h"
#include "CppUTest/TestResult.h"
#include "CppUTest/TestPlugin.h"
#include "CppUTest/TestRegistry.h"
#include "CppUTest/PlatformSpecificFunctions.h"

extern "C" {
void h_env_install(void);
void h_exit_hook(void);          // harness: the running test was left (FAIL in CppUTestStore)
void h_rec(int id, int post, int args_ok);   // harness: order log of the recording plugins
}

class CountingOutput : public TestOutput
{
public:
    virtual void printBuffer(const char*) CPPUTEST_OVERRIDE {}
    virtual void flush() CPPUTEST_OVERRIDE {}
    virtual void printFailure(const TestFailure&) CPPUTEST_OVERRIDE {}
};

static TestResult* result_;
static UtestShell* shell_;

class RecPlugin : public TestPlugin
{
public:
    int id_;
    RecPlugin(const char* name, int id) : TestPlugin(name), id_(id) {}
    virtual void preTestAction(UtestShell& t, TestResult& r) CPPUTEST_OVERRIDE { h_rec(id_, 0, (&t == shell_ ? 1 : 0) | (&r == result_ ? 2 : 0)); }
    virtual void postTestAction(UtestShell& t, TestResult& r) CPPUTEST_OVERRIDE { h_rec(id_, 1, (&t == shell_ ? 1 : 0) | (&r == result_ ? 2 : 0)); }
};

#define NPLUG 4
static RecPlugin* plug_[NPLUG];
static TestRegistry* registry_;
static SetPointerPlugin* setplugin_;
static TestPlugin* head_;             // head of a chain built with TestPlugin::addPlugin only

// the pointer variables a test redirects: two data/function pointers under scrutiny and one filler
#define NVAR 3
static void* var_[NVAR];

static int idOf(TestPlugin* p)
{
    if (p == 0) return -3;
    if (p == NullTestPlugin::instance()) return -1;
    for (int i = 0; i < NPLUG; i++) if (p == plug_[i]) return i;
    return -2;
}

extern "C" {
void h_init(void)
{
    static CountingOutput out;
    static TestResult result(out);
    static UtestShell shell("group", "name", "file.cpp", 7);
    static RecPlugin pa("a", 0), pb("b", 1), pc("c", 2), pd("d", 3);
    static TestRegistry registry;
    static SetPointerPlugin setplugin("s");      // its constructor starts the table at "empty"
    h_env_install();
    PlatformSpecificLongJmp = h_exit_hook;
    result_ = &result; shell_ = &shell; registry_ = &registry; setplugin_ = &setplugin;
    plug_[0] = &pa; plug_[1] = &pb; plug_[2] = &pc; plug_[3] = &pd;
    head_ = NullTestPlugin::instance();
    shell.setTestResult(&result);
    shell.setCurrentTest(&shell);
}
unsigned long h_failures(void) { return result_->getFailureCount(); }

// ---- pointer-set facility
void h_var_init(int which, unsigned long long v) { var_[which] = (void*)v; }
unsigned long long h_var(int which) { return (unsigned long long)var_[which]; }
void h_ptr_set(int which, unsigned long long v) { UT_PTR_SET(var_[which], (void*)v); }   // exactly what a test writes
void h_store_only(int which) { CppUTestStore(&var_[which]); }
void h_set_post(void) { setplugin_->postTestAction(*shell_, *result_); }
// the same through the chain, the way the framework calls it after every test (SetPointerPlugin installed among others)
void h_set_post_via_registry(void)
{
    registry_->installPlugin(setplugin_);
    registry_->getFirstPlugin()->runAllPostTestAction(*shell_, *result_);
}
int h_max_set(void) { return SetPointerPlugin::MAX_SET; }

// ---- plugin chain through the registry
void h_install(int i) { registry_->installPlugin(plug_[i]); }
void h_set_enabled(int i, int on) { if (on) plug_[i]->enable(); else plug_[i]->disable(); }
int h_is_enabled(int i) { return plug_[i]->isEnabled() ? 1 : 0; }
void h_run_pre(void) { registry_->getFirstPlugin()->runAllPreTestAction(*shell_, *result_); }
void h_run_post(void) { registry_->getFirstPlugin()->runAllPostTestAction(*shell_, *result_); }
int h_count(void) { return registry_->countPlugins(); }
// id of the k-th plugin of the registry's chain (0 = first); -1 = the terminating null plugin, -3 = past it
int h_chain_id(int k)
{
    TestPlugin* p = registry_->getFirstPlugin();
    for (int i = 0; i < k && p; i++) p = p->getNext();
    return idOf(p);
}
int h_get_by_name(const char* name) { return idOf(registry_->getPluginByName(name)); }
void h_remove_by_name(const char* name) { registry_->removePluginByName(name); }
void h_reset_plugins(void) { registry_->resetPlugins(); }

// ---- plugin chain through TestPlugin alone
void h_tp_add(int i) { head_ = plug_[i]->addPlugin(head_); }
int h_tp_remove(const char* name) { return idOf(head_->removePluginByName(name)); }
int h_tp_get(const char* name) { return idOf(head_->getPluginByName(name)); }
int h_tp_chain_id(int k)
{
    TestPlugin* p = head_;
    for (int i = 0; i < k && p; i++) p = p->getNext();
    return idOf(p);
}
void h_tp_run_pre(void) { head_->runAllPreTestAction(*shell_, *result_); }
void h_tp_run_post(void) { head_->runAllPostTestAction(*shell_, *result_); }
}
