/* C18: the string buffer cache never aliases live buffers and gives everything back.
 *
 * The cache under test is the real SimpleStringInternalCache; its underlying allocator is a
 * recording allocator that serves blocks from static pools and keeps a LEDGER (h18_ledger.h).
 * The oracle is a SHADOW MAP of the buffers the client holds, written from the property text:
 *   - memory handed out never overlaps a buffer still in use and has at least the requested size;
 *   - a released buffer is reused only for requests of its own size class (32/64/96/128/256, larger: not cached);
 *   - after clearCache every released buffer, after clearAll... every block obtained from the
 *     underlying allocator, has been returned to it exactly once and with its size;
 *   - releasing a buffer the cache does not know gives a one-time warning and corrupts nothing.
 * Histories: one obligation per script of operation kinds (body_script), all data symbolic. */
#include "h18_ledger.h"

/* ------------------------------------------------------------ shadow map of the client's buffers */
enum { S_NONE, S_LIVE, S_RELEASED, S_GONE };
static uint8_t* sh_ptr[MAXOPS];
static uint64_t sh_req[MAXOPS];
static uint32_t sh_serial[MAXOPS];
static uint8_t sh_state[MAXOPS];
static uint32_t warnings, exp_warn;
static int n_ops = MAXOPS;        /* entries of the shadow map in use by this obligation */
static uint8_t foreign[8] = "f";                 /* a string buffer the cache has never seen */
void h_rec_warning(uint8_t* text) { (void)text; warnings++; }

/* size classes as the property names them */
static int t_class(uint64_t size) { return size <= 32 ? 0 : size <= 64 ? 1 : size <= 96 ? 2 : size <= 128 ? 3 : size <= 256 ? 4 : 5; }

static void after_op(void) {
  CHECK(led_err == 0, "every block goes back to the underlying allocator at most once, with its size, and only blocks obtained from it");
  CHECK(warnings == exp_warn, "an unknown release warns exactly once; nothing else warns");
}

static void do_alloc(int k, uint64_t size) {
  uint32_t before = led_allocs;
  uint8_t* p = h_alloc(size);
  CHECK(p != 0, "a request returns a buffer");
  int i = slot_of(p);
  CHECK(i >= 0 && led_live[i], "the buffer handed out is a whole block the cache currently holds from the underlying allocator");
  if (i < 0) return;
  OBSERVE(i);
  CHECK(led_size[i] >= size, "the buffer handed out has at least the requested size");
  for (int j = 0; j < n_ops; j++)
    if (sh_state[j] == S_LIVE) CHECK(sh_ptr[j] != p, "memory handed out does not overlap a buffer still in use");
  if (led_serial[i] > before) {
    /* freshly obtained: anything the client once had at this address went back to the underlying allocator before */
    for (int j = 0; j < n_ops; j++) if (sh_state[j] == S_RELEASED && sh_ptr[j] == p) sh_state[j] = S_GONE;
  } else {
    int found = 0;
    for (int j = 0; j < n_ops; j++)
      if (sh_state[j] == S_RELEASED && sh_ptr[j] == p && sh_serial[j] == led_serial[i]) {
        found = 1;
        CHECK(t_class(sh_req[j]) == t_class(size), "a released buffer is reused only for requests of its own size class");
        sh_state[j] = S_GONE;
      }
    CHECK(found, "a buffer handed out without a fresh underlying block is one that was released to the cache");
  }
  sh_ptr[k] = p; sh_req[k] = size; sh_serial[k] = led_serial[i]; sh_state[k] = S_LIVE;
}

static void do_dealloc(int k, uint32_t which, uint32_t exact, uint64_t anysize) {
  uint8_t* p; uint64_t size;
  if (which < (uint32_t)k && sh_state[which] != S_NONE) { p = sh_ptr[which]; size = exact ? sh_req[which] : anysize; }   /* any pointer handed out so far, live or stale */
  else { p = foreign; size = anysize; }
  int e = -1;
  for (int j = 0; j < n_ops; j++) if (sh_state[j] == S_LIVE && sh_ptr[j] == p) e = j;
  /* the cache knows the buffer iff it is in use and the size names its class (a wrong size inside the class is fine) */
  int known = e >= 0 && t_class(size) == t_class(sh_req[e]);
  OBSERVE(known);
  if (known) {
    if (t_class(size) == 5) { int i = slot_of(p); if (i >= 0 && led_live[i]) led_expect[i] = size; }   /* an uncached buffer goes back with the size its owner names */
  } else exp_warn = 1;
  h_dealloc(p, size);
  if (known) sh_state[e] = S_RELEASED;
  CHECK(foreign[0] == 'f' && foreign[1] == 0, "an unknown buffer is left alone");
}

static void do_clear_cache(void) {
  h_clearCache();
  int live = 0;
  for (int j = 0; j < n_ops; j++) {
    if (sh_state[j] == S_RELEASED) {
      int i = slot_of(sh_ptr[j]);
      CHECK(i >= 0 && !(led_live[i] && led_serial[i] == sh_serial[j]), "after clearCache every released buffer has been returned to the underlying allocator");
      sh_state[j] = S_GONE;
    }
    if (sh_state[j] == S_LIVE) live = 1;
  }
  if (!live) CHECK(led_live_count() == 0 && led_allocs == led_frees, "after clearCache with no buffer in use nothing obtained from the underlying allocator is kept");
}

static void do_clear_all(void) {
#ifdef KF_C18_1
  /* known finding: uncached buffers still in use are returned by clearAll... with size 0 (exactly once, but not with their size) */
  for (int j = 0; j < n_ops; j++) if (sh_state[j] == S_LIVE && t_class(sh_req[j]) == 5) { int i = slot_of(sh_ptr[j]); if (i >= 0) led_expect[i] = ANY; }
#endif
  h_clearAll();
  for (int j = 0; j < n_ops; j++) if (sh_state[j] != S_NONE) sh_state[j] = S_GONE;
  CHECK(led_live_count() == 0 && led_allocs == led_frees, "after clearAll every block obtained from the underlying allocator has been returned exactly once");
}

static uint64_t pick_size(uint64_t raw) {
  /* any size 0..1024; the second branch only steers the random differential runs to the class boundaries */
  static const uint64_t edge[8] = {1, 32, 64, 96, 128, 256, 300, 1023};
  uint64_t s;
  if (raw & 0x10000) { s = raw & 0x7ff; if (s > 1024) s -= 1024; }
  else { s = edge[(raw >> 11) & 7] + (raw & 3) - 1; if (s > 1024) s = 1024; }
  return s;
}

/* a history = a SCRIPT of operation kinds (concrete per obligation) with symbolic data:
 *   A alloc(size)   D dealloc(ptr,size)   o alloc or dealloc (symbolic)   C clearCache   X clearAll
 * followed by a final clearAll and the check that everything went back. */
static void body_script(const char* sc, const int N) {
  h_init(); n_ops = N; pool_n = N;
  IN_ARR_U32(kind, MAXOPS); IN_ARR_U64(size, MAXOPS); IN_ARR_U32(which, MAXOPS); IN_ARR_U64(dsize, MAXOPS);
  for (int k = 0; k < N; k++) {
    char op = sc[k];
    if (op == 'o') op = (kind[k] & 1) ? 'D' : 'A';
    if (op == 'A') do_alloc(k, pick_size(size[k]));
    else if (op == 'D') do_dealloc(k, which[k] & 7, (which[k] >> 3) & 1, dsize[k]);
    else if (op == 'C') do_clear_cache();
    else do_clear_all();
    after_op();
  }
  OBSERVE(warnings); OBSERVE(led_allocs); OBSERVE(led_frees); OBSERVE(h_hasFree(32)); OBSERVE(h_hasFree(256));
  do_clear_all();
  after_op();
  WITNESS("end");
}
#define SCRIPT(s) HARNESS(harness_##s) { body_script(#s, (int)sizeof(#s) - 1); }
/* all 8 orders of 4 requests/releases that start with a request; 3 that start with the release of a foreign buffer */
SCRIPT(AAAA) SCRIPT(AAAD) SCRIPT(AADA) SCRIPT(AADD) SCRIPT(ADAA) SCRIPT(ADAD) SCRIPT(ADDA) SCRIPT(ADDD)
SCRIPT(DAAD) SCRIPT(DADA) SCRIPT(DDAD)
/* clear operations in between */
SCRIPT(ADCA) SCRIPT(AADC) SCRIPT(ACDA) SCRIPT(AXAD) SCRIPT(ADXA) SCRIPT(AAXD) SCRIPT(ADCD)
/* five operations */
SCRIPT(AADAD) SCRIPT(AADDA) SCRIPT(ADADA) SCRIPT(AAADD) SCRIPT(ADCAD) SCRIPT(AAXAD)
/* symbolic kinds */
SCRIPT(ooo) SCRIPT(oooo) SCRIPT(ooCoo) SCRIPT(ooXoo)

/* the client fills the cache with N buffers of ONE class (sizes symbolic inside it), releases them in a symbolic
 * order (head, interior, tail of the used list) and asks again: covers the deepest lists */
static void body_same_class(const int N) {
  h_init(); n_ops = 2 * N; pool_n = 2 * N;
  IN_U32(cls); IN_ARR_U64(size, MAXOPS); IN_ARR_U32(order, MAXOPS); IN_U64(again);
  static const uint64_t lo[6] = {0, 33, 65, 97, 129, 257}, hi[6] = {32, 64, 96, 128, 256, 1024};
  uint32_t c = cls % 6;
  uint64_t w = hi[c] - lo[c] + 1;                                  /* >= 32 for every class */
  for (int k = 0; k < N; k++) { uint64_t x = size[k] & 1023; if (x >= w) x = (size[k] >> 10) & 31; do_alloc(k, lo[c] + x); after_op(); }
  for (int k = 0; k < N; k++) { do_dealloc(N, order[k] % (uint32_t)N, 1, 0); after_op(); }      /* a repeated index is a double release: warned, harmless */
  uint64_t x2 = again & 1023; if (x2 >= w) x2 = (again >> 10) & 31;
  uint64_t s2 = lo[c] + x2;
  for (int k = N; k < MAXOPS && k < 2 * N; k++) { do_alloc(k, s2); after_op(); }
  OBSERVE(warnings); OBSERVE(led_allocs);
  do_clear_cache(); after_op();
  do_clear_all(); after_op();
  WITNESS("end");
}
HARNESS(harness_same_class_2) { body_same_class(2); }
HARNESS(harness_same_class_3) { body_same_class(3); }

/* ---- demonstration of the known finding (not part of spec.py: expected to FAIL) */
HARNESS(finding_clearall_uncached_size) {
  h_init(); n_ops = 1; pool_n = 1;
  do_alloc(0, 300);
  h_clearAll();
  CHECK(led_err == 0, "an uncached buffer in use is returned by clearAll with its size");
  WITNESS("end");
}
