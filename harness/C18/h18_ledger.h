/* C18, shared by h18.c and h18g.c: environment + the recording underlying allocator (two pools + ledger) */
#define MAXOPS 6
#define ENV_CUSTOM_VSNPRINTF
#define ENV_CUSTOM_MALLOC
#include "env.c"

/* malloc of the platform (the cache takes its table of classes from the default malloc allocator, the warning's
 * text its string buffers): static blocks, first fit - 16-byte blocks of bytes for requests up to 16 bytes (strings),
 * 120-byte blocks of words above (the table).  Static typed storage keeps their contents visible to the solver
 * front end's constant propagation. */
#define NMALB 6
#define NMALW 2
static uint8_t malb0[16], malb1[16], malb2[16], malb3[16], malb4[16], malb5[16];
static uint64_t malw0[15], malw1[15];
static uint8_t mal_live[NMALB + NMALW];
static uint8_t* mal_addr(int i) { switch (i) { case 0: return malb0; case 1: return malb1; case 2: return malb2; case 3: return malb3; case 4: return malb4; case 5: return malb5;
                                               case 6: return (uint8_t*)malw0; default: return (uint8_t*)malw1; } }
uint8_t* env_malloc(uint64_t n) {
  env_malloc_calls++; env_last_malloc_size = n;
  ENV_ENGINE_ASSERT(n <= sizeof malw0, "platform malloc larger than the model's block (bound too small)");
  int i, end;
  if (n <= sizeof malb0) { i = 0; end = NMALB; } else { i = NMALB; end = NMALB + NMALW; }
  while (i < end && mal_live[i]) i++;
  ENV_ENGINE_ASSERT(i < end, "platform malloc pool exhausted (bound too small)");
  if (i >= end) return 0;
  mal_live[i] = 1;
  return mal_addr(i);
}
void env_free(uint8_t* p) {
  env_free_calls++;
  if (!p) return;
  int i = 0;
  while (i < NMALB + NMALW && p != mal_addr(i)) i++;
  ENV_ENGINE_ASSERT(i < NMALB + NMALW && mal_live[i], "platform free of a block that is not allocated");
  if (i < NMALB + NMALW) mal_live[i] = 0;
}
uint8_t* env_realloc(uint8_t* p, uint64_t n) { (void)p; (void)n; ENV_ENGINE_ASSERT(0, "realloc is not used by the cache"); return 0; }
#include "translated.h"

/* the text of the warning is not the subject: it renders as "W" */
uint32_t env_vsnprintf(uint8_t* s, uint64_t n, uint8_t* f, uint8_t* va) { (void)f; (void)va; if (n > 1) { s[0] = 'W'; s[1] = 0; } else if (n) s[0] = 0; return 1; }

/* ------------------------------------------------------------ underlying allocator: two pools + ledger
 * Requests up to SMALL_CAP (16) bytes are served from a pool of small blocks (separate objects of that size), all others from an
 * arena of 1032-byte slots whose bytes are never touched by the harness (the cache must not touch them either:
 * only addresses matter).  Keeping the small blocks apart keeps the solver's memory model small. */
#define NSMALL (MAXOPS + 2)
#define NBIG (MAXOPS + 2)
#define NSLOT (NSMALL + NBIG)
#ifndef SMALL_CAP
#define SMALL_CAP 16      /* = sizeof(SimpleStringMemoryBlock): the bookkeeping blocks fit exactly */
#endif
#ifdef LL2C_CBMC
#define SLOT_CAP 8          /* solver world: data blocks are address-only stand-ins (nobody may touch their bytes) */
#else
#define SLOT_CAP 1032
#endif
#define SLOT_MAX 1032       /* largest request the arena serves */
#define ANY (~(uint64_t)0)
enum { E_NOTMINE = 1, E_DOUBLE = 2, E_SIZE = 4 };
static uint64_t sm0[SMALL_CAP / 8], sm1[SMALL_CAP / 8], sm2[SMALL_CAP / 8], sm3[SMALL_CAP / 8], sm4[SMALL_CAP / 8], sm5[SMALL_CAP / 8], sm6[SMALL_CAP / 8], sm7[SMALL_CAP / 8];
static uint8_t arena[NBIG][SLOT_CAP] __attribute__((aligned(8)));
static uint8_t* slot_addr(int i) {
  switch (i) { case 0: return (uint8_t*)sm0; case 1: return (uint8_t*)sm1; case 2: return (uint8_t*)sm2; case 3: return (uint8_t*)sm3;
               case 4: return (uint8_t*)sm4; case 5: return (uint8_t*)sm5; case 6: return (uint8_t*)sm6; case 7: return (uint8_t*)sm7;
               default: return &arena[i - NSMALL][0]; }
}
static uint8_t led_live[NSLOT];
static uint64_t led_size[NSLOT];     /* size the block was requested with */
static uint64_t led_expect[NSLOT];   /* size it has to come back with */
static uint32_t led_serial[NSLOT];   /* value of led_allocs when the block was handed out */
static uint32_t led_allocs, led_frees, led_err;

static int pool_n = NSMALL;      /* slots per pool in use by this obligation (keeps the loops short) */
/* slot whose START is p, or -1 */
static int slot_of(const uint8_t* p) {
  for (int i = 0; i < pool_n; i++) { if (p == slot_addr(i)) return i; if (p == slot_addr(NSMALL + i)) return NSMALL + i; }
  return -1;
}
static uint32_t led_live_count(void) { uint32_t n = 0; for (int i = 0; i < pool_n; i++) n += led_live[i] + led_live[NSMALL + i]; return n; }

uint8_t* h_rec_alloc(uint64_t size) {
  ENV_ENGINE_ASSERT(size <= SLOT_MAX, "underlying request larger than an arena slot (bound too small)");
  int base = size <= SMALL_CAP ? 0 : NSMALL, j = 0;
  while (j < pool_n && led_live[base + j]) j++;  /* first fit: a returned block is handed out again at once */
  ENV_ENGINE_ASSERT(j < pool_n, "pool exhausted (bound too small)");
  if (j >= pool_n) return 0;
  int i = base + j;
  led_live[i] = 1; led_size[i] = size; led_expect[i] = size;
  led_allocs++; led_serial[i] = led_allocs;
  return slot_addr(i);
}
void h_rec_free(uint8_t* p, uint64_t size) {
  led_frees++;
  int i = slot_of(p);
  if (i < 0) { led_err |= E_NOTMINE; return; }                  /* not a block of this allocator */
  if (!led_live[i]) { led_err |= E_DOUBLE; return; }            /* returned twice */
  if (led_expect[i] != ANY && led_expect[i] != size) led_err |= E_SIZE;   /* returned with another size */
  led_live[i] = 0;
}

