/* C18, global installation: a GlobalSimpleStringCache (cache + SimpleStringCacheAllocator adaptor installed as the
 * string allocator) is constructed, used through the installed allocator and destroyed; afterwards everything it
 * obtained from the previous string allocator (the recording allocator) has gone back exactly once with its size. */
#include "h18_ledger.h"

/* size classes as the property names them */
static int t_class(uint64_t size) { return size <= 32 ? 0 : size <= 64 ? 1 : size <= 96 ? 2 : size <= 128 ? 3 : size <= 256 ? 4 : 5; }
/* global installation: GlobalSimpleStringCache constructed ... destroyed around two requests.
 * Sizes are concrete per obligation (both sides of a class boundary), the released subset is symbolic. */
static void body_global_scope(const int K) {
  static const uint64_t sz[6][2] = {{0, 32}, {33, 64}, {96, 97}, {128, 129}, {256, 257}, {300, 1024}};
  h_init(); pool_n = 2;
  IN_U32(rel);
  uint64_t a = sz[K][0], b = sz[K][1];
#ifdef KF_C18_1
  ASSUME(!(t_class(a) == 5 && !(rel & 1)) && !(t_class(b) == 5 && !(rel & 2)));
#endif
  uint64_t m0 = env_malloc_calls - env_free_calls;
  uint32_t restored = h_scoped(a, b, rel & 3);
  OBSERVE(led_allocs); OBSERVE(led_frees);
  CHECK(restored == 1, "destroying the global cache reinstalls the previous string allocator");
  CHECK(led_err == 0, "every block goes back at most once, with its size");
  CHECK(led_live_count() == 0 && led_allocs == led_frees && led_allocs > 0, "after destruction every block obtained from the underlying allocator has been returned exactly once");
  CHECK(env_malloc_calls - env_free_calls == m0, "the cache's own table is returned too");
  WITNESS("end");
}
HARNESS(harness_global_scope_0) { body_global_scope(0); }
HARNESS(harness_global_scope_1) { body_global_scope(1); }
HARNESS(harness_global_scope_2) { body_global_scope(2); }
HARNESS(harness_global_scope_3) { body_global_scope(3); }
HARNESS(harness_global_scope_4) { body_global_scope(4); }
HARNESS(harness_global_scope_5) { body_global_scope(5); }
