LISTS = ['_ZN25SimpleStringInternalCache34destroySimpleStringMemoryBlockListEP23SimpleStringMemoryBlockm.0',
         '_ZN25SimpleStringInternalCache22releaseCachedBlockFromEPcP29SimpleStringInternalCacheNode.0',
         '_ZN25SimpleStringInternalCache22releaseNonCachedMemoryEPcm.0']
# the warning's text is rendered as "W" by the vsnprintf stub: string loops run at most twice
STRS = ['_ZN12SimpleString6StrLenEPKc.0:3', '_ZN12SimpleString7StrNCpyEPcPKcm.0:3']
def ob(fn, unwind=9, timeout=300, bounds='', lists=3, **kw):
    # unwind 9: the loops over the 5 classes and the 8 blocks of the platform pool; the cache's lists never hold more blocks than the history has requests
    d = {'fn': fn, 'unwind': unwind, 'timeout': timeout, 'bounds': bounds, 'unwindset': ['%s:%d' % (l, lists + 1) for l in LISTS] + STRS,
         'cbmc_flags': ['--max-field-sensitivity-array-size', '128']}   # the 100-byte format buffer of the warning stays concrete
    d.update(kw)
    return d
D = ('alloc sizes: every value 0..1024; dealloc pointer: any pointer handed out earlier in the history (in use, already released or stale) or a foreign buffer; '
     'dealloc size: the requested size or any 64-bit value (wrong size inside the class, wrong class, uncached)')
def H(script):
    return 'history %s (A alloc, D dealloc, o alloc-or-dealloc chosen symbolically, C clearCache, X clearAll) followed by clearAll; ' % script + D
def sc(script, **kw):
    return ob('harness_' + script, bounds=H(script), lists=sum(script.count(c) for c in 'Ao'), unwind=max(9, len(script) + 2), **kw)
S = ('%d buffers of one symbolic size class (6 classes incl. uncached, sizes symbolic inside the class), released in every order of indices with repetition '
     '(= double releases), then %d more requests of that class, clearCache, clearAll')
SPEC = {
    'property': 'C18',
    'functions_of_interest': ['SimpleStringInternalCache', 'SimpleStringCacheAllocator', 'GlobalSimpleStringCache'],
    'assumptions': [
        'underlying allocator = recording allocator of the harness: requests up to 16 bytes from a pool of 16-byte blocks, larger ones (up to 1032 bytes) from an arena of slots, both first-fit (a returned block is handed out again at once); the ledger flags foreign / repeated / wrong-size returns',
        'in the solver world the arena slots are 8-byte address-only stand-ins (nobody, the cache included, may touch the bytes of a string buffer there); the native differential runs use real 1032-byte slots',
        'PlatformSpecificMalloc (table of size classes, string buffers of the warning text) = static first-fit pools of the harness (6 x 16 bytes, 2 x 120 bytes)',
        'the warning is observed as one call of print() on the current test; its text (StringFromFormat through a vsnprintf stub rendering "W") is not checked',
        'an uncached buffer (> 256 bytes) released by its owner goes back to the underlying allocator with the size the owner names',
        'the oracle does not require WHEN released memory goes back to the underlying allocator, only that it has after clearCache / clearAll',
    ],
    'groups': [{
        'name': 'cache', 'wrapper': 'w18.cpp', 'harness': 'h18.c',
        # no CBMC heap object is used by this group (every allocation is served from static blocks of exactly the requested capacity
        # class): bounds are enforced by CBMC's own object bounds, the requested-size shadow table of --heapcheck would be idle
        'config': {'heapcheck': False},
        'obligations': [
        ] + [sc(x) for x in ['AAAD', 'AADA', 'AADD', 'ADAD', 'ADDA', 'DADA', 'ADCA', 'AADC', 'AXAD', 'ADXA']] + [
            sc(x, tier='thorough', timeout=900) for x in ['AAAA', 'ADAA', 'ADDD', 'DAAD', 'DDAD', 'ACDA', 'AAXD', 'ADCD', 'ooo']] + [
            sc(x, tier='thorough', timeout=2400) for x in ['AADAD', 'AADDA', 'ADADA', 'AAADD', 'ADCAD', 'AAXAD']] + [
            # symbolic operation kinds: every request/release order of that length at once (measured 915 s / 843 s / 500 s)
            sc(x, tier='thorough', timeout=4800) for x in ['oooo', 'ooCoo', 'ooXoo']] + [
            # 'ooooo' (all 32 orders of 5 requests/releases at once): 9.9M variables, no verdict in 1200 s - not claimed; the 5-operation scripts above are
            ob('harness_same_class_2', bounds=S % (2, 2), lists=4),
            # open known finding KF-C18-1: the defect must still reproduce (expected to FAIL)
            ob('finding_clearall_uncached_size', bounds='alloc(300); clearAllIncludingCurrentlyUsedMemory()', expect='fail'),
            ob('harness_same_class_3', bounds=S % (3, 3), lists=6, unwind=9, tier='thorough', timeout=1800),
        ],
    }, {
        'name': 'global', 'wrapper': 'w18g.cpp', 'harness': 'h18g.c', 'config': {},
        'obligations': [
        ] + [ob('harness_global_scope_%d' % k, lists=2, bounds='GlobalSimpleStringCache constructed; two requests through the installed allocator of sizes %s; '
                   'any subset released (symbolic); destroyed' % s) for k, s in enumerate(['(0, 32)', '(33, 64)', '(96, 97)', '(128, 129)', '(256, 257)', '(300, 1024)'])] + [
        ],
    }],
}
