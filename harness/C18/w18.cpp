// C18 wrapper: a SimpleStringInternalCache of its real type on top of a RECORDING allocator.
// Every request/release the cache makes to its underlying allocator goes to the harness' ledger
// (h_rec_alloc / h_rec_free); the one-time warning goes to the current test's print(), which is
// overridden to count (h_rec_warning).
#define private public
#define protected public
#include "CppUTest/TestHarness.h"
#include "CppUTest/SimpleStringInternalCache.h"
#include "CppUTest/TestMemoryAllocator.h"
#include "CppUTest/PlatformSpecificFunctions.h"

extern "C" {
void h_env_install(void);
char* h_rec_alloc(unsigned long size);
void h_rec_free(char* p, unsigned long size);
void h_rec_warning(const char* text);
}

class RecAllocator : public TestMemoryAllocator
{
public:
    RecAllocator() : TestMemoryAllocator("rec", "rec", "rec") {}
    virtual char* alloc_memory(size_t size, const char*, size_t) CPPUTEST_OVERRIDE { return h_rec_alloc(size); }
    virtual void free_memory(char* memory, size_t size, const char*, size_t) CPPUTEST_OVERRIDE { h_rec_free(memory, size); }
};

class WarnShell : public UtestShell
{
public:
    WarnShell() : UtestShell("group", "name", "file.cpp", 7) {}
    virtual void print(const char* text, const char*, size_t) CPPUTEST_OVERRIDE { h_rec_warning(text); }
    virtual void print(const SimpleString& text, const char*, size_t) CPPUTEST_OVERRIDE { h_rec_warning(text.asCharString()); }
};

static SimpleStringInternalCache* cache_;

extern "C" {
void h_init(void)
{
    h_env_install();
    static RecAllocator rec;
    static WarnShell shell;
    static SimpleStringInternalCache cache;      // its table of classes comes from the default malloc allocator (env_malloc)
    cache.setAllocator(&rec);                    // ... everything else from the recording allocator
    shell.setCurrentTest(&shell);
    cache_ = &cache;
}
char* h_alloc(unsigned long size) { return cache_->alloc(size); }
void h_dealloc(char* p, unsigned long size) { cache_->dealloc(p, size); }
void h_clearCache(void) { cache_->clearCache(); }
void h_clearAll(void) { cache_->clearAllIncludingCurrentlyUsedMemory(); }
int h_hasFree(unsigned long size) { return cache_->hasFreeBlocksOfSize(size) ? 1 : 0; }
}
