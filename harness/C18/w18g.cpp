// C18 wrapper (global installation): GlobalSimpleStringCache + SimpleStringCacheAllocator on top of the recording
// allocator.  Kept apart from w18.cpp so that the closed world of the history harnesses does not contain the
// adaptor (its alloc_memory re-enters the cache: a spurious recursive candidate at every virtual call site).
#include "CppUTest/TestHarness.h"
#include "CppUTest/SimpleStringInternalCache.h"
#include "CppUTest/TestMemoryAllocator.h"
#include "CppUTest/PlatformSpecificFunctions.h"

extern "C" {
void h_env_install(void);
char* h_rec_alloc(unsigned long size);
void h_rec_free(char* p, unsigned long size);
}

class RecAllocator : public TestMemoryAllocator
{
public:
    RecAllocator() : TestMemoryAllocator("rec", "rec", "rec") {}
    virtual char* alloc_memory(size_t size, const char*, size_t) CPPUTEST_OVERRIDE { return h_rec_alloc(size); }
    virtual void free_memory(char* memory, size_t size, const char*, size_t) CPPUTEST_OVERRIDE { h_rec_free(memory, size); }
};

extern "C" {
void h_init(void) { h_env_install(); }
// global installation: the cache object lives from construction to destruction inside one call
int h_scoped(unsigned long s1, unsigned long s2, int release)
{
    static RecAllocator rec2;
    SimpleString::setStringAllocator(&rec2);
    {
        GlobalSimpleStringCache global;
        TestMemoryAllocator* a = SimpleString::getStringAllocator();
        char* x = a->alloc_memory(s1, "f.cpp", 1);
        char* y = a->alloc_memory(s2, "f.cpp", 2);
        if (release & 1) a->free_memory(x, s1, "f.cpp", 3);
        if (release & 2) a->free_memory(y, s2, "f.cpp", 4);
    }
    return SimpleString::getStringAllocator() == &rec2;
}
}
