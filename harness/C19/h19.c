/* C19: every entry point of the C mocking interface (MockSupport_c.h) reaches exactly the same-named
 * C++ call with exactly the same value, and every value coming back keeps its value, its type tag
 * and its defaulting behaviour.
 *
 * The C++ objects behind the C function tables are recording doubles (w19.cpp).  The ORACLE is the
 * table below, written from MockSupport_c.h / MockExpectedCall.h / MockActualCall.h / MockSupport.h:
 *   C entry point (kind)  ->  C++ method identity + how the C argument maps to the C++ argument. */
#define ENV_CUSTOM_VSNPRINTF
#define ENV_MALLOC_CAP 128
#include "env.c"
#include "translated.h"
#include "ids19.h"
uint32_t env_vsnprintf(uint8_t* s, uint64_t n, uint8_t* f, uint8_t* va) { (void)f; (void)va; if (n > 1) { s[0] = '#'; s[1] = 0; } else if (n) s[0] = 0; return 1; }

#define S(x) ((uint8_t*)(x))
static uint64_t n8(const uint8_t* s) { uint64_t r = 0; for (int i = 0; i < 8 && s[i]; i++) r |= (uint64_t)s[i] << (8 * i); return r; }
static double u2d(uint64_t u) { union { double d; uint64_t u; } x; x.u = u; return x.d; }
static uint64_t sext32(uint64_t a) { return (uint64_t)(int64_t)(int32_t)(uint32_t)a; }
static uint64_t zext32(uint64_t a) { return (uint64_t)(uint32_t)a; }

static int exit_ok;       /* leaving the test is part of the obligation (C failure reporter only) */
static uint32_t exited;
static int cpp_phase;     /* findings: the C scenario has passed, its C++ twin is running */
void h_exit_hook(void) {
  exited = 1;
  CHECK(!cpp_phase, "KF_C19_1: the C++ twin of a scenario that passed through the C interface fails the test");
  CHECK(exit_ok, "a forwarder of the C interface never fails the test on its own");
  CHECK(h_failures() == 1, "leaving the test records exactly one failure");
  WITNESS("exit path");
  END_PATH();
}

/* how a C argument word maps to the value the C++ method must receive */
enum { V_NONE, V_BOOL, V_I32, V_U32, V_W64, V_DBL, V_DBL_TOL, V_PTR_SIZE };
struct row { int id; int conv; int has_name; int has_type; };
static uint64_t want_bits(int conv, uint64_t a, uint64_t dw) {
  switch (conv) {
    case V_NONE: return 0;
    case V_BOOL: return (int32_t)(uint32_t)a != 0;      /* C passes an int; C++ receives (value != 0) */
    case V_I32: return sext32(a);
    case V_U32: return zext32(a);
    case V_DBL: case V_DBL_TOL: return dw;              /* the double's bit pattern, NaN payloads included */
    default: return a;                                  /* 64-bit integers, pointers, function pointers: every bit */
  }
}
static uint64_t want_bits2(int conv, uint64_t b, uint64_t tw) { return conv == V_DBL_TOL ? tw : conv == V_PTR_SIZE ? b : 0; }

/* symbolic names: 0..2 bytes + NUL (content and length symbolic) */
#define IN_NAME(n) IN_ARR_U8(n, 3); n[2] = 0

/* ------------------------------------------------------------------ MockExpectedCall_c: 31 entry points */
static const struct row EXP[31] = {
  /* 0 withBoolParameters(name,int)                   */ {E_withBool, V_BOOL, 1, 0},
  /* 1 withIntParameters(name,int)                    */ {E_withInt, V_I32, 1, 0},
  /* 2 withUnsignedIntParameters(name,unsigned)       */ {E_withUnsignedInt, V_U32, 1, 0},
  /* 3 withLongIntParameters(name,long)               */ {E_withLongInt, V_W64, 1, 0},
  /* 4 withUnsignedLongIntParameters(name,ulong)      */ {E_withUnsignedLongInt, V_W64, 1, 0},
  /* 5 withLongLongIntParameters                      */ {E_withLongLongInt, V_W64, 1, 0},
  /* 6 withUnsignedLongLongIntParameters              */ {E_withUnsignedLongLongInt, V_W64, 1, 0},
  /* 7 withDoubleParameters(name,double)              */ {E_withDouble, V_DBL, 1, 0},
  /* 8 withDoubleParametersAndTolerance(name,d,tol)   */ {E_withDoubleTol, V_DBL_TOL, 1, 0},
  /* 9 withStringParameters(name,const char*)         */ {E_withString, V_W64, 1, 0},
  /* 10 withPointerParameters(name,void*)             */ {E_withPointer, V_W64, 1, 0},
  /* 11 withConstPointerParameters(name,const void*)  */ {E_withConstPointer, V_W64, 1, 0},
  /* 12 withFunctionPointerParameters(name,void(*)()) */ {E_withFunctionPointer, V_W64, 1, 0},
  /* 13 withMemoryBufferParameter(name,buf,size)      */ {E_withMemoryBuffer, V_PTR_SIZE, 1, 0},
  /* 14 withParameterOfType(type,name,ptr)            */ {E_withParameterOfType, V_W64, 1, 1},
  /* 15 withOutputParameterReturning(name,ptr,size)   */ {E_withOutputParameterReturning, V_PTR_SIZE, 1, 0},
  /* 16 withOutputParameterOfTypeReturning(type,name,ptr) */ {E_withOutputParameterOfTypeReturning, V_W64, 1, 1},
  /* 17 withUnmodifiedOutputParameter(name)           */ {E_withUnmodifiedOutputParameter, V_NONE, 1, 0},
  /* 18 ignoreOtherParameters()                       */ {E_ignoreOtherParameters, V_NONE, 0, 0},
  /* 19 andReturnBoolValue(int)                       */ {E_retBool, V_BOOL, 0, 0},
  /* 20 andReturnUnsignedIntValue(unsigned)           */ {E_retUnsignedInt, V_U32, 0, 0},
  /* 21 andReturnIntValue(int)                        */ {E_retInt, V_I32, 0, 0},
  /* 22 andReturnLongIntValue(long)                   */ {E_retLongInt, V_W64, 0, 0},
  /* 23 andReturnUnsignedLongIntValue(ulong)          */ {E_retUnsignedLongInt, V_W64, 0, 0},
  /* 24 andReturnLongLongIntValue                     */ {E_retLongLongInt, V_W64, 0, 0},
  /* 25 andReturnUnsignedLongLongIntValue             */ {E_retUnsignedLongLongInt, V_W64, 0, 0},
  /* 26 andReturnDoubleValue(double)                  */ {E_retDouble, V_DBL, 0, 0},
  /* 27 andReturnStringValue(const char*)             */ {E_retString, V_W64, 0, 0},
  /* 28 andReturnPointerValue(void*)                  */ {E_retPointer, V_W64, 0, 0},
  /* 29 andReturnConstPointerValue(const void*)       */ {E_retConstPointer, V_W64, 0, 0},
  /* 30 andReturnFunctionPointerValue(void(*)())      */ {E_retFunctionPointer, V_W64, 0, 0},
};
static void check_rec(int i, int obj, const struct row* w, uint64_t name, uint64_t type, uint64_t bits, uint64_t bits2) {
  CHECK(h_rec_obj(i) == (uint32_t)obj, "the call lands on the object the previous call of the chain returned");
  CHECK(h_rec_id(i) == (uint32_t)w->id, "the C entry point reaches the same-named C++ method (same overload)");
  CHECK(h_rec_name(i) == (w->has_name ? name : 0), "the parameter name arrives unchanged");
  CHECK(h_rec_type(i) == (w->has_type ? type : 0), "the type name arrives unchanged");
  CHECK(h_rec_bits(i) == bits, "the value arrives unchanged (every bit of the C argument's type)");
  CHECK(h_rec_bits2(i) == bits2, "the second value (size / tolerance) arrives unchanged");
}
/* one obligation = expectOneCall("f") followed by up to four entry points (constants K0..K3, -1 = none) and a closing
 * ignoreOtherParameters(); the doubles answer every call with the OTHER expected-call object (A, B, A, ...), so each
 * link must land on the object the previous link returned */
#define MAXSTEP 4
static void body_exp(const int K0, const int K1, const int K2, const int K3) {
  const int K[MAXSTEP] = { K0, K1, K2, K3 };
  h_init();
  CHECK(h_enter(), "mock_scope_c hands out a table");
  IN_ARR_U64(a, MAXSTEP); IN_ARR_U64(b, MAXSTEP); IN_ARR_U64(dw, MAXSTEP); IN_ARR_U64(tw, MAXSTEP);
  IN_ARR_U8(nm, 3 * MAXSTEP); IN_ARR_U8(ty, 3 * MAXSTEP);
  h_clear_records();
  CHECK(h_expect_one(S("f")), "expectOneCall returns the expected-call table");
  uint32_t same = 1, n = 0;
  for (int i = 0; i < MAXSTEP; i++) {
    if (K[i] < 0) continue;
    nm[3 * i + 2] = 0; ty[3 * i + 2] = 0;
    same &= h_exp(K[i], &nm[3 * i], &ty[3 * i], a[i], b[i], u2d(dw[i]), u2d(tw[i]));
    n++;
  }
  same &= h_exp(18, S(""), S(""), 0, 0, 0.0, 0.0);     /* closing link: ignoreOtherParameters() */
  OBSERVE(h_nrec());
  CHECK(h_wiring_bad() == 0, "the table members used are the forwarders exercised here");
  CHECK(same, "every link of the chain returns the same C table");
  CHECK(h_nrec() == n + 2, "one C call = one C++ call");
  CHECK(h_rec_obj(0) == O_SUP && h_rec_id(0) == S_expectOneCall && h_rec_name(0) == n8(S("f")), "expectOneCall(name) reaches MockSupport::expectOneCall(name)");
  uint32_t r = 1;
  for (int i = 0; i < MAXSTEP; i++) {
    if (K[i] < 0) continue;
    OBSERVE(h_rec_id(r)); OBSERVE(h_rec_bits(r)); OBSERVE(h_rec_bits2(r)); OBSERVE(h_rec_name(r));
    check_rec(r, (r & 1) ? O_EXP_A : O_EXP_B, &EXP[K[i]], n8(&nm[3 * i]), n8(&ty[3 * i]), want_bits(EXP[K[i]].conv, a[i], dw[i]), want_bits2(EXP[K[i]].conv, b[i], tw[i]));
    r++;
  }
  check_rec(r, (r & 1) ? O_EXP_A : O_EXP_B, &EXP[18], 0, 0, 0, 0);
  CHECK(!exited && h_failures() == 0, "forwarding never fails the test");
  WITNESS("end");
}
#define E4(n, k0, k1, k2, k3) HARNESS(harness_exp_##n) { body_exp(k0, k1, k2, k3); }
E4(0, 0, 1, 2, 3) E4(1, 4, 5, 6, 7) E4(2, 8, 9, 10, 11) E4(3, 12, 13, 14, 15) E4(4, 16, 17, 18, 19) E4(5, 20, 21, 22, 23) E4(6, 24, 25, 26, 27) E4(7, 28, 29, 30, -1)

/* ------------------------------------------------------------------ MockActualCall_c: 16 parameter entry points */
static const struct row ACT[16] = {
  /* 0 withBoolParameters(name,int)              */ {A_withBool, V_BOOL, 1, 0},
  /* 1 withIntParameters                         */ {A_withInt, V_I32, 1, 0},
  /* 2 withUnsignedIntParameters                 */ {A_withUnsignedInt, V_U32, 1, 0},
  /* 3 withLongIntParameters                     */ {A_withLongInt, V_W64, 1, 0},
  /* 4 withUnsignedLongIntParameters             */ {A_withUnsignedLongInt, V_W64, 1, 0},
  /* 5 withLongLongIntParameters                 */ {A_withLongLongInt, V_W64, 1, 0},
  /* 6 withUnsignedLongLongIntParameters         */ {A_withUnsignedLongLongInt, V_W64, 1, 0},
  /* 7 withDoubleParameters                      */ {A_withDouble, V_DBL, 1, 0},
  /* 8 withStringParameters                      */ {A_withString, V_W64, 1, 0},
  /* 9 withPointerParameters                     */ {A_withPointer, V_W64, 1, 0},
  /* 10 withConstPointerParameters               */ {A_withConstPointer, V_W64, 1, 0},
  /* 11 withFunctionPointerParameters            */ {A_withFunctionPointer, V_W64, 1, 0},
  /* 12 withMemoryBufferParameter(name,buf,size) */ {A_withMemoryBuffer, V_PTR_SIZE, 1, 0},
  /* 13 withParameterOfType(type,name,ptr)       */ {A_withParameterOfType, V_W64, 1, 1},
  /* 14 withOutputParameter(name,void*)          */ {A_withOutputParameter, V_W64, 1, 0},
  /* 15 withOutputParameterOfType(type,name,void*) */ {A_withOutputParameterOfType, V_W64, 1, 1},
};
static void body_act(const int K0, const int K1, const int K2, const int K3) {
  const int K[MAXSTEP] = { K0, K1, K2, K3 };
  h_init();
  CHECK(h_enter(), "mock_scope_c hands out a table");
  IN_ARR_U64(a, MAXSTEP); IN_ARR_U64(b, MAXSTEP); IN_ARR_U64(dw, MAXSTEP);
  IN_ARR_U8(nm, 3 * MAXSTEP); IN_ARR_U8(ty, 3 * MAXSTEP);
  h_clear_records();
  CHECK(h_actual(S("f")), "actualCall returns the actual-call table");
  uint32_t same = 1, n = 0;
  for (int i = 0; i < MAXSTEP; i++) {
    if (K[i] < 0) continue;
    nm[3 * i + 2] = 0; ty[3 * i + 2] = 0;
    same &= h_act(K[i], &nm[3 * i], &ty[3 * i], a[i], b[i], u2d(dw[i]));
    n++;
  }
  same &= h_act(0, S("z"), S(""), 1, 0, 0.0);          /* closing link: withBoolParameters("z", 1) */
  OBSERVE(h_nrec());
  CHECK(h_wiring_bad() == 0, "the table members used are the forwarders exercised here");
  CHECK(same, "every link of the chain returns the same C table");
  CHECK(h_nrec() == n + 2, "one C call = one C++ call");
  CHECK(h_rec_obj(0) == O_SUP && h_rec_id(0) == S_actualCall && h_rec_name(0) == n8(S("f")), "actualCall(name) reaches MockSupport::actualCall(name)");
  uint32_t r = 1;
  for (int i = 0; i < MAXSTEP; i++) {
    if (K[i] < 0) continue;
    OBSERVE(h_rec_id(r)); OBSERVE(h_rec_bits(r)); OBSERVE(h_rec_bits2(r)); OBSERVE(h_rec_name(r));
    check_rec(r, (r & 1) ? O_ACT_A : O_ACT_B, &ACT[K[i]], n8(&nm[3 * i]), n8(&ty[3 * i]), want_bits(ACT[K[i]].conv, a[i], dw[i]), want_bits2(ACT[K[i]].conv, b[i], 0));
    r++;
  }
  check_rec(r, (r & 1) ? O_ACT_A : O_ACT_B, &ACT[0], n8(S("z")), 0, 1, 0);
  CHECK(!exited && h_failures() == 0, "forwarding never fails the test");
  WITNESS("end");
}
#define A4(n, k0, k1, k2, k3) HARNESS(harness_act_##n) { body_act(k0, k1, k2, k3); }
A4(0, 0, 1, 2, 3) A4(1, 4, 5, 6, 7) A4(2, 8, 9, 10, 11) A4(3, 12, 13, 14, 15)

/* ------------------------------------------------------------------ return values
 * value type codes t (w19.cpp setByCode): 0 bool 1 int 2 unsigned 3 long 4 ulong 5 long long 6 ulong long
 *   7 double 8 string 9 void* 10 const void* 11 function pointer 12 memory buffer 13 object 14 const object */
static uint64_t canon(int t, uint64_t v) {     /* the stored value as a 64-bit word */
  switch (t) { case 0: return v != 0; case 1: return sext32(v); case 2: return zext32(v); default: return v; }
}
/* MockValueType_c as declared in MockSupport_c.h */
enum { T_BOOL, T_UNSIGNED_INTEGER, T_INTEGER, T_LONG_INTEGER, T_UNSIGNED_LONG_INTEGER, T_LONG_LONG_INTEGER, T_UNSIGNED_LONG_LONG_INTEGER,
       T_DOUBLE, T_STRING, T_POINTER, T_CONST_POINTER, T_FUNCTIONPOINTER, T_MEMORYBUFFER, T_OBJECT };
static const int TAG[15] = { T_BOOL, T_INTEGER, T_UNSIGNED_INTEGER, T_LONG_INTEGER, T_UNSIGNED_LONG_INTEGER, T_LONG_LONG_INTEGER, T_UNSIGNED_LONG_LONG_INTEGER,
                             T_DOUBLE, T_STRING, T_POINTER, T_CONST_POINTER, T_FUNCTIONPOINTER, T_MEMORYBUFFER, T_OBJECT, T_OBJECT };
/* getter codes g: 0 bool 1 int 2 unsigned 3 long 4 ulong 5 long long 6 ulong long 7 string 8 double 9 void* 10 const void* 11 function pointer */
static const int GTYPE[12] = { 0, 1, 2, 3, 4, 5, 6, 8, 7, 9, 10, 11 };       /* the value type a getter is for */
static const int GID[12] = { A_getBool, A_getInt, A_getUnsignedInt, A_getLongInt, A_getUnsignedLongInt, A_getLongLongInt, A_getUnsignedLongLongInt,
                             A_getString, A_getDouble, A_getPointer, A_getConstPointer, A_getFunctionPointer };
static const int GDID[12] = { A_getBoolOrDefault, A_getIntOrDefault, A_getUnsignedIntOrDefault, A_getLongIntOrDefault, A_getUnsignedLongIntOrDefault,
                              A_getLongLongIntOrDefault, A_getUnsignedLongLongIntOrDefault, A_getStringOrDefault, A_getDoubleOrDefault, A_getPointerOrDefault,
                              A_getConstPointerOrDefault, A_getFunctionPointerOrDefault };
/* every recorded call is on the current actual call and is the getter of type g (plain or OrDefault) or hasReturnValue */
static int records_only_getter(int g, int* plain_seen, int* has_seen) {
  int ok = 1; *plain_seen = 0; *has_seen = 0;
  for (uint32_t i = 0; i < h_nrec() && i < 8; i++) {
    uint32_t id = h_rec_id(i);
    if (h_rec_obj(i) != O_ACT_A) ok = 0;
    if (id == (uint32_t)GID[g]) *plain_seen = 1; else if (id == A_hasReturnValue) *has_seen = 1; else if (id != (uint32_t)GDID[g]) ok = 0;
  }
  return ok && h_nrec() <= 8;
}
/* one obligation = actualCall("f") and up to four getters (constants, -1 = none), each on a freshly configured return value */
static void body_get(const int TABLE, const int G0, const int G1, const int G2, const int G3) {
  const int G[MAXSTEP] = { G0, G1, G2, G3 };
  h_init();
  CHECK(h_enter(), "mock_scope_c hands out a table");
  CHECK(h_actual(S("f")), "actualCall returns the actual-call table");
  IN_ARR_U64(v, MAXSTEP);
  for (int i = 0; i < MAXSTEP; i++) {
    if (G[i] < 0) continue;
    const int t = GTYPE[G[i]];
    h_ret_setup(t, v[i], 0, u2d(v[i]), 1);
    h_clear_records();
    uint64_t r = h_get(TABLE, G[i]);
    OBSERVE(r);
    int plain, has;
    CHECK(r == canon(t, v[i]), "the C getter returns exactly the value the C++ engine holds for this call");
    CHECK(records_only_getter(G[i], &plain, &has) && plain, "the C getter asks the same-typed C++ getter of the current actual call, and no other");
  }
  CHECK(!exited && h_failures() == 0, "reading a value of the getter's own type does not fail the test");
  WITNESS("end");
}
/* ...OrDefault: HAS (constant) = whether the call has a return value */
static void body_get_default(const int TABLE, const int HAS, const int G0, const int G1, const int G2, const int G3) {
  const int G[MAXSTEP] = { G0, G1, G2, G3 };
  h_init();
  CHECK(h_enter(), "mock_scope_c hands out a table");
  CHECK(h_actual(S("f")), "actualCall returns the actual-call table");
  IN_ARR_U64(v, MAXSTEP); IN_ARR_U64(def, MAXSTEP);
  for (int i = 0; i < MAXSTEP; i++) {
    if (G[i] < 0) continue;
    const int t = GTYPE[G[i]];
    h_ret_setup(t, v[i], 0, u2d(v[i]), HAS);
    h_clear_records();
    uint64_t r = h_get_or_default(TABLE, G[i], def[i], u2d(def[i]));
    OBSERVE(r);
    int plain, hasq;
    uint64_t want_def = (G[i] <= 1) ? sext32(def[i]) : (G[i] == 2) ? zext32(def[i]) : def[i];   /* the default as the C parameter type holds it */
    CHECK(r == (HAS ? canon(t, v[i]) : want_def), "...OrDefault returns the default iff the call has no return value, else exactly the value");
    CHECK(records_only_getter(G[i], &plain, &hasq) && hasq && plain == HAS, "...OrDefault consults hasReturnValue and then only the same-typed C++ getter");
  }
  CHECK(!exited && h_failures() == 0, "defaulting does not fail the test");
  WITNESS("end");
}
/* the same question through the C interface and through the C++ interface (LEVEL 0: the MockActualCall object,
 * LEVEL 1: the MockSupport), same state */
static void body_get_default_cpp(const int TABLE, const int LEVEL, const int HAS, const int G0, const int G1, const int G2, const int G3) {
  const int G[MAXSTEP] = { G0, G1, G2, G3 };
  h_init();
  CHECK(h_enter(), "mock_scope_c hands out a table");
  CHECK(h_actual(S("f")), "actualCall returns the actual-call table");
  IN_ARR_U64(v, MAXSTEP); IN_ARR_U64(def, MAXSTEP);
  for (int i = 0; i < MAXSTEP; i++) {
    if (G[i] < 0) continue;
    h_ret_setup(GTYPE[G[i]], v[i], 0, u2d(v[i]), HAS);
    uint64_t r = h_get_or_default(TABLE, G[i], def[i], u2d(def[i]));
    uint64_t c = h_cpp_get_or_default(LEVEL, G[i], def[i], u2d(def[i]));
    OBSERVE(r); OBSERVE(c);
    if (G[i] == 0) {   /* the C default is an int, the C++ default a bool: same truth value */
      CHECK((r != 0) == (c != 0), "same answer as the C++ returnBoolValueOrDefault");
    } else {
      CHECK(r == c, "same answer as the C++ ...OrDefault");
    }
  }
  CHECK(!exited && h_failures() == 0, "defaulting does not fail the test");
  WITNESS("end");
}
#define GG(tb) \
  HARNESS(harness_get_##tb##_0) { body_get(tb, 0, 1, 2, 3); } HARNESS(harness_get_##tb##_1) { body_get(tb, 4, 5, 6, 7); } HARNESS(harness_get_##tb##_2) { body_get(tb, 8, 9, 10, 11); } \
  HARNESS(harness_get_default_##tb##_has_0) { body_get_default(tb, 1, 0, 1, 2, 3); } HARNESS(harness_get_default_##tb##_has_1) { body_get_default(tb, 1, 4, 5, 6, 7); } HARNESS(harness_get_default_##tb##_has_2) { body_get_default(tb, 1, 8, 9, 10, 11); } \
  HARNESS(harness_get_default_##tb##_none_0) { body_get_default(tb, 0, 0, 1, 2, 3); } HARNESS(harness_get_default_##tb##_none_1) { body_get_default(tb, 0, 4, 5, 6, 7); } HARNESS(harness_get_default_##tb##_none_2) { body_get_default(tb, 0, 8, 9, 10, 11); }
GG(0) GG(1)
#define GC(tb, lv) \
  HARNESS(harness_get_default_cpp_##tb##_##lv##_has_0) { body_get_default_cpp(tb, lv, 1, 0, 1, 2, 3); } HARNESS(harness_get_default_cpp_##tb##_##lv##_has_1) { body_get_default_cpp(tb, lv, 1, 4, 5, 6, 7); } HARNESS(harness_get_default_cpp_##tb##_##lv##_has_2) { body_get_default_cpp(tb, lv, 1, 8, 9, 10, 11); } \
  HARNESS(harness_get_default_cpp_##tb##_##lv##_none_0) { body_get_default_cpp(tb, lv, 0, 0, 1, 2, 3); } HARNESS(harness_get_default_cpp_##tb##_##lv##_none_1) { body_get_default_cpp(tb, lv, 0, 4, 5, 6, 7); } HARNESS(harness_get_default_cpp_##tb##_##lv##_none_2) { body_get_default_cpp(tb, lv, 0, 8, 9, 10, 11); }
GC(0, 0) GC(0, 1) GC(1, 0) GC(1, 1)

/* mock_scope_c(s)->xReturnValue() against mock(s).xReturnValue() (the real MockSupport getters) on the same state, in both states an
 * actual call can leave behind: a checked call holding a value of the getter's own type, or (ignored != 0) the ignoring call that
 * MockSupport::actualCall hands out while mocking is disabled / the call is ignored.
 * KF_C19_1 (open finding): in the second state the C getters answer from the ignoring call (false, "", 0.0, NULL) while the C++
 * MockSupport getters of type bool/string/double/pointer/const pointer/function pointer fail the test (the value-less
 * MockNamedValue has type "int"); the integer getters agree (0). With the define those inputs are assumed away. */
static int kf1_diverges(int g) { return g == 0 || g >= 7; }
static void run_support_get(const int IGNORED, const int* G, const uint64_t* v) {
  h_set_ignored(IGNORED);
  CHECK(h_actual(S("f")), "actualCall returns the actual-call table");
  for (int i = 0; i < MAXSTEP; i++) {
    if (G[i] < 0) continue;
    if (!IGNORED) h_ret_setup(GTYPE[G[i]], v[i], 0, u2d(v[i]), 1);
    uint64_t r = h_get(1, G[i]);
    cpp_phase = 1;
    uint64_t c = h_cpp_support_get(G[i]);
    cpp_phase = 0;
    if (G[i] != 7 || !IGNORED) { OBSERVE(r); OBSERVE(c); }     /* the ignoring call's "" is an address of the build */
    CHECK(r == c, "the C getter of the MockSupport table answers like the C++ MockSupport getter");
    CHECK(IGNORED || r == canon(GTYPE[G[i]], v[i]), "and both answer the stored value");
  }
  CHECK(!exited && h_failures() == 0, "reading does not fail the test");
}
static void body_support_get(const int G0, const int G1, const int G2, const int G3) {
  const int G[MAXSTEP] = { G0, G1, G2, G3 };
  h_init();
  CHECK(h_enter(), "mock_scope_c hands out a table");
  IN_BOOL(ignored); IN_ARR_U64(v, MAXSTEP);
#ifdef KF_C19_1
  for (int i = 0; i < MAXSTEP; i++) if (G[i] >= 0 && kf1_diverges(G[i])) ASSUME(!ignored);
#endif
  /* the two states are explored as two separate paths (the call object stays concrete on each) */
  if (ignored) { run_support_get(1, G, v); WITNESS("end ignoring call"); } else { run_support_get(0, G, v); WITNESS("end checked call"); }
}
HARNESS(harness_support_get_0) { body_support_get(1, 2, 3, 4); }
HARNESS(harness_support_get_1) { body_support_get(5, 6, 0, 7); }
HARNESS(harness_support_get_2) { body_support_get(8, 9, 10, 11); }

/* hasReturnValue() for both answers; returnValue() of a call without return value */
static void body_has(const int TABLE) {
  h_init();
  CHECK(h_enter(), "mock_scope_c hands out a table");
  CHECK(h_actual(S("f")), "actualCall returns the actual-call table");
  IN_U64(v);
  for (int has = 0; has < 2; has++) {
    h_ret_setup(1, v, 0, 0.0, has);
    h_clear_records();
    uint32_t r = h_has_return_value(TABLE);
    OBSERVE(r);
    CHECK(r == (uint32_t)has, "hasReturnValue() of the C table is hasReturnValue() of the current actual call");
    CHECK(h_nrec() == 1 && h_rec_obj(0) == O_ACT_A && h_rec_id(0) == A_hasReturnValue, "asked once, on the current actual call");
    if (!has) {
      h_return_value(TABLE);
      OBSERVE(h_mv_type());
      CHECK(h_mv_type() == T_INTEGER && h_mv_member(1) == 0, "no return value: the C value is the C++ default-constructed value (int 0)");
    }
  }
  CHECK(!exited && h_failures() == 0, "asking never fails the test");
  WITNESS("end");
}
HARNESS(harness_shared_members) {
  h_init();
  CHECK(h_enter(), "mock_scope_c hands out a table");
  CHECK(h_actual(S("f")), "actualCall returns the actual-call table");
  OBSERVE(h_shared_members_differ());
  CHECK(h_shared_members_differ() == 0, "hasReturnValue, returnValue and the 24 typed getters of MockSupport_c are the very forwarders of MockActualCall_c");
  WITNESS("end");
}
HARNESS(harness_has_0) { body_has(0); }
HARNESS(harness_has_1) { body_has(1); }

/* returnValue(): the tagged union, up to four stored types per obligation */
static void body_retval(const int TABLE, const int T0, const int T1, const int T2, const int T3) {
  const int T[MAXSTEP] = { T0, T1, T2, T3 };
  h_init();
  CHECK(h_enter(), "mock_scope_c hands out a table");
  CHECK(h_actual(S("f")), "actualCall returns the actual-call table");
  IN_ARR_U64(v, MAXSTEP); IN_ARR_U64(sz, MAXSTEP);
  for (int i = 0; i < MAXSTEP; i++) {
    if (T[i] < 0) continue;
    h_ret_setup(T[i], v[i], sz[i], u2d(v[i]), 1);
    h_clear_records();
    h_return_value(TABLE);
    OBSERVE(h_mv_type()); OBSERVE(h_mv_member(T[i]));
    CHECK(h_mv_type() == (uint32_t)TAG[T[i]], "returnValue().type is the tag of the stored value's type");
    CHECK(h_mv_member(T[i]) == canon(T[i], v[i]), "the union member of that type holds exactly the stored value");
    CHECK(h_nrec() == 0 && h_retvalue_calls() >= 1, "returnValue() reads the current actual call's returnValue()");
  }
  CHECK(!exited && h_failures() == 0, "converting a value never fails the test");
  WITNESS("end");
}
#define RR(tb) HARNESS(harness_retval_##tb##_0) { body_retval(tb, 0, 1, 2, 3); } HARNESS(harness_retval_##tb##_1) { body_retval(tb, 4, 5, 6, 7); } \
  HARNESS(harness_retval_##tb##_2) { body_retval(tb, 8, 9, 10, 11); } HARNESS(harness_retval_##tb##_3) { body_retval(tb, 12, 13, 14, -1); }
RR(0) RR(1)

/* ------------------------------------------------------------------ MockSupport_c: control entry points */
static const struct row SUP[13] = {
  /* 0 strictOrder()            */ {S_strictOrder, V_NONE, 0, 0},
  /* 1 expectOneCall(name)      */ {S_expectOneCall, V_NONE, 1, 0},
  /* 2 expectNoCall(name)       */ {S_expectNoCall, V_NONE, 1, 0},
  /* 3 expectNCalls(n,name)     */ {S_expectNCalls, V_U32, 1, 0},
  /* 4 actualCall(name)         */ {S_actualCall, V_NONE, 1, 0},
  /* 5 disable()                */ {S_disable, V_NONE, 0, 0},
  /* 6 enable()                 */ {S_enable, V_NONE, 0, 0},
  /* 7 ignoreOtherCalls()       */ {S_ignoreOtherCalls, V_NONE, 0, 0},
  /* 8 checkExpectations()      */ {S_checkExpectations, V_NONE, 0, 0},
  /* 9 expectedCallsLeft()      */ {S_expectedCallsLeft, V_NONE, 0, 0},
  /* 10 clear()                 */ {S_clear, V_NONE, 0, 0},
  /* 11 crashOnFailure(unsigned)*/ {S_crashOnFailure, V_BOOL, 0, 0},
  /* 12 removeAllComparatorsAndCopiers() */ {S_removeAllComparatorsAndCopiers, V_NONE, 0, 0},
};
static void body_sup(const int K0, const int K1, const int K2, const int K3) {
  const int K[MAXSTEP] = { K0, K1, K2, K3 };
  h_init();
  CHECK(h_enter(), "mock_scope_c hands out a table");
  IN_ARR_U64(a, MAXSTEP); IN_ARR_U8(nm, 3 * MAXSTEP); IN_BOOL(answer);
  for (int i = 0; i < MAXSTEP; i++) {
    if (K[i] < 0) continue;
    nm[3 * i + 2] = 0;
    h_clear_records();
    uint32_t r = h_sup(K[i], &nm[3 * i], a[i], answer);
    OBSERVE(r); OBSERVE(h_nrec()); OBSERVE(h_rec_bits(0));
    CHECK(h_wiring_bad() == 0, "the table members used are the forwarders exercised here");
    CHECK(h_nrec() == 1, "one C call = one C++ call");
    check_rec(0, O_SUP, &SUP[K[i]], n8(&nm[3 * i]), 0, want_bits(SUP[K[i]].conv, a[i], 0), 0);
    if (K[i] == 9) CHECK(r == answer, "expectedCallsLeft() returns the C++ answer as 0/1");
    if (K[i] == 1 || K[i] == 3) {
      CHECK(r == 1, "a table is returned");
      h_clear_records();                             /* the table is the expected-call table and is now bound to the returned call */
      h_exp(18, S(""), S(""), 0, 0, 0.0, 0.0);
      CHECK(h_nrec() == 1 && h_rec_obj(0) == O_EXP_A && h_rec_id(0) == E_ignoreOtherParameters, "the returned table addresses the call MockSupport returned");
    }
    if (K[i] == 4) {
      CHECK(r == 1, "a table is returned");
      h_clear_records();
      h_act(0, S("z"), S(""), 1, 0, 0.0);
      CHECK(h_nrec() == 1 && h_rec_obj(0) == O_ACT_A && h_rec_id(0) == A_withBool, "the returned table addresses the call MockSupport returned");
    }
  }
  CHECK(!exited && h_failures() == 0, "forwarding never fails the test");
  WITNESS("end");
}
HARNESS(harness_sup_0) { body_sup(0, 1, 2, 3); }
HARNESS(harness_sup_1) { body_sup(4, 5, 6, 7); }
HARNESS(harness_sup_2) { body_sup(8, 9, 10, 11); }
/* 12 removeAllComparatorsAndCopiers(): harness_remove_all */

/* selecting a MockSupport: mock_scope_c(s) = mock(s, C reporter), mock_c() = mock("", C reporter) */
HARNESS(harness_scope) {
  h_init();
  CHECK(h_enter(), "mock_scope_c hands out a table");
  CHECK(h_enter_again(), "selecting the same scope again hands out the same table");
  OBSERVE(h_nrec());
  /* each mock_scope_c("d") is mock("d", reporter): it activates a reporter and the scope's comparator repository */
  CHECK(h_nrec() == 4, "mock_scope_c(name) = mock(name, reporter): setActiveReporter + setDefaultComparatorsAndCopiersRepository on the scope");
  CHECK(h_rec_obj(0) == O_SUP && h_rec_id(0) == S_setActiveReporter && h_rec_bits(0) == 1, "the C interface installs its own failure reporter");
  CHECK(h_rec_obj(1) == O_SUP && h_rec_id(1) == S_setDefaultRepository, "the scope's comparators become current");
  CHECK(h_rec_id(2) == S_setActiveReporter && h_rec_id(3) == S_setDefaultRepository, "same on every selection");
  CHECK(h_reporter_seen(), "a reporter object was passed");
  uint32_t g = h_mock_c_global();
  OBSERVE(g);
  CHECK(g == 5, "mock_c() selects the global MockSupport: strictOrder() through the table sets mock().strictOrdering_; the table is the same object");
  CHECK(h_nrec() == 4, "after mock_c() calls no longer reach the scope");
  CHECK(!exited && h_failures() == 0, "selecting never fails the test");
  WITNESS("end");
}

/* ------------------------------------------------------------------ comparator / copier adaptors */
HARNESS(harness_comparator) {
  h_init();
  CHECK(h_enter(), "mock_scope_c hands out a table");
  IN_U64(pa); IN_U64(pb); IN_U32(answer); IN_NAME(ty); IN_NAME(str);
  h_clear_records();
  CHECK(h_install_comparator(ty), "installComparator passes a comparator object to MockSupport::installComparator");
  CHECK(h_nrec() == 1 && h_rec_obj(0) == O_SUP && h_rec_id(0) == S_installComparator && h_rec_name(0) == n8(ty), "for the same type name");
  h_clear_records();
  uint32_t eq = h_comparator_is_equal(pa, pb, answer);
  OBSERVE(eq);
  CHECK(eq == ((int32_t)answer != 0), "isEqual is the C function's answer as a truth value");
  CHECK(h_nrec() == 1 && h_rec_id(0) == C_equal && h_rec_bits(0) == pa && h_rec_bits2(0) == pb, "the C function is called once with the same two objects in the same order");
  h_clear_records();
  uint64_t s = h_comparator_to_string(pa, str);
  OBSERVE(s);
  CHECK(s == n8(str), "valueToString is the C function's string");
  CHECK(h_nrec() == 1 && h_rec_id(0) == C_toString && h_rec_bits(0) == pa, "the C function is called once with the same object");
  CHECK(!exited && h_failures() == 0, "adaptors never fail the test");
  WITNESS("end");
}
HARNESS(harness_copier) {
  h_init();
  CHECK(h_enter(), "mock_scope_c hands out a table");
  IN_U64(pa); IN_U64(pb); IN_NAME(ty);
  h_clear_records();
  CHECK(h_install_copier(ty), "installCopier passes a copier object to MockSupport::installCopier");
  CHECK(h_nrec() == 1 && h_rec_obj(0) == O_SUP && h_rec_id(0) == S_installCopier && h_rec_name(0) == n8(ty), "for the same type name");
  h_clear_records();
  h_copier_copy(pa, pb);
  CHECK(h_nrec() == 1 && h_rec_id(0) == C_copy && h_rec_bits(0) == pa && h_rec_bits2(0) == pb, "copy(dst, src) calls the C function once with (dst, src)");
  WITNESS("end");
}
HARNESS(harness_remove_all) {
  h_init();
  CHECK(h_enter(), "mock_scope_c hands out a table");
  h_install_comparator(S("A")); h_install_comparator(S("B")); h_install_copier(S("A"));
  h_clear_records();
  h_sup(12, S(""), 0, 0);
  CHECK(h_nrec() == 1 && h_rec_obj(0) == O_SUP && h_rec_id(0) == S_removeAllComparatorsAndCopiers, "removeAllComparatorsAndCopiers reaches the MockSupport");
  h_sup(12, S(""), 0, 0);      /* the adaptor lists are empty now: nothing is freed twice (memory-safety assertions) */
  CHECK(h_nrec() == 2, "and again");
  CHECK(h_install_comparator(S("C")), "the adaptor list is usable again");
  WITNESS("end");
}

/* ------------------------------------------------------------------ data store (real MockSupport::setData / getData)
 * kinds: 0 bool 1 int 2 unsigned 3 string 4 double 5 void* 6 const void* 7 function pointer 8 object 9 const object */
static const char* const DTYPE[10] = { "bool", "int", "unsigned int", "const char*", "double", "void*", "const void*", "void (*)()", "T1", "T1" };
static const int DTAG[10] = { T_BOOL, T_INTEGER, T_UNSIGNED_INTEGER, T_STRING, T_DOUBLE, T_POINTER, T_CONST_POINTER, T_FUNCTIONPOINTER, T_OBJECT, T_OBJECT };
static const int DMEMBER[10] = { 0, 1, 2, 8, 7, 9, 10, 11, 13, 14 };
static uint64_t dcanon(int k, uint64_t a) { return k == 0 ? ((int32_t)(uint32_t)a != 0) : k == 1 ? sext32(a) : k == 2 ? zext32(a) : a; }
static const char* const DNAME[MAXSTEP] = { "n0", "n1", "n2", "n3" };
static void body_set_data(const int K0, const int K1, const int K2, const int K3) {
  const int K[MAXSTEP] = { K0, K1, K2, K3 };
  h_init();
  CHECK(h_enter(), "mock_scope_c hands out a table");
  IN_ARR_U64(a, MAXSTEP);
  for (int i = 0; i < MAXSTEP; i++) {
    if (K[i] < 0) continue;
    h_c_set_data(K[i], S(DNAME[i]), S("T1"), a[i], u2d(a[i]));
    uint32_t pk = h_cpp_peek(S(DNAME[i]), S(DTYPE[K[i]]));
    OBSERVE(pk);
    CHECK(pk == 2, "C set...Data(name, v): mock(scope).getData(name) exists and has the C++ type of the same-named setData overload");
    OBSERVE(h_peek_value(K[i]));
    CHECK(h_peek_value(K[i]) == dcanon(K[i], a[i]), "and holds exactly the value");
  }
  CHECK(!exited && h_failures() == 0, "storing never fails the test");
  WITNESS("end");
}
static void body_get_data(const int K0, const int K1, const int K2, const int K3) {
  const int K[MAXSTEP] = { K0, K1, K2, K3 };
  h_init();
  CHECK(h_enter(), "mock_scope_c hands out a table");
  IN_ARR_U64(a, MAXSTEP);
  for (int i = 0; i < MAXSTEP; i++) {
    if (K[i] < 0) continue;
    h_cpp_set_data(K[i], S(DNAME[i]), S("T1"), a[i], u2d(a[i]));
    h_c_get_data(S(DNAME[i]));
    OBSERVE(h_mv_type()); OBSERVE(h_mv_member(DMEMBER[K[i]]));
    CHECK(h_mv_type() == (uint32_t)DTAG[K[i]], "C getData(name).type is the tag of the type stored through C++ setData");
    CHECK(h_mv_member(DMEMBER[K[i]]) == (K[i] == 0 ? (uint64_t)(a[i] != 0) : dcanon(K[i], a[i])), "and the union member of that type holds exactly the value");
  }
  CHECK(!exited && h_failures() == 0, "reading never fails the test");
  WITNESS("end");
}
HARNESS(harness_set_data_0) { body_set_data(0, 1, 2, 3); } HARNESS(harness_set_data_1) { body_set_data(4, 5, 6, -1); } HARNESS(harness_set_data_2) { body_set_data(7, 8, 9, -1); }
HARNESS(harness_get_data_0) { body_get_data(0, 1, 2, 3); } HARNESS(harness_get_data_1) { body_get_data(4, 5, 6, -1); } HARNESS(harness_get_data_2) { body_get_data(7, 8, 9, -1); }
HARNESS(harness_get_data_missing) {
  h_init();
  CHECK(h_enter(), "mock_scope_c hands out a table");
  h_c_get_data(S("no"));
  OBSERVE(h_mv_type());
  CHECK(h_mv_type() == T_INTEGER && h_mv_member(1) == 0, "getData of an unknown name: the C++ default value (int 0)");
  CHECK(!exited && h_failures() == 0, "reading never fails the test");
  WITNESS("end");
}

/* ------------------------------------------------------------------ the failure reporter the C interface installs */
HARNESS(harness_reporter) {
  h_init();
  CHECK(h_enter(), "mock_scope_c hands out a table");
  IN_BOOL(already);
  CHECK(h_reporter_seen() && h_reporter_crash_flag() == 0, "a reporter that does not crash by default");
  if (already) h_mark_test_failed();
  exit_ok = !already;
  h_reporter_fail();            /* a mock failure reported through the C reporter */
  /* returned: only if the test had failed before (then nothing more is recorded, as with the C++ reporter) */
  CHECK(already, "a first failure leaves the test");
  CHECK(h_failures() == 0 && h_test_has_failed(), "a test that has already failed is not failed a second time");
  WITNESS("end");
}

/* ------------------------------------------------------------------ findings (not listed in spec.py; expected to FAIL)
 * KF_C19_1 on the REAL engine (global MockSupport, no doubles): mocking disabled, one actual call, then the typed getter of the
 * MockSupport table.  C: mock_c()->disable(); mock_c()->actualCall("f"); mock_c()->doubleReturnValue()  -> 0.0, test passes.
 * C++: mock().disable(); mock().actualCall("f"); mock().doubleReturnValue()                            -> the test FAILS. */
static void body_finding_disabled(const int G) {
  h_init();
  h_real_select();
  h_sup(5, S(""), 0, 0);                 /* mock_c()->disable() */
  CHECK(h_sup(4, S("f"), 0, 0), "");     /* mock_c()->actualCall("f") */
  uint64_t r = h_get(1, G);              /* mock_c()->xReturnValue() */
  if (G != 7) OBSERVE(r);
  CHECK(!exited && h_failures() == 0, "the C scenario passes");
  cpp_phase = 1;
  uint64_t c = h_real_cpp_disabled_get(G);
  if (G != 7) OBSERVE(c);
  CHECK(r == c, "same value");
  WITNESS("end");
}
HARNESS(finding_disabled_support_getter_double) { body_finding_disabled(8); }
HARNESS(finding_disabled_support_getter_string) { body_finding_disabled(7); }
HARNESS(finding_disabled_support_getter_bool) { body_finding_disabled(0); }
/* control: the int getter agrees (passes) */
HARNESS(harness_disabled_support_getter_int) { body_finding_disabled(1); }
/* (by reading, confirmed natively) a typed getter of the MockSupport table before ANY actualCall() went through the C interface
 * dereferences the NULL "current actual call" (mock_c()->intReturnValue() crashes) while mock().intReturnValue() is 0.  Not a
 * solver obligation: a call through a NULL object pointer makes every virtual target a candidate. */
