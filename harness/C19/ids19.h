/* C19: identities shared by the wrapper (recording doubles) and the harness (oracle table).
 * They only NAME C++ methods and objects; which C entry point must reach which of them is the
 * oracle and lives in h19.c. */
#ifndef IDS19_H
#define IDS19_H
enum {
    /* MockExpectedCall */
    E_withName = 100, E_withCallOrder1, E_withCallOrder2, E_withParameterOfType, E_withOutputParameterReturning,
    E_withOutputParameterOfTypeReturning, E_withUnmodifiedOutputParameter, E_ignoreOtherParameters,
    E_withBool, E_withInt, E_withUnsignedInt, E_withLongInt, E_withUnsignedLongInt, E_withLongLongInt, E_withUnsignedLongLongInt,
    E_withDouble, E_withDoubleTol, E_withString, E_withPointer, E_withFunctionPointer, E_withConstPointer, E_withMemoryBuffer,
    E_retBool, E_retInt, E_retUnsignedInt, E_retLongInt, E_retUnsignedLongInt, E_retLongLongInt, E_retUnsignedLongLongInt,
    E_retDouble, E_retString, E_retPointer, E_retConstPointer, E_retFunctionPointer, E_onObject,
    /* MockActualCall */
    A_withParameterOfType = 200, A_withOutputParameter, A_withOutputParameterOfType,
    A_withBool, A_withInt, A_withUnsignedInt, A_withLongInt, A_withUnsignedLongInt, A_withLongLongInt, A_withUnsignedLongLongInt,
    A_withDouble, A_withString, A_withPointer, A_withFunctionPointer, A_withConstPointer, A_withMemoryBuffer,
    A_hasReturnValue,
    A_getBool, A_getBoolOrDefault, A_getInt, A_getIntOrDefault, A_getUnsignedLongInt, A_getUnsignedLongIntOrDefault,
    A_getLongInt, A_getLongIntOrDefault, A_getUnsignedLongLongInt, A_getUnsignedLongLongIntOrDefault,
    A_getLongLongInt, A_getLongLongIntOrDefault, A_getUnsignedInt, A_getUnsignedIntOrDefault,
    A_getString, A_getStringOrDefault, A_getDouble, A_getDoubleOrDefault, A_getPointer, A_getPointerOrDefault,
    A_getConstPointer, A_getConstPointerOrDefault, A_getFunctionPointer, A_getFunctionPointerOrDefault,
    /* MockSupport */
    S_strictOrder = 300, S_expectOneCall, S_expectNoCall, S_expectNCalls, S_actualCall, S_disable, S_enable, S_tracing,
    S_ignoreOtherCalls, S_checkExpectations, S_expectedCallsLeft, S_clear, S_crashOnFailure, S_setActiveReporter,
    S_setDefaultRepository, S_installComparator, S_installCopier, S_removeAllComparatorsAndCopiers,
    /* C callbacks handed to installComparator / installCopier */
    C_equal = 400, C_toString, C_copy
};
enum { O_SUP = 1, O_EXP_A = 10, O_EXP_B = 11, O_ACT_A = 20, O_ACT_B = 21, O_CB = 30 };
#endif
