# C19: the C mocking interface (MockSupport_c.h) forwards every call to the same-named C++ call with the
# same value, and hands every value back with the same value, type tag and defaulting behaviour.
def ob(fn, unwind=40, timeout=300, bounds='', **kw):
    d = {'fn': fn, 'unwind': unwind, 'timeout': timeout, 'bounds': bounds, 'optional_witness': ['exit path'], 'diff_runs': 60,
         # heap objects of the model are 128-byte arrays (MockNamedValue is 80 bytes): keep them field-sensitive
         'cbmc_flags': ['--max-field-sensitivity-array-size', '128']}
    d.update(kw)
    return d

def grp(names, n=4):
    return [names[i:i + n] for i in range(0, len(names), n)]

NAMES = 'parameter/type names: 0..2 symbolic bytes (+NUL) each; function name "f"'
W = 'every argument word 64-bit symbolic (doubles: all bit patterns incl. NaN payloads; pointers/sizes as integers)'
EXP = ['withBoolParameters', 'withIntParameters', 'withUnsignedIntParameters', 'withLongIntParameters', 'withUnsignedLongIntParameters',
       'withLongLongIntParameters', 'withUnsignedLongLongIntParameters', 'withDoubleParameters', 'withDoubleParametersAndTolerance',
       'withStringParameters', 'withPointerParameters', 'withConstPointerParameters', 'withFunctionPointerParameters',
       'withMemoryBufferParameter', 'withParameterOfType', 'withOutputParameterReturning', 'withOutputParameterOfTypeReturning',
       'withUnmodifiedOutputParameter', 'ignoreOtherParameters', 'andReturnBoolValue', 'andReturnUnsignedIntValue', 'andReturnIntValue',
       'andReturnLongIntValue', 'andReturnUnsignedLongIntValue', 'andReturnLongLongIntValue', 'andReturnUnsignedLongLongIntValue',
       'andReturnDoubleValue', 'andReturnStringValue', 'andReturnPointerValue', 'andReturnConstPointerValue', 'andReturnFunctionPointerValue']
ACT = ['withBoolParameters', 'withIntParameters', 'withUnsignedIntParameters', 'withLongIntParameters', 'withUnsignedLongIntParameters',
       'withLongLongIntParameters', 'withUnsignedLongLongIntParameters', 'withDoubleParameters', 'withStringParameters', 'withPointerParameters',
       'withConstPointerParameters', 'withFunctionPointerParameters', 'withMemoryBufferParameter', 'withParameterOfType', 'withOutputParameter',
       'withOutputParameterOfType']
GET = ['bool', 'int', 'unsignedInt', 'longInt', 'unsignedLongInt', 'longLongInt', 'unsignedLongLongInt', 'string', 'double', 'pointer',
       'constPointer', 'functionPointer']
VT = ['bool', 'int', 'unsigned int', 'long int', 'unsigned long int', 'long long int', 'unsigned long long int', 'double', 'const char*',
      'void*', 'const void*', 'void (*)()', 'memory buffer', 'object', 'const object']
SUP = ['strictOrder', 'expectOneCall', 'expectNoCall', 'expectNCalls', 'actualCall', 'disable', 'enable', 'ignoreOtherCalls', 'checkExpectations',
       'expectedCallsLeft', 'clear', 'crashOnFailure']
DATA = ['setBoolData', 'setIntData', 'setUnsignedIntData', 'setStringData', 'setDoubleData', 'setPointerData', 'setConstPointerData',
        'setFunctionPointerData', 'setDataObject', 'setDataConstObject']
DGRP = [DATA[0:4], DATA[4:7], DATA[7:10]]
TBL = ['MockActualCall_c', 'MockSupport_c']

obs = []
# up to four entry points per obligation (each costs ~1-2 s on top of ~8 s of set-up): constants, own symbolic arguments each
obs += [ob('harness_exp_%d' % i, bounds='MockExpectedCall_c.{%s} called in this order on one expectation (expectOneCall("f") ... ignoreOtherParameters()): %s; %s' % (', '.join(g), W, NAMES)) for i, g in enumerate(grp(EXP))]
obs += [ob('harness_act_%d' % i, bounds='MockActualCall_c.{%s} called in this order on one actual call: %s; %s' % (', '.join(g), W, NAMES)) for i, g in enumerate(grp(ACT))]
for tb in range(2):
    T1 = {}
    for i, g in enumerate(grp(GET)):
        obs.append(ob('harness_get_%d_%d' % (tb, i), bounds='%s.{%s}ReturnValue: each on a stored value of the getter\'s own type, all 64-bit words' % (TBL[tb], ', '.join(g)), **T1))
        for hv, hn in ((1, 'has'), (0, 'none')):
            obs.append(ob('harness_get_default_%d_%s_%d' % (tb, hn, i), bounds='%s.return{%s}ValueOrDefault, call %s return value: stored value and default all 64-bit words' % (TBL[tb], ', '.join(x[0].upper() + x[1:] for x in g), 'has a' if hv else 'has no'), **T1))
            for lv in range(2):
                obs.append(ob('harness_get_default_cpp_%d_%d_%s_%d' % (tb, lv, hn, i), **({} if (tb, lv) == (1, 1) else {'tier': 'thorough'}),
                              bounds='%s.return{%s}ValueOrDefault against the C++ ...OrDefault of the %s on the same state (call %s return value): value and default all 64-bit words' % (TBL[tb], ', '.join(x[0].upper() + x[1:] for x in g), ['MockActualCall', 'MockSupport'][lv], 'has a' if hv else 'has no')))
    obs.append(ob('harness_has_%d' % tb, bounds='%s.hasReturnValue for both answers; returnValue() of a call without return value' % TBL[tb], **T1))
    obs += [ob('harness_retval_%d_%d' % (tb, i), bounds='%s.returnValue() for a stored {%s}: all 64-bit words (buffer size symbolic)' % (TBL[tb], ', '.join(g)), **T1) for i, g in enumerate(grp(VT))]
obs += [ob('harness_support_get_%d' % i, bounds='MockSupport_c.{%s}ReturnValue against MockSupport::...ReturnValue (real C++ getters) on the same state: stored value all 64-bit words; state symbolic: checked call holding a value of the own type / ignoring call (mocking disabled)%s' % (', '.join(g), '' if i == 0 else ' [ignoring-call state excluded: KF_C19_1]'),
           optional_witness=['exit path'] + ([] if i == 0 else ['end ignoring call']))
        for i, g in enumerate([['int', 'unsignedInt', 'longInt', 'unsignedLongInt'], ['longLongInt', 'unsignedLongLongInt', 'bool', 'string'], GET[8:12]])]
obs += [ob('harness_disabled_support_getter_int', bounds='REAL engine (global mock): disable(); actualCall("f"); intReturnValue() through C and through C++')]
obs += [ob('harness_shared_members', bounds='26 members of MockSupport_c compared with MockActualCall_c (pointer identity)')]
obs += [ob('harness_sup_%d' % i, bounds='MockSupport_c.{%s}: argument word 64-bit symbolic, C++ answer symbolic; function names 0..2 symbolic bytes' % ', '.join(g)) for i, g in enumerate(grp(SUP))]
obs += [ob('harness_scope', bounds='mock_scope_c("d") twice, then mock_c()'),
        ob('harness_comparator', bounds='installComparator: type name and string 0..2 symbolic bytes; object addresses 64-bit symbolic; C answer any int'),
        ob('harness_copier', bounds='installCopier: type name 0..2 symbolic bytes; addresses 64-bit symbolic'),
        ob('harness_remove_all', bounds='2 comparators + 1 copier installed, removeAllComparatorsAndCopiers twice, 1 installed again')]
obs += [ob('harness_set_data_%d' % i, bounds='MockSupport_c.{%s} then C++ getData: value words 64-bit symbolic; names "n0".."n3", type name "T1"' % ', '.join(g)) for i, g in enumerate(DGRP)]
obs += [ob('harness_get_data_%d' % i, bounds='C++ setData/setDataObject counterparts of {%s} then MockSupport_c.getData: value words 64-bit symbolic; names "n0".."n3"' % ', '.join(g)) for i, g in enumerate(DGRP)]
obs += [ob('harness_get_data_missing', bounds='getData of a name never stored'),
        ob('harness_reporter', bounds='one failure reported through the reporter installed by the C interface; test already failed or not (symbolic)', optional_witness=['exit path', 'end'], unwind=90)]

SPEC = {
    'property': 'C19',
    'functions_of_interest': ['_c', 'MockSupport', 'MockCFunction', 'MockFailureReporterForInCOnlyCode'],
    'assumptions': [
        'PER-ENTRY-POINT equivalence with recording doubles: the C++ objects behind the file-static pointers of MockSupport_c.cpp are a RecSupport (MockSupport subclass, installed as scope "d" of the global mock through the public data store and selected with mock_scope_c("d")), RecExpected (MockExpectedCall) and RecActual (MockCheckedActualCall subclass whose returnValue() is configured by the harness; its typed getters run the real MockCheckedActualCall code). The oracle is the table in h19.c written from MockSupport_c.h: C entry point -> same-named C++ method, argument mapping (int -> bool by != 0, everything else bit-identical)',
        'WHOLE-SCENARIO equivalence (same verdict, failure text, output-parameter bytes for a whole mocking scenario) is NOT a solver result here: it follows only by composition of these per-call results with the C++ engine behaving identically for identical call sequences (property C08); failure text and output-parameter copying happen entirely inside the C++ engine and are not re-checked',
        'the value part of the tables (hasReturnValue, returnValue, 24 typed getters) reads the C interface\'s own "current actual call"; the obligations hold for the states in which that call is the MockSupport\'s last actual call (checked call) or, for harness_support_get_*, the ignoring call handed out while mocking is disabled. Not covered (by reading, see report): typed getters of the MockSupport table before any actualCall() through the C interface (NULL dereference) or after clear() (dangling call object), and getters asked on a different scope than the one of the last actualCall()',
        'KF_C19_1 (open finding, -DKF_C19_1 in the group defines): while mocking is disabled / the call is ignored, MockSupport_c.{bool,string,double,pointer,constPointer,functionPointer}ReturnValue answer false/""/0.0/NULL where the C++ MockSupport getters fail the test; these inputs are assumed away in harness_support_get_1/_2; demonstrated on the real engine by finding_disabled_support_getter_{double,string,bool} in h19.c',
        'ENGINE LIMITATION worked around in w19.cpp: ll2c resolves indirect calls by identical LLVM function type and llvm-link keeps the table structs of the two translation units as distinct named types, so table members whose signature mentions MockExpectedCall_c*/MockActualCall_c* are checked as (member == forwarder, by pointer) + (forwarder called directly); members with scalar signatures are called through the table',
        'four entry points per obligation (constant script, own symbolic arguments each) because ~8 s of every obligation is set-up (global constructors, scope registration with the 32-character scope key, mock_scope_c)',
        'pointer-typed arguments/values (strings, buffers, objects, function pointers) are passed as 64-bit symbolic addresses and compared by identity; they are never dereferenced by a forwarder. Names are dereferenced (SimpleString construction): 0..2 symbolic bytes',
        'UT_CRASH / crashOnFailure(true) behaviour of the C failure reporter and real scope creation through mock_scope_c (MockSupport::clone) are not exercised; failure-message formatting renders "#" (vsnprintf stub)'],
    'groups': [{
        'defines': [],
        'name': 'c_api', 'wrapper': 'w19.cpp', 'harness': 'h19.c',
        'config': {'ext': True},
        'obligations': obs + [ob('finding_disabled_support_getter_double', expect='fail', bounds='mocking disabled; actualCall; doubleReturnValue through both interfaces (open known finding KF-C19-1)')],
    }],
}
