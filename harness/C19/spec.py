# C19: the C mocking interface (MockSupport_c.h) forwards every call to the same-named C++ call with the
# same value, and hands every value back with the same value, type tag and defaulting behaviour.
def ob(fn, unwind=40, timeout=300, bounds='', **kw):
    d = {'fn': fn, 'unwind': unwind, 'timeout': timeout, 'bounds': bounds, 'optional_witness': ['exit path'], 'diff_runs': 60,
         # heap objects of the model are 128-byte arrays (MockNamedValue is 80 bytes): keep them field-sensitive
         'cbmc_flags': ['--max-field-sensitivity-array-size', '128']}
    d.update(kw)
    return d

def grp(names, n=4):
    return [names[i:i + n] for i in range(0, len(names), n)]

NAMES = 'parameter/type names: 0..2 symbolic bytes (+NUL) each; function name "f"'
W = 'every argument word 64-bit symbolic (doubles: all bit patterns incl. NaN payloads; pointers/sizes as integers)'
EXP = ['withBoolParameters', 'withIntParameters', 'withUnsignedIntParameters', 'withLongIntParameters', 'withUnsignedLongIntParameters',
       'withLongLongIntParameters', 'withUnsignedLongLongIntParameters', 'withDoubleParameters', 'withDoubleParametersAndTolerance',
       'withStringParameters', 'withPointerParameters', 'withConstPointerParameters', 'withFunctionPointerParameters',
       'withMemoryBufferParameter', 'withParameterOfType', 'withOutputParameterReturning', 'withOutputParameterOfTypeReturning',
       'withUnmodifiedOutputParameter', 'ignoreOtherParameters', 'andReturnBoolValue', 'andReturnUnsignedIntValue', 'andReturnIntValue',
       'andReturnLongIntValue', 'andReturnUnsignedLongIntValue', 'andReturnLongLongIntValue', 'andReturnUnsignedLongLongIntValue',
       'andReturnDoubleValue', 'andReturnStringValue', 'andReturnPointerValue', 'andReturnConstPointerValue', 'andReturnFunctionPointerValue']
ACT = ['withBoolParameters', 'withIntParameters', 'withUnsignedIntParameters', 'withLongIntParameters', 'withUnsignedLongIntParameters',
       'withLongLongIntParameters', 'withUnsignedLongLongIntParameters', 'withDoubleParameters', 'withStringParameters', 'withPointerParameters',
       'withConstPointerParameters', 'withFunctionPointerParameters', 'withMemoryBufferParameter', 'withParameterOfType', 'withOutputParameter',
       'withOutputParameterOfType']
GET = ['bool', 'int', 'unsignedInt', 'longInt', 'unsignedLongInt', 'longLongInt', 'unsignedLongLongInt', 'string', 'double', 'pointer',
       'constPointer', 'functionPointer']
VT = ['bool', 'int', 'unsigned int', 'long int', 'unsigned long int', 'long long int', 'unsigned long long int', 'double', 'const char*',
      'void*', 'const void*', 'void (*)()', 'memory buffer', 'object', 'const object']
SUP = ['strictOrder', 'expectOneCall', 'expectNoCall', 'expectNCalls', 'actualCall', 'disable', 'enable', 'ignoreOtherCalls', 'checkExpectations',
       'expectedCallsLeft', 'clear', 'crashOnFailure']
DATA = ['setBoolData', 'setIntData', 'setUnsignedIntData', 'setStringData', 'setDoubleData', 'setPointerData', 'setConstPointerData',
        'setFunctionPointerData', 'setDataObject', 'setDataConstObject']
DGRP = [DATA[0:4], DATA[4:7], DATA[7:10]]
TBL = ['MockActualCall_c', 'MockSupport_c']

obs = []
# up to four entry points per obligation (each costs ~1-2 s on top of ~8 s of set-up): constants, own symbolic arguments each
obs += [ob('harness_exp_%d' % i, bounds='MockExpectedCall_c.{%s} called in this order on one expectation (expectOneCall("f") ... ignoreOtherParameters()): %s; %s' % (', '.join(g), W, NAMES)) for i, g in enumerate(grp(EXP))]
obs += [ob('harness_act_%d' % i, bounds='MockActualCall_c.{%s} called in this order on one actual call: %s; %s' % (', '.join(g), W, NAMES)) for i, g in enumerate(grp(ACT))]
for tb in range(2):
    T1 = {'tier': 'thorough'} if tb == 1 else {}   # the value part of MockSupport_c is proved identical to MockActualCall_c by harness_shared_members
    for i, g in enumerate(grp(GET)):
        obs.append(ob('harness_get_%d_%d' % (tb, i), bounds='%s.{%s}ReturnValue: each on a stored value of the getter\'s own type, all 64-bit words' % (TBL[tb], ', '.join(g)), **T1))
        for hv, hn in ((1, 'has'), (0, 'none')):
            obs.append(ob('harness_get_default_%d_%s_%d' % (tb, hn, i), bounds='%s.return{%s}ValueOrDefault, call %s return value: stored value and default all 64-bit words' % (TBL[tb], ', '.join(x[0].upper() + x[1:] for x in g), 'has a' if hv else 'has no'), **T1))
            for lv in range(2):
                obs.append(ob('harness_get_default_cpp_%d_%d_%s_%d' % (tb, lv, hn, i), tier='thorough',
                              bounds='%s.return{%s}ValueOrDefault against the C++ ...OrDefault of the %s on the same state (call %s return value): value and default all 64-bit words' % (TBL[tb], ', '.join(x[0].upper() + x[1:] for x in g), ['MockActualCall', 'MockSupport'][lv], 'has a' if hv else 'has no')))
    obs.append(ob('harness_has_%d' % tb, bounds='%s.hasReturnValue for both answers; returnValue() of a call without return value' % TBL[tb], **T1))
    obs += [ob('harness_retval_%d_%d' % (tb, i), bounds='%s.returnValue() for a stored {%s}: all 64-bit words (buffer size symbolic)' % (TBL[tb], ', '.join(g)), **T1) for i, g in enumerate(grp(VT))]
obs += [ob('harness_shared_members', bounds='26 members of MockSupport_c compared with MockActualCall_c (pointer identity)')]
obs += [ob('harness_sup_%d' % i, bounds='MockSupport_c.{%s}: argument word 64-bit symbolic, C++ answer symbolic; function names 0..2 symbolic bytes' % ', '.join(g)) for i, g in enumerate(grp(SUP))]
obs += [ob('harness_scope', bounds='mock_scope_c("d") twice, then mock_c()'),
        ob('harness_comparator', bounds='installComparator: type name and string 0..2 symbolic bytes; object addresses 64-bit symbolic; C answer any int'),
        ob('harness_copier', bounds='installCopier: type name 0..2 symbolic bytes; addresses 64-bit symbolic'),
        ob('harness_remove_all', bounds='2 comparators + 1 copier installed, removeAllComparatorsAndCopiers twice, 1 installed again')]
obs += [ob('harness_set_data_%d' % i, bounds='MockSupport_c.{%s} then C++ getData: value words 64-bit symbolic; names "n0".."n3", type name "T1"' % ', '.join(g)) for i, g in enumerate(DGRP)]
obs += [ob('harness_get_data_%d' % i, bounds='C++ setData/setDataObject counterparts of {%s} then MockSupport_c.getData: value words 64-bit symbolic; names "n0".."n3"' % ', '.join(g)) for i, g in enumerate(DGRP)]
obs += [ob('harness_get_data_missing', bounds='getData of a name never stored'),
        ob('harness_reporter', bounds='one failure reported through the reporter installed by the C interface; test already failed or not (symbolic)', optional_witness=['exit path', 'end'], unwind=90)]

SPEC = {
    'property': 'C19',
    'functions_of_interest': ['_c', 'MockSupport', 'MockCFunction', 'MockFailureReporterForInCOnlyCode'],
    'assumptions': [],
    'groups': [{
        'name': 'c_api', 'wrapper': 'w19.cpp', 'harness': 'h19.c',
        'config': {'ext': True},
        'obligations': obs,
    }],
}
