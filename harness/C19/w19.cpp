// C19 wrapper: every entry point of the three C function tables of MockSupport_c.h is called
// exactly as a C user calls it (through the table returned by mock_scope_c()/mock_c()), while the
// C++ objects behind the file-static pointers of MockSupport_c.cpp (currentMockSupport,
// expectedCall, actualCall) are RECORDING DOUBLES:
//   RecSupport  : MockSupport            - installed as the scope "d" of the global mock through the
//                                          public data store (that is how scopes are stored), so that
//                                          mock_scope_c("d") selects it; records every virtual call;
//                                          the data store and the return-value getters are the REAL
//                                          MockSupport code (they are what mock("d").xxx() runs)
//   RecExpected : MockExpectedCall       - records (method, name, type, value bits)
//   RecActual   : MockCheckedActualCall  - records the with* calls; returnValue() yields the value the
//                                          harness configured, every returnXValue() records its
//                                          identity and then runs the REAL MockCheckedActualCall code
// The harness (h19.c) holds the oracle: the table "C entry point -> same-named C++ call + value".
#define private public
#define protected public
#include "CppUTest/TestHarness.h"
#include "CppUTest/TestOutput.h"
#include "CppUTest/TestResult.h"
#include "CppUTest/PlatformSpecificFunctions.h"
#include "CppUTestExt/MockSupport.h"
#include "CppUTestExt/MockSupport_c.h"

extern "C" {
void h_env_install(void);
void h_exit_hook(void);
}
typedef unsigned long long u64;
typedef void (*fptr_t)();

class CountingOutput : public TestOutput
{
public:
    virtual void printBuffer(const char*) CPPUTEST_OVERRIDE {}
    virtual void flush() CPPUTEST_OVERRIDE {}
    virtual void printFailure(const TestFailure&) CPPUTEST_OVERRIDE {}
};
static TestResult* result_;
static UtestShell* shell_;

// ---------------------------------------------------------------------------------- the record
struct Rec { int obj; int id; u64 name; u64 type; u64 bits; u64 bits2; };
enum { MAXREC = 8 };
static Rec recs[MAXREC];
static int nrec;
static int retvalue_calls;

static u64 pack8(const char* s)
{
    u64 r = 0;
    for (int i = 0; i < 8 && s[i]; i++) r |= (u64)(unsigned char)s[i] << (8 * i);
    return r;
}
static u64 dbits(double d) { union { double d; u64 u; } x; x.d = d; return x.u; }
static double bitsd(u64 u) { union { double d; u64 u; } x; x.u = u; return x.d; }
static void note(int obj, int id, u64 name = 0, u64 type = 0, u64 bits = 0, u64 bits2 = 0)
{
    if (nrec < MAXREC) {
        Rec& r = recs[nrec];
        r.obj = obj; r.id = id; r.name = name; r.type = type; r.bits = bits; r.bits2 = bits2;
    }
    nrec++;
}
#define NM(s) pack8((s).asCharString())

#include "ids19.h"

// ---------------------------------------------------------------------------------- doubles
class RecExpected : public MockExpectedCall
{
public:
    int obj; RecExpected* next;
    RecExpected(int o) : obj(o), next(this) {}
    MockExpectedCall& n(int id, u64 name = 0, u64 type = 0, u64 bits = 0, u64 bits2 = 0) { note(obj, id, name, type, bits, bits2); return *next; }

    virtual MockExpectedCall& withName(const SimpleString& name) CPPUTEST_OVERRIDE { return n(E_withName, NM(name)); }
    virtual MockExpectedCall& withCallOrder(unsigned int a) CPPUTEST_OVERRIDE { return n(E_withCallOrder1, 0, 0, a); }
    virtual MockExpectedCall& withCallOrder(unsigned int a, unsigned int b) CPPUTEST_OVERRIDE { return n(E_withCallOrder2, 0, 0, a, b); }
    virtual MockExpectedCall& withParameterOfType(const SimpleString& typeName, const SimpleString& name, const void* value) CPPUTEST_OVERRIDE { return n(E_withParameterOfType, NM(name), NM(typeName), (u64)value); }
    virtual MockExpectedCall& withOutputParameterReturning(const SimpleString& name, const void* value, size_t size) CPPUTEST_OVERRIDE { return n(E_withOutputParameterReturning, NM(name), 0, (u64)value, (u64)size); }
    virtual MockExpectedCall& withOutputParameterOfTypeReturning(const SimpleString& typeName, const SimpleString& name, const void* value) CPPUTEST_OVERRIDE { return n(E_withOutputParameterOfTypeReturning, NM(name), NM(typeName), (u64)value); }
    virtual MockExpectedCall& withUnmodifiedOutputParameter(const SimpleString& name) CPPUTEST_OVERRIDE { return n(E_withUnmodifiedOutputParameter, NM(name)); }
    virtual MockExpectedCall& ignoreOtherParameters() CPPUTEST_OVERRIDE { return n(E_ignoreOtherParameters); }

    virtual MockExpectedCall& withBoolParameter(const SimpleString& name, bool value) CPPUTEST_OVERRIDE { return n(E_withBool, NM(name), 0, value ? 1 : 0); }
    virtual MockExpectedCall& withIntParameter(const SimpleString& name, int value) CPPUTEST_OVERRIDE { return n(E_withInt, NM(name), 0, (u64)(long long)value); }
    virtual MockExpectedCall& withUnsignedIntParameter(const SimpleString& name, unsigned int value) CPPUTEST_OVERRIDE { return n(E_withUnsignedInt, NM(name), 0, (u64)value); }
    virtual MockExpectedCall& withLongIntParameter(const SimpleString& name, long int value) CPPUTEST_OVERRIDE { return n(E_withLongInt, NM(name), 0, (u64)(long long)value); }
    virtual MockExpectedCall& withUnsignedLongIntParameter(const SimpleString& name, unsigned long int value) CPPUTEST_OVERRIDE { return n(E_withUnsignedLongInt, NM(name), 0, (u64)value); }
    virtual MockExpectedCall& withLongLongIntParameter(const SimpleString& name, cpputest_longlong value) CPPUTEST_OVERRIDE { return n(E_withLongLongInt, NM(name), 0, (u64)value); }
    virtual MockExpectedCall& withUnsignedLongLongIntParameter(const SimpleString& name, cpputest_ulonglong value) CPPUTEST_OVERRIDE { return n(E_withUnsignedLongLongInt, NM(name), 0, (u64)value); }
    virtual MockExpectedCall& withDoubleParameter(const SimpleString& name, double value) CPPUTEST_OVERRIDE { return n(E_withDouble, NM(name), 0, dbits(value)); }
    virtual MockExpectedCall& withDoubleParameter(const SimpleString& name, double value, double tolerance) CPPUTEST_OVERRIDE { return n(E_withDoubleTol, NM(name), 0, dbits(value), dbits(tolerance)); }
    virtual MockExpectedCall& withStringParameter(const SimpleString& name, const char* value) CPPUTEST_OVERRIDE { return n(E_withString, NM(name), 0, (u64)value); }
    virtual MockExpectedCall& withPointerParameter(const SimpleString& name, void* value) CPPUTEST_OVERRIDE { return n(E_withPointer, NM(name), 0, (u64)value); }
    virtual MockExpectedCall& withFunctionPointerParameter(const SimpleString& name, void (*value)()) CPPUTEST_OVERRIDE { return n(E_withFunctionPointer, NM(name), 0, (u64)value); }
    virtual MockExpectedCall& withConstPointerParameter(const SimpleString& name, const void* value) CPPUTEST_OVERRIDE { return n(E_withConstPointer, NM(name), 0, (u64)value); }
    virtual MockExpectedCall& withMemoryBufferParameter(const SimpleString& name, const unsigned char* value, size_t size) CPPUTEST_OVERRIDE { return n(E_withMemoryBuffer, NM(name), 0, (u64)value, (u64)size); }
    virtual MockExpectedCall& andReturnValue(bool value) CPPUTEST_OVERRIDE { return n(E_retBool, 0, 0, value ? 1 : 0); }
    virtual MockExpectedCall& andReturnValue(int value) CPPUTEST_OVERRIDE { return n(E_retInt, 0, 0, (u64)(long long)value); }
    virtual MockExpectedCall& andReturnValue(unsigned int value) CPPUTEST_OVERRIDE { return n(E_retUnsignedInt, 0, 0, (u64)value); }
    virtual MockExpectedCall& andReturnValue(long int value) CPPUTEST_OVERRIDE { return n(E_retLongInt, 0, 0, (u64)(long long)value); }
    virtual MockExpectedCall& andReturnValue(unsigned long int value) CPPUTEST_OVERRIDE { return n(E_retUnsignedLongInt, 0, 0, (u64)value); }
    virtual MockExpectedCall& andReturnValue(cpputest_longlong value) CPPUTEST_OVERRIDE { return n(E_retLongLongInt, 0, 0, (u64)value); }
    virtual MockExpectedCall& andReturnValue(cpputest_ulonglong value) CPPUTEST_OVERRIDE { return n(E_retUnsignedLongLongInt, 0, 0, (u64)value); }
    virtual MockExpectedCall& andReturnValue(double value) CPPUTEST_OVERRIDE { return n(E_retDouble, 0, 0, dbits(value)); }
    virtual MockExpectedCall& andReturnValue(const char* value) CPPUTEST_OVERRIDE { return n(E_retString, 0, 0, (u64)value); }
    virtual MockExpectedCall& andReturnValue(void* value) CPPUTEST_OVERRIDE { return n(E_retPointer, 0, 0, (u64)value); }
    virtual MockExpectedCall& andReturnValue(const void* value) CPPUTEST_OVERRIDE { return n(E_retConstPointer, 0, 0, (u64)value); }
    virtual MockExpectedCall& andReturnValue(void (*value)()) CPPUTEST_OVERRIDE { return n(E_retFunctionPointer, 0, 0, (u64)value); }
    virtual MockExpectedCall& onObject(void* objectPtr) CPPUTEST_OVERRIDE { return n(E_onObject, 0, 0, (u64)objectPtr); }
};

static MockExpectedCallsList noExpectations_;

class RecActual : public MockCheckedActualCall
{
public:
    int obj; RecActual* next; MockNamedValue ret_;
    RecActual(int o) : MockCheckedActualCall(1, NULLPTR, noExpectations_), obj(o), next(this), ret_("") {}
    MockActualCall& n(int id, u64 name = 0, u64 type = 0, u64 bits = 0, u64 bits2 = 0) { note(obj, id, name, type, bits, bits2); return *next; }

    virtual MockActualCall& withParameterOfType(const SimpleString& typeName, const SimpleString& name, const void* value) CPPUTEST_OVERRIDE { return n(A_withParameterOfType, NM(name), NM(typeName), (u64)value); }
    virtual MockActualCall& withOutputParameter(const SimpleString& name, void* output) CPPUTEST_OVERRIDE { return n(A_withOutputParameter, NM(name), 0, (u64)output); }
    virtual MockActualCall& withOutputParameterOfType(const SimpleString& typeName, const SimpleString& name, void* output) CPPUTEST_OVERRIDE { return n(A_withOutputParameterOfType, NM(name), NM(typeName), (u64)output); }
    virtual MockActualCall& withBoolParameter(const SimpleString& name, bool value) CPPUTEST_OVERRIDE { return n(A_withBool, NM(name), 0, value ? 1 : 0); }
    virtual MockActualCall& withIntParameter(const SimpleString& name, int value) CPPUTEST_OVERRIDE { return n(A_withInt, NM(name), 0, (u64)(long long)value); }
    virtual MockActualCall& withUnsignedIntParameter(const SimpleString& name, unsigned int value) CPPUTEST_OVERRIDE { return n(A_withUnsignedInt, NM(name), 0, (u64)value); }
    virtual MockActualCall& withLongIntParameter(const SimpleString& name, long int value) CPPUTEST_OVERRIDE { return n(A_withLongInt, NM(name), 0, (u64)(long long)value); }
    virtual MockActualCall& withUnsignedLongIntParameter(const SimpleString& name, unsigned long int value) CPPUTEST_OVERRIDE { return n(A_withUnsignedLongInt, NM(name), 0, (u64)value); }
    virtual MockActualCall& withLongLongIntParameter(const SimpleString& name, cpputest_longlong value) CPPUTEST_OVERRIDE { return n(A_withLongLongInt, NM(name), 0, (u64)value); }
    virtual MockActualCall& withUnsignedLongLongIntParameter(const SimpleString& name, cpputest_ulonglong value) CPPUTEST_OVERRIDE { return n(A_withUnsignedLongLongInt, NM(name), 0, (u64)value); }
    virtual MockActualCall& withDoubleParameter(const SimpleString& name, double value) CPPUTEST_OVERRIDE { return n(A_withDouble, NM(name), 0, dbits(value)); }
    virtual MockActualCall& withStringParameter(const SimpleString& name, const char* value) CPPUTEST_OVERRIDE { return n(A_withString, NM(name), 0, (u64)value); }
    virtual MockActualCall& withPointerParameter(const SimpleString& name, void* value) CPPUTEST_OVERRIDE { return n(A_withPointer, NM(name), 0, (u64)value); }
    virtual MockActualCall& withFunctionPointerParameter(const SimpleString& name, void (*value)()) CPPUTEST_OVERRIDE { return n(A_withFunctionPointer, NM(name), 0, (u64)value); }
    virtual MockActualCall& withConstPointerParameter(const SimpleString& name, const void* value) CPPUTEST_OVERRIDE { return n(A_withConstPointer, NM(name), 0, (u64)value); }
    virtual MockActualCall& withMemoryBufferParameter(const SimpleString& name, const unsigned char* value, size_t size) CPPUTEST_OVERRIDE { return n(A_withMemoryBuffer, NM(name), 0, (u64)value, (u64)size); }

    // the value the "engine" answers with: configured by the harness (name "" = the call has no return value)
    virtual MockNamedValue returnValue() CPPUTEST_OVERRIDE { retvalue_calls++; return ret_; }
    // identity of the getter the C forwarder chose, then the real getter code
    virtual bool hasReturnValue() CPPUTEST_OVERRIDE { note(obj, A_hasReturnValue); return MockCheckedActualCall::hasReturnValue(); }
    virtual bool returnBoolValueOrDefault(bool d) CPPUTEST_OVERRIDE { note(obj, A_getBoolOrDefault); return MockCheckedActualCall::returnBoolValueOrDefault(d); }
    virtual bool returnBoolValue() CPPUTEST_OVERRIDE { note(obj, A_getBool); return MockCheckedActualCall::returnBoolValue(); }
    virtual int returnIntValueOrDefault(int d) CPPUTEST_OVERRIDE { note(obj, A_getIntOrDefault); return MockCheckedActualCall::returnIntValueOrDefault(d); }
    virtual int returnIntValue() CPPUTEST_OVERRIDE { note(obj, A_getInt); return MockCheckedActualCall::returnIntValue(); }
    virtual unsigned long int returnUnsignedLongIntValue() CPPUTEST_OVERRIDE { note(obj, A_getUnsignedLongInt); return MockCheckedActualCall::returnUnsignedLongIntValue(); }
    virtual unsigned long int returnUnsignedLongIntValueOrDefault(unsigned long int d) CPPUTEST_OVERRIDE { note(obj, A_getUnsignedLongIntOrDefault); return MockCheckedActualCall::returnUnsignedLongIntValueOrDefault(d); }
    virtual long int returnLongIntValue() CPPUTEST_OVERRIDE { note(obj, A_getLongInt); return MockCheckedActualCall::returnLongIntValue(); }
    virtual long int returnLongIntValueOrDefault(long int d) CPPUTEST_OVERRIDE { note(obj, A_getLongIntOrDefault); return MockCheckedActualCall::returnLongIntValueOrDefault(d); }
    virtual cpputest_ulonglong returnUnsignedLongLongIntValue() CPPUTEST_OVERRIDE { note(obj, A_getUnsignedLongLongInt); return MockCheckedActualCall::returnUnsignedLongLongIntValue(); }
    virtual cpputest_ulonglong returnUnsignedLongLongIntValueOrDefault(cpputest_ulonglong d) CPPUTEST_OVERRIDE { note(obj, A_getUnsignedLongLongIntOrDefault); return MockCheckedActualCall::returnUnsignedLongLongIntValueOrDefault(d); }
    virtual cpputest_longlong returnLongLongIntValue() CPPUTEST_OVERRIDE { note(obj, A_getLongLongInt); return MockCheckedActualCall::returnLongLongIntValue(); }
    virtual cpputest_longlong returnLongLongIntValueOrDefault(cpputest_longlong d) CPPUTEST_OVERRIDE { note(obj, A_getLongLongIntOrDefault); return MockCheckedActualCall::returnLongLongIntValueOrDefault(d); }
    virtual unsigned int returnUnsignedIntValue() CPPUTEST_OVERRIDE { note(obj, A_getUnsignedInt); return MockCheckedActualCall::returnUnsignedIntValue(); }
    virtual unsigned int returnUnsignedIntValueOrDefault(unsigned int d) CPPUTEST_OVERRIDE { note(obj, A_getUnsignedIntOrDefault); return MockCheckedActualCall::returnUnsignedIntValueOrDefault(d); }
    virtual const char* returnStringValueOrDefault(const char* d) CPPUTEST_OVERRIDE { note(obj, A_getStringOrDefault); return MockCheckedActualCall::returnStringValueOrDefault(d); }
    virtual const char* returnStringValue() CPPUTEST_OVERRIDE { note(obj, A_getString); return MockCheckedActualCall::returnStringValue(); }
    virtual double returnDoubleValue() CPPUTEST_OVERRIDE { note(obj, A_getDouble); return MockCheckedActualCall::returnDoubleValue(); }
    virtual double returnDoubleValueOrDefault(double d) CPPUTEST_OVERRIDE { note(obj, A_getDoubleOrDefault); return MockCheckedActualCall::returnDoubleValueOrDefault(d); }
    virtual const void* returnConstPointerValue() CPPUTEST_OVERRIDE { note(obj, A_getConstPointer); return MockCheckedActualCall::returnConstPointerValue(); }
    virtual const void* returnConstPointerValueOrDefault(const void* d) CPPUTEST_OVERRIDE { note(obj, A_getConstPointerOrDefault); return MockCheckedActualCall::returnConstPointerValueOrDefault(d); }
    virtual void* returnPointerValue() CPPUTEST_OVERRIDE { note(obj, A_getPointer); return MockCheckedActualCall::returnPointerValue(); }
    virtual void* returnPointerValueOrDefault(void* d) CPPUTEST_OVERRIDE { note(obj, A_getPointerOrDefault); return MockCheckedActualCall::returnPointerValueOrDefault(d); }
    virtual FunctionPointerReturnValue returnFunctionPointerValue() CPPUTEST_OVERRIDE { note(obj, A_getFunctionPointer); return MockCheckedActualCall::returnFunctionPointerValue(); }
    virtual FunctionPointerReturnValue returnFunctionPointerValueOrDefault(void (*d)()) CPPUTEST_OVERRIDE { note(obj, A_getFunctionPointerOrDefault); return MockCheckedActualCall::returnFunctionPointerValueOrDefault(d); }
};

static RecExpected expA(O_EXP_A), expB(O_EXP_B);
static RecActual actA(O_ACT_A), actB(O_ACT_B);
static int callsLeftAnswer;
static int ignoredMode;   // 1: the support answers actualCall() as the real one does while mocking is disabled
static MockFailureReporter* reporterSeen;
static MockNamedValueComparator* comparatorSeen;
static MockNamedValueCopier* copierSeen;

class RecSupport : public MockSupport
{
public:
    RecSupport() : MockSupport("d") {}
    virtual void strictOrder() CPPUTEST_OVERRIDE { note(O_SUP, S_strictOrder); }
    virtual MockExpectedCall& expectOneCall(const SimpleString& functionName) CPPUTEST_OVERRIDE { note(O_SUP, S_expectOneCall, NM(functionName)); return expA; }
    virtual void expectNoCall(const SimpleString& functionName) CPPUTEST_OVERRIDE { note(O_SUP, S_expectNoCall, NM(functionName)); }
    virtual MockExpectedCall& expectNCalls(unsigned int amount, const SimpleString& functionName) CPPUTEST_OVERRIDE { note(O_SUP, S_expectNCalls, NM(functionName), 0, amount); return expA; }
    // like the real createActualCall(): the call handed out is the support's "last actual call"
    virtual MockActualCall& actualCall(const SimpleString& functionName) CPPUTEST_OVERRIDE
    {
        note(O_SUP, S_actualCall, NM(functionName));
        // MockSupport::actualCall with enabled_ == false: no "last actual call", the shared ignoring call object is handed out
        if (ignoredMode) { lastActualFunctionCall_ = NULLPTR; return MockIgnoredActualCall::instance(); }
        lastActualFunctionCall_ = &actA;
        return actA;
    }
    virtual void disable() CPPUTEST_OVERRIDE { note(O_SUP, S_disable); }
    virtual void enable() CPPUTEST_OVERRIDE { note(O_SUP, S_enable); }
    virtual void tracing(bool enabled) CPPUTEST_OVERRIDE { note(O_SUP, S_tracing, 0, 0, enabled ? 1 : 0); }
    virtual void ignoreOtherCalls() CPPUTEST_OVERRIDE { note(O_SUP, S_ignoreOtherCalls); }
    virtual void checkExpectations() CPPUTEST_OVERRIDE { note(O_SUP, S_checkExpectations); }
    virtual bool expectedCallsLeft() CPPUTEST_OVERRIDE { note(O_SUP, S_expectedCallsLeft); return callsLeftAnswer != 0; }
    virtual void clear() CPPUTEST_OVERRIDE { note(O_SUP, S_clear); }
    virtual void crashOnFailure(bool shouldFail) CPPUTEST_OVERRIDE { note(O_SUP, S_crashOnFailure, 0, 0, shouldFail ? 1 : 0); }
    virtual void setActiveReporter(MockFailureReporter* r) CPPUTEST_OVERRIDE { note(O_SUP, S_setActiveReporter, 0, 0, r != NULLPTR); reporterSeen = r; MockSupport::setActiveReporter(r); }
    virtual void setDefaultComparatorsAndCopiersRepository() CPPUTEST_OVERRIDE { note(O_SUP, S_setDefaultRepository); }
    virtual void installComparator(const SimpleString& typeName, MockNamedValueComparator& comparator) CPPUTEST_OVERRIDE { note(O_SUP, S_installComparator, NM(typeName)); comparatorSeen = &comparator; }
    virtual void installCopier(const SimpleString& typeName, MockNamedValueCopier& copier) CPPUTEST_OVERRIDE { note(O_SUP, S_installCopier, NM(typeName)); copierSeen = &copier; }
    virtual void removeAllComparatorsAndCopiers() CPPUTEST_OVERRIDE { note(O_SUP, S_removeAllComparatorsAndCopiers); }
};
static RecSupport sup;

static MockSupport_c* ms;          // what mock_scope_c("d") returned
static MockExpectedCall_c* ec;     // what ms->expectOneCall returned
static MockActualCall_c* ac;       // what ms->actualCall returned
static MockValue_c mv;             // last MockValue_c returned by the C side

// ENGINE NOTE (ll2c): an indirect call is translated to an if-chain over address-taken functions of
// IDENTICAL LLVM function type.  llvm-link keeps the C table structs of this file and of
// MockSupport_c.cpp as two distinct named types (%struct.SMockExpectedCall_c / ...c.276), so a call
// through a table member whose signature mentions MockExpectedCall_c* / MockActualCall_c* finds no
// candidate.  Those members are therefore checked in two steps that together say the same thing:
// (1) the table member IS the forwarder `fn` (pointer comparison, recorded in wiring_bad), (2) `fn`
// called directly behaves as required.  Members with scalar signatures are called through the table.
extern "C" {
MockExpectedCall_c* expectOneCall_c(const char* name);
MockExpectedCall_c* expectNCalls_c(const unsigned int number, const char* name);
MockActualCall_c* actualCall_c(const char* name);
MockExpectedCall_c* withBoolParameters_c(const char* name, int value);
MockExpectedCall_c* withIntParameters_c(const char* name, int value);
MockExpectedCall_c* withUnsignedIntParameters_c(const char* name, unsigned int value);
MockExpectedCall_c* withLongIntParameters_c(const char* name, long int value);
MockExpectedCall_c* withUnsignedLongIntParameters_c(const char* name, unsigned long int value);
MockExpectedCall_c* withLongLongIntParameters_c(const char* name, cpputest_longlong value);
MockExpectedCall_c* withUnsignedLongLongIntParameters_c(const char* name, cpputest_ulonglong value);
MockExpectedCall_c* withDoubleParameters_c(const char* name, double value);
MockExpectedCall_c* withDoubleParametersAndTolerance_c(const char* name, double value, double tolerance);
MockExpectedCall_c* withStringParameters_c(const char* name, const char* value);
MockExpectedCall_c* withPointerParameters_c(const char* name, void* value);
MockExpectedCall_c* withConstPointerParameters_c(const char* name, const void* value);
MockExpectedCall_c* withFunctionPointerParameters_c(const char* name, void (*value)());
MockExpectedCall_c* withMemoryBufferParameters_c(const char* name, const unsigned char* value, size_t size);
MockExpectedCall_c* withParameterOfType_c(const char* type, const char* name, const void* value);
MockExpectedCall_c* withOutputParameterReturning_c(const char* name, const void* value, size_t size);
MockExpectedCall_c* withOutputParameterOfTypeReturning_c(const char* type, const char* name, const void* value);
MockExpectedCall_c* withUnmodifiedOutputParameter_c(const char* name);
MockExpectedCall_c* ignoreOtherParameters_c();
MockExpectedCall_c* andReturnBoolValue_c(int value);
MockExpectedCall_c* andReturnIntValue_c(int value);
MockExpectedCall_c* andReturnUnsignedIntValue_c(unsigned int value);
MockExpectedCall_c* andReturnLongIntValue_c(long int value);
MockExpectedCall_c* andReturnUnsignedLongIntValue_c(unsigned long int value);
MockExpectedCall_c* andReturnLongLongIntValue_c(cpputest_longlong value);
MockExpectedCall_c* andReturnUnsignedLongLongIntValue_c(cpputest_ulonglong value);
MockExpectedCall_c* andReturnDoubleValue_c(double value);
MockExpectedCall_c* andReturnStringValue_c(const char* value);
MockExpectedCall_c* andReturnPointerValue_c(void* value);
MockExpectedCall_c* andReturnConstPointerValue_c(const void* value);
MockExpectedCall_c* andReturnFunctionPointerValue_c(void (*value)());
MockActualCall_c* withActualBoolParameters_c(const char* name, int value);
MockActualCall_c* withActualIntParameters_c(const char* name, int value);
MockActualCall_c* withActualUnsignedIntParameters_c(const char* name, unsigned int value);
MockActualCall_c* withActualLongIntParameters_c(const char* name, long int value);
MockActualCall_c* withActualUnsignedLongIntParameters_c(const char* name, unsigned long int value);
MockActualCall_c* withActualLongLongIntParameters_c(const char* name, cpputest_longlong value);
MockActualCall_c* withActualUnsignedLongLongIntParameters_c(const char* name, cpputest_ulonglong value);
MockActualCall_c* withActualDoubleParameters_c(const char* name, double value);
MockActualCall_c* withActualStringParameters_c(const char* name, const char* value);
MockActualCall_c* withActualPointerParameters_c(const char* name, void* value);
MockActualCall_c* withActualConstPointerParameters_c(const char* name, const void* value);
MockActualCall_c* withActualFunctionPointerParameters_c(const char* name, void (*value)());
MockActualCall_c* withActualMemoryBufferParameters_c(const char* name, const unsigned char* value, size_t size);
MockActualCall_c* withActualParameterOfType_c(const char* type, const char* name, const void* value);
MockActualCall_c* withActualOutputParameter_c(const char* name, void* value);
MockActualCall_c* withActualOutputParameterOfType_c(const char* type, const char* name, void* value);
}
static int wiring_bad;
#define VIA(table, member, fn) (wiring_bad |= ((table)->member != fn), fn)

// C callbacks for installComparator / installCopier
static int cbEqualAnswer;
static const char* cbStringAnswer = "";
extern "C" {
static int cb_equal(const void* a, const void* b) { note(O_CB, C_equal, 0, 0, (u64)a, (u64)b); return cbEqualAnswer; }
static const char* cb_to_string(const void* a) { note(O_CB, C_toString, 0, 0, (u64)a); return cbStringAnswer; }
static void cb_copy(void* dst, const void* src) { note(O_CB, C_copy, 0, 0, (u64)dst, (u64)src); }
}

extern "C" {
// ------------------------------------------------------------------------------ set-up / read-back
void h_init(void)
{
    static CountingOutput out;
    static TestResult result(out);
    static UtestShell shell("group", "name", "file.cpp", 7);
    h_env_install();
    PlatformSpecificLongJmp = h_exit_hook;
    result_ = &result; shell_ = &shell;
    shell.setTestResult(&result);
    shell.setCurrentTest(&shell);
    // register the recording MockSupport as scope "d" of the global mock: scopes live in the data store
    mock().setDataObject("!!!$$$MockingSupportScope$$$!!!d", "MockSupport", &sup);
    // every recorded call answers with a DIFFERENT object, so that the forwarder's "current call" update is observable
    expA.next = &expB; expB.next = &expA; actA.next = &actB; actB.next = &actA;
    nrec = 0;
}
// the C user's first step: select the scope. Everything after goes through the returned table.
int h_enter(void) { ms = mock_scope_c("d"); return ms != 0; }
int h_enter_again(void) { return mock_scope_c("d") == ms; }
void h_clear_records(void) { nrec = 0; retvalue_calls = 0; }
int h_wiring_bad(void) { return wiring_bad; }
unsigned long h_failures(void) { return result_->getFailureCount(); }
int h_nrec(void) { return nrec; }
int h_rec_obj(int i) { return recs[i].obj; }
int h_rec_id(int i) { return recs[i].id; }
u64 h_rec_name(int i) { return recs[i].name; }
u64 h_rec_type(int i) { return recs[i].type; }
u64 h_rec_bits(int i) { return recs[i].bits; }
u64 h_rec_bits2(int i) { return recs[i].bits2; }
int h_retvalue_calls(void) { return retvalue_calls; }

// ------------------------------------------------------------------------------ MockExpectedCall_c
// C entry points in the order of struct SMockExpectedCall_c; a, b: integer/pointer/size argument words,
// d, d2: double arguments. Returns 1 iff the table pointer handed back is the one handed out before.
int h_expect_one(const char* fname) { ec = VIA(ms, expectOneCall, expectOneCall_c)(fname); return ec != 0; }
int h_exp(int kind, const char* name, const char* type, u64 a, u64 b, double d, double d2)
{
    MockExpectedCall_c* r;
    switch (kind) {
    case 0: r = VIA(ec, withBoolParameters, withBoolParameters_c)(name, (int)a); break;
    case 1: r = VIA(ec, withIntParameters, withIntParameters_c)(name, (int)a); break;
    case 2: r = VIA(ec, withUnsignedIntParameters, withUnsignedIntParameters_c)(name, (unsigned int)a); break;
    case 3: r = VIA(ec, withLongIntParameters, withLongIntParameters_c)(name, (long int)a); break;
    case 4: r = VIA(ec, withUnsignedLongIntParameters, withUnsignedLongIntParameters_c)(name, (unsigned long int)a); break;
    case 5: r = VIA(ec, withLongLongIntParameters, withLongLongIntParameters_c)(name, (long long)a); break;
    case 6: r = VIA(ec, withUnsignedLongLongIntParameters, withUnsignedLongLongIntParameters_c)(name, (unsigned long long)a); break;
    case 7: r = VIA(ec, withDoubleParameters, withDoubleParameters_c)(name, d); break;
    case 8: r = VIA(ec, withDoubleParametersAndTolerance, withDoubleParametersAndTolerance_c)(name, d, d2); break;
    case 9: r = VIA(ec, withStringParameters, withStringParameters_c)(name, (const char*)a); break;
    case 10: r = VIA(ec, withPointerParameters, withPointerParameters_c)(name, (void*)a); break;
    case 11: r = VIA(ec, withConstPointerParameters, withConstPointerParameters_c)(name, (const void*)a); break;
    case 12: r = VIA(ec, withFunctionPointerParameters, withFunctionPointerParameters_c)(name, (fptr_t)a); break;
    case 13: r = VIA(ec, withMemoryBufferParameter, withMemoryBufferParameters_c)(name, (const unsigned char*)a, (size_t)b); break;
    case 14: r = VIA(ec, withParameterOfType, withParameterOfType_c)(type, name, (const void*)a); break;
    case 15: r = VIA(ec, withOutputParameterReturning, withOutputParameterReturning_c)(name, (const void*)a, (size_t)b); break;
    case 16: r = VIA(ec, withOutputParameterOfTypeReturning, withOutputParameterOfTypeReturning_c)(type, name, (const void*)a); break;
    case 17: r = VIA(ec, withUnmodifiedOutputParameter, withUnmodifiedOutputParameter_c)(name); break;
    case 18: r = VIA(ec, ignoreOtherParameters, ignoreOtherParameters_c)(); break;
    case 19: r = VIA(ec, andReturnBoolValue, andReturnBoolValue_c)((int)a); break;
    case 20: r = VIA(ec, andReturnUnsignedIntValue, andReturnUnsignedIntValue_c)((unsigned int)a); break;
    case 21: r = VIA(ec, andReturnIntValue, andReturnIntValue_c)((int)a); break;
    case 22: r = VIA(ec, andReturnLongIntValue, andReturnLongIntValue_c)((long int)a); break;
    case 23: r = VIA(ec, andReturnUnsignedLongIntValue, andReturnUnsignedLongIntValue_c)((unsigned long int)a); break;
    case 24: r = VIA(ec, andReturnLongLongIntValue, andReturnLongLongIntValue_c)((long long)a); break;
    case 25: r = VIA(ec, andReturnUnsignedLongLongIntValue, andReturnUnsignedLongLongIntValue_c)((unsigned long long)a); break;
    case 26: r = VIA(ec, andReturnDoubleValue, andReturnDoubleValue_c)(d); break;
    case 27: r = VIA(ec, andReturnStringValue, andReturnStringValue_c)((const char*)a); break;
    case 28: r = VIA(ec, andReturnPointerValue, andReturnPointerValue_c)((void*)a); break;
    case 29: r = VIA(ec, andReturnConstPointerValue, andReturnConstPointerValue_c)((const void*)a); break;
    default: r = VIA(ec, andReturnFunctionPointerValue, andReturnFunctionPointerValue_c)((fptr_t)a); break;
    }
    return r == ec;
}

// ------------------------------------------------------------------------------ MockActualCall_c: parameters
int h_actual(const char* fname) { ac = VIA(ms, actualCall, actualCall_c)(fname); return ac != 0; }
int h_act(int kind, const char* name, const char* type, u64 a, u64 b, double d)
{
    MockActualCall_c* r;
    switch (kind) {
    case 0: r = VIA(ac, withBoolParameters, withActualBoolParameters_c)(name, (int)a); break;
    case 1: r = VIA(ac, withIntParameters, withActualIntParameters_c)(name, (int)a); break;
    case 2: r = VIA(ac, withUnsignedIntParameters, withActualUnsignedIntParameters_c)(name, (unsigned int)a); break;
    case 3: r = VIA(ac, withLongIntParameters, withActualLongIntParameters_c)(name, (long int)a); break;
    case 4: r = VIA(ac, withUnsignedLongIntParameters, withActualUnsignedLongIntParameters_c)(name, (unsigned long int)a); break;
    case 5: r = VIA(ac, withLongLongIntParameters, withActualLongLongIntParameters_c)(name, (long long)a); break;
    case 6: r = VIA(ac, withUnsignedLongLongIntParameters, withActualUnsignedLongLongIntParameters_c)(name, (unsigned long long)a); break;
    case 7: r = VIA(ac, withDoubleParameters, withActualDoubleParameters_c)(name, d); break;
    case 8: r = VIA(ac, withStringParameters, withActualStringParameters_c)(name, (const char*)a); break;
    case 9: r = VIA(ac, withPointerParameters, withActualPointerParameters_c)(name, (void*)a); break;
    case 10: r = VIA(ac, withConstPointerParameters, withActualConstPointerParameters_c)(name, (const void*)a); break;
    case 11: r = VIA(ac, withFunctionPointerParameters, withActualFunctionPointerParameters_c)(name, (fptr_t)a); break;
    case 12: r = VIA(ac, withMemoryBufferParameter, withActualMemoryBufferParameters_c)(name, (const unsigned char*)a, (size_t)b); break;
    case 13: r = VIA(ac, withParameterOfType, withActualParameterOfType_c)(type, name, (const void*)a); break;
    case 14: r = VIA(ac, withOutputParameter, withActualOutputParameter_c)(name, (void*)a); break;
    default: r = VIA(ac, withOutputParameterOfType, withActualOutputParameterOfType_c)(type, name, (void*)a); break;
    }
    return r == ac;
}

// ------------------------------------------------------------------------------ return values
// value type codes t: 0 bool 1 int 2 unsigned 3 long 4 unsigned long 5 long long 6 unsigned long long
//                     7 double 8 string 9 void* 10 const void* 11 function pointer 12 memory buffer
//                     13 object 14 const object
static void setByCode(MockNamedValue& v, int t, u64 a, u64 b, double d)
{
    switch (t) {
    case 0: v.setValue(a != 0); break;
    case 1: v.setValue((int)a); break;
    case 2: v.setValue((unsigned int)a); break;
    case 3: v.setValue((long int)a); break;
    case 4: v.setValue((unsigned long int)a); break;
    case 5: v.setValue((long long)a); break;
    case 6: v.setValue((unsigned long long)a); break;
    case 7: v.setValue(d); break;
    case 8: v.setValue((const char*)a); break;
    case 9: v.setValue((void*)a); break;
    case 10: v.setValue((const void*)a); break;
    case 11: v.setValue((fptr_t)a); break;
    case 12: v.setMemoryBuffer((const unsigned char*)a, (size_t)b); break;
    case 13: v.setObjectPointer("T", (void*)a); break;
    default: v.setConstObjectPointer("T", (const void*)a); break;
    }
}
// what the C++ engine would answer for the current actual call: a value of type t (has != 0) or nothing
void h_ret_setup(int t, u64 a, u64 b, double d, int has)
{
    actA.ret_.setName(has ? "returnValue" : "");
    if (has) setByCode(actA.ret_, t, a, b, d);
}
// getter codes g: 0 bool 1 int 2 unsigned 3 long 4 unsigned long 5 long long 6 unsigned long long
//                 7 string 8 double 9 void* 10 const void* 11 function pointer
// table: 0 = MockActualCall_c (ac->...), 1 = MockSupport_c (ms->...). Result as a 64-bit word
// (signed results sign-extended, doubles as their bit pattern).
u64 h_get(int table, int g)
{
    if (table == 0) switch (g) {
    case 0: return (u64)(long long)ac->boolReturnValue();
    case 1: return (u64)(long long)ac->intReturnValue();
    case 2: return (u64)ac->unsignedIntReturnValue();
    case 3: return (u64)(long long)ac->longIntReturnValue();
    case 4: return (u64)ac->unsignedLongIntReturnValue();
    case 5: return (u64)ac->longLongIntReturnValue();
    case 6: return (u64)ac->unsignedLongLongIntReturnValue();
    case 7: return (u64)ac->stringReturnValue();
    case 8: return dbits(ac->doubleReturnValue());
    case 9: return (u64)ac->pointerReturnValue();
    case 10: return (u64)ac->constPointerReturnValue();
    default: return (u64)ac->functionPointerReturnValue();
    }
    switch (g) {
    case 0: return (u64)(long long)ms->boolReturnValue();
    case 1: return (u64)(long long)ms->intReturnValue();
    case 2: return (u64)ms->unsignedIntReturnValue();
    case 3: return (u64)(long long)ms->longIntReturnValue();
    case 4: return (u64)ms->unsignedLongIntReturnValue();
    case 5: return (u64)ms->longLongIntReturnValue();
    case 6: return (u64)ms->unsignedLongLongIntReturnValue();
    case 7: return (u64)ms->stringReturnValue();
    case 8: return dbits(ms->doubleReturnValue());
    case 9: return (u64)ms->pointerReturnValue();
    case 10: return (u64)ms->constPointerReturnValue();
    default: return (u64)ms->functionPointerReturnValue();
    }
}
u64 h_get_or_default(int table, int g, u64 def, double ddef)
{
    if (table == 0) switch (g) {
    case 0: return (u64)(long long)ac->returnBoolValueOrDefault((int)def);
    case 1: return (u64)(long long)ac->returnIntValueOrDefault((int)def);
    case 2: return (u64)ac->returnUnsignedIntValueOrDefault((unsigned int)def);
    case 3: return (u64)(long long)ac->returnLongIntValueOrDefault((long int)def);
    case 4: return (u64)ac->returnUnsignedLongIntValueOrDefault((unsigned long int)def);
    case 5: return (u64)ac->returnLongLongIntValueOrDefault((long long)def);
    case 6: return (u64)ac->returnUnsignedLongLongIntValueOrDefault((unsigned long long)def);
    case 7: return (u64)ac->returnStringValueOrDefault((const char*)def);
    case 8: return dbits(ac->returnDoubleValueOrDefault(ddef));
    case 9: return (u64)ac->returnPointerValueOrDefault((void*)def);
    case 10: return (u64)ac->returnConstPointerValueOrDefault((const void*)def);
    default: return (u64)ac->returnFunctionPointerValueOrDefault((fptr_t)def);
    }
    switch (g) {
    case 0: return (u64)(long long)ms->returnBoolValueOrDefault((int)def);
    case 1: return (u64)(long long)ms->returnIntValueOrDefault((int)def);
    case 2: return (u64)ms->returnUnsignedIntValueOrDefault((unsigned int)def);
    case 3: return (u64)(long long)ms->returnLongIntValueOrDefault((long int)def);
    case 4: return (u64)ms->returnUnsignedLongIntValueOrDefault((unsigned long int)def);
    case 5: return (u64)ms->returnLongLongIntValueOrDefault((long long)def);
    case 6: return (u64)ms->returnUnsignedLongLongIntValueOrDefault((unsigned long long)def);
    case 7: return (u64)ms->returnStringValueOrDefault((const char*)def);
    case 8: return dbits(ms->returnDoubleValueOrDefault(ddef));
    case 9: return (u64)ms->returnPointerValueOrDefault((void*)def);
    case 10: return (u64)ms->returnConstPointerValueOrDefault((const void*)def);
    default: return (u64)ms->returnFunctionPointerValueOrDefault((fptr_t)def);
    }
}
// the SAME question asked through the C++ interface on the same objects:
// level 0 = the MockActualCall (mock("d").actualCall(..).returnXValue...), 1 = the MockSupport (mock("d").xReturnValue...)
u64 h_cpp_get_or_default(int level, int g, u64 def, double ddef)
{
    MockActualCall& c = actA; MockSupport& s = sup;
    if (level == 0) switch (g) {
    case 0: return c.returnBoolValueOrDefault((int)def != 0) ? 1 : 0;
    case 1: return (u64)(long long)c.returnIntValueOrDefault((int)def);
    case 2: return (u64)c.returnUnsignedIntValueOrDefault((unsigned int)def);
    case 3: return (u64)(long long)c.returnLongIntValueOrDefault((long int)def);
    case 4: return (u64)c.returnUnsignedLongIntValueOrDefault((unsigned long int)def);
    case 5: return (u64)c.returnLongLongIntValueOrDefault((long long)def);
    case 6: return (u64)c.returnUnsignedLongLongIntValueOrDefault((unsigned long long)def);
    case 7: return (u64)c.returnStringValueOrDefault((const char*)def);
    case 8: return dbits(c.returnDoubleValueOrDefault(ddef));
    case 9: return (u64)c.returnPointerValueOrDefault((void*)def);
    case 10: return (u64)c.returnConstPointerValueOrDefault((const void*)def);
    default: return (u64)c.returnFunctionPointerValueOrDefault((fptr_t)def);
    }
    switch (g) {
    case 0: return s.returnBoolValueOrDefault((int)def != 0) ? 1 : 0;
    case 1: return (u64)(long long)s.returnIntValueOrDefault((int)def);
    case 2: return (u64)s.returnUnsignedIntValueOrDefault((unsigned int)def);
    case 3: return (u64)(long long)s.returnLongIntValueOrDefault((long int)def);
    case 4: return (u64)s.returnUnsignedLongIntValueOrDefault((unsigned long int)def);
    case 5: return (u64)s.returnLongLongIntValueOrDefault((long long)def);
    case 6: return (u64)s.returnUnsignedLongLongIntValueOrDefault((unsigned long long)def);
    case 7: return (u64)s.returnStringValueOrDefault((const char*)def);
    case 8: return dbits(s.returnDoubleValueOrDefault(ddef));
    case 9: return (u64)s.returnPointerValueOrDefault((void*)def);
    case 10: return (u64)s.returnConstPointerValueOrDefault((const void*)def);
    default: return (u64)s.returnFunctionPointerValueOrDefault((fptr_t)def);
    }
}
// the value part of MockSupport_c is the same set of forwarders as in MockActualCall_c: number of members that differ
int h_shared_members_differ(void)
{
    int bad = 0;
#define SH(m) bad += (ms->m != ac->m) ? 1 : 0
    SH(hasReturnValue); SH(returnValue);
    SH(boolReturnValue); SH(returnBoolValueOrDefault); SH(intReturnValue); SH(returnIntValueOrDefault);
    SH(unsignedIntReturnValue); SH(returnUnsignedIntValueOrDefault); SH(longIntReturnValue); SH(returnLongIntValueOrDefault);
    SH(unsignedLongIntReturnValue); SH(returnUnsignedLongIntValueOrDefault); SH(longLongIntReturnValue); SH(returnLongLongIntValueOrDefault);
    SH(unsignedLongLongIntReturnValue); SH(returnUnsignedLongLongIntValueOrDefault); SH(stringReturnValue); SH(returnStringValueOrDefault);
    SH(doubleReturnValue); SH(returnDoubleValueOrDefault); SH(pointerReturnValue); SH(returnPointerValueOrDefault);
    SH(constPointerReturnValue); SH(returnConstPointerValueOrDefault); SH(functionPointerReturnValue); SH(returnFunctionPointerValueOrDefault);
#undef SH
    return bad;
}
void h_set_ignored(int on) { ignoredMode = on; }
// mock("d").xReturnValue(): the plain typed getters of the C++ MockSupport (real code) on the same state
u64 h_cpp_support_get(int g)
{
    MockSupport& s = sup;
    switch (g) {
    case 0: return s.boolReturnValue() ? 1 : 0;
    case 1: return (u64)(long long)s.intReturnValue();
    case 2: return (u64)s.unsignedIntReturnValue();
    case 3: return (u64)(long long)s.longIntReturnValue();
    case 4: return (u64)s.unsignedLongIntReturnValue();
    case 5: return (u64)s.longLongIntReturnValue();
    case 6: return (u64)s.unsignedLongLongIntReturnValue();
    case 7: return (u64)s.stringReturnValue();
    case 8: return dbits(s.doubleReturnValue());
    case 9: return (u64)s.pointerReturnValue();
    case 10: return (u64)s.constPointerReturnValue();
    default: return (u64)s.functionPointerReturnValue();
    }
}
int h_has_return_value(int table) { return table == 0 ? ac->hasReturnValue() : ms->hasReturnValue(); }
void h_return_value(int table) { mv = table == 0 ? ac->returnValue() : ms->returnValue(); }
int h_mv_type(void) { return (int)mv.type; }
// member m of the union, in the order of the declaration in MockSupport_c.h
u64 h_mv_member(int m)
{
    switch (m) {
    case 0: return (u64)(long long)mv.value.boolValue;
    case 1: return (u64)(long long)mv.value.intValue;
    case 2: return (u64)mv.value.unsignedIntValue;
    case 3: return (u64)(long long)mv.value.longIntValue;
    case 4: return (u64)mv.value.unsignedLongIntValue;
    case 5: return (u64)mv.value.longLongIntValue;
    case 6: return (u64)mv.value.unsignedLongLongIntValue;
    case 7: return dbits(mv.value.doubleValue);
    case 8: return (u64)mv.value.stringValue;
    case 9: return (u64)mv.value.pointerValue;
    case 10: return (u64)mv.value.constPointerValue;
    case 11: return (u64)mv.value.functionPointerValue;
    case 12: return (u64)mv.value.memoryBufferValue;
    case 13: return (u64)mv.value.objectValue;
    default: return (u64)mv.value.constObjectValue;
    }
}

// ------------------------------------------------------------------------------ MockSupport_c: control
// C entry points of struct SMockSupport_c that take no value or a count
int h_sup(int kind, const char* name, u64 a, int answer)
{
    callsLeftAnswer = answer;
    switch (kind) {
    case 0: ms->strictOrder(); return 0;
    case 1: ec = 0; ec = VIA(ms, expectOneCall, expectOneCall_c)(name); return ec != 0;
    case 2: ms->expectNoCall(name); return 0;
    case 3: ec = 0; ec = VIA(ms, expectNCalls, expectNCalls_c)((unsigned int)a, name); return ec != 0;
    case 4: ac = 0; ac = VIA(ms, actualCall, actualCall_c)(name); return ac != 0;
    case 5: ms->disable(); return 0;
    case 6: ms->enable(); return 0;
    case 7: ms->ignoreOtherCalls(); return 0;
    case 8: ms->checkExpectations(); return 0;
    case 9: return ms->expectedCallsLeft();
    case 10: ms->clear(); return 0;
    case 11: ms->crashOnFailure((unsigned)a); return 0;
    default: ms->removeAllComparatorsAndCopiers(); return 0;
    }
}
// comparator / copier adaptors: install C callbacks, then use the C++ object the support received
int h_install_comparator(const char* type) { comparatorSeen = 0; ms->installComparator(type, cb_equal, cb_to_string); return comparatorSeen != 0; }
int h_install_copier(const char* type) { copierSeen = 0; ms->installCopier(type, cb_copy); return copierSeen != 0; }
int h_comparator_is_equal(u64 a, u64 b, int answer) { cbEqualAnswer = answer; return comparatorSeen->isEqual((const void*)a, (const void*)b) ? 1 : 0; }
u64 h_comparator_to_string(u64 a, const char* answer) { cbStringAnswer = answer; SimpleString s = comparatorSeen->valueToString((const void*)a); return pack8(s.asCharString()); }
void h_copier_copy(u64 a, u64 b) { copierSeen->copy((void*)a, (const void*)b); }

// ------------------------------------------------------------------------------ data store (real MockSupport code)
// kinds in the order of struct SMockSupport_c: 0 bool 1 int 2 unsigned 3 string 4 double 5 void* 6 const void*
//                                               7 function pointer 8 object 9 const object
void h_c_set_data(int kind, const char* name, const char* type, u64 a, double d)
{
    switch (kind) {
    case 0: ms->setBoolData(name, (int)a); break;
    case 1: ms->setIntData(name, (int)a); break;
    case 2: ms->setUnsignedIntData(name, (unsigned int)a); break;
    case 3: ms->setStringData(name, (const char*)a); break;
    case 4: ms->setDoubleData(name, d); break;
    case 5: ms->setPointerData(name, (void*)a); break;
    case 6: ms->setConstPointerData(name, (const void*)a); break;
    case 7: ms->setFunctionPointerData(name, (fptr_t)a); break;
    case 8: ms->setDataObject(name, type, (void*)a); break;
    default: ms->setDataConstObject(name, type, (const void*)a); break;
    }
}
void h_cpp_set_data(int kind, const char* name, const char* type, u64 a, double d)
{
    MockSupport& s = sup;
    switch (kind) {
    case 0: s.setData(name, a != 0); break;
    case 1: s.setData(name, (int)a); break;
    case 2: s.setData(name, (unsigned int)a); break;
    case 3: s.setData(name, (const char*)a); break;
    case 4: s.setData(name, d); break;
    case 5: s.setData(name, (void*)a); break;
    case 6: s.setData(name, (const void*)a); break;
    case 7: s.setData(name, (fptr_t)a); break;
    case 8: s.setDataObject(name, type, (void*)a); break;
    default: s.setDataConstObject(name, type, (const void*)a); break;
    }
}
// C++ read-back of the store: is there an entry `name` whose type is `type`; its raw value word
static MockNamedValue* peeked;
int h_cpp_peek(const char* name, const char* type)
{
    MockSupport& s = sup;
    if (!s.hasData(name)) return 0;
    peeked = s.data_.getValueByName(name);
    return s.getData(name).getType() == type ? 2 : 1;
}
u64 h_peek_value(int kind)
{
    switch (kind) {
    case 0: return peeked->value_.boolValue_ ? 1 : 0;
    case 1: return (u64)(long long)peeked->value_.intValue_;
    case 2: return (u64)peeked->value_.unsignedIntValue_;
    case 3: return (u64)peeked->value_.stringValue_;
    case 4: return dbits(peeked->value_.doubleValue_.value);
    case 5: return (u64)peeked->value_.pointerValue_;
    case 6: return (u64)peeked->value_.constPointerValue_;
    case 7: return (u64)peeked->value_.functionPointerValue_;
    case 8: return (u64)peeked->value_.objectPointerValue_;
    default: return (u64)peeked->value_.constObjectPointerValue_;
    }
}
void h_c_get_data(const char* name) { mv = ms->getData(name); }

// ------------------------------------------------------------------------------ mock_c() / the C failure reporter
// mock_c() selects the global MockSupport: a strictOrder() through the table must land on mock()
int h_mock_c_global(void)
{
    MockSupport_c* g = mock_c();
    int before = mock().strictOrdering_ ? 1 : 0;
    mock_c()->strictOrder();
    int after = mock().strictOrdering_ ? 1 : 0;
    return (g == ms ? 4 : 0) | (before << 1) | after;
}
// ---- findings, on the REAL engine (global MockSupport, no doubles)
void h_real_select(void) { ms = mock_c(); }      // from here on h_sup / h_get(1, g) address the real global mock
u64 h_real_cpp_disabled_get(int g)               // the C++ twin of: disable(); actualCall("f"); <g>ReturnValue()
{
    mock().disable();
    mock().actualCall("f");
    MockSupport& s = mock();
    switch (g) {
    case 0: return s.boolReturnValue() ? 1 : 0;
    case 1: return (u64)(long long)s.intReturnValue();
    case 7: return (u64)s.stringReturnValue();
    case 8: return dbits(s.doubleReturnValue());
    default: return (u64)s.pointerReturnValue();
    }
}
u64 h_real_cpp_get_without_call(void) { return (u64)(long long)mock().intReturnValue(); }
int h_reporter_seen(void) { return reporterSeen != 0; }
int h_reporter_crash_flag(void) { return reporterSeen->crashOnFailure_ ? 1 : 0; }
void h_mark_test_failed(void) { shell_->hasFailed_ = true; }
int h_test_has_failed(void) { return shell_->hasFailed() ? 1 : 0; }
// fail the current test through the reporter the C interface installed
void h_reporter_fail(void)
{
    MockFailure failure(shell_);
    reporterSeen->failTest(failure);
}
}
