/* C20: the TeamCity output is a balanced, correctly escaped service-message stream.
 *
 * The oracle is a READER written from the TeamCity service-message rules, not a second writer:
 *   - a message is one line   ##teamcity[<messageName> <attr>='<value>' <attr>='<value>' ...]
 *   - inside a value  |' |[ |] || |n |r  stand for  ' [ ] | LF CR ; a raw ' ends the value ;
 *     a raw [ ] LF CR, or | followed by anything else, is not a legal value
 *   - any other line is plain build-log text.
 * The reader walks the captured byte stream once, hands every complete message to a checker that keeps the
 * suite/test nesting state and compares every decoded value with the original text of the run.
 * The run itself is produced by the real TestRegistry::runAllTests over scripted shells (w20.cpp). */
#define ENV_CUSTOM_FILE
#define ENV_CUSTOM_VSNPRINTF
#include "env.c"
#include "translated.h"

#define MAXT 3          /* tests per run (each harness fixes its own number <= MAXT) */
#define SLEN 2          /* symbolic bytes per text field (the finding demonstrations below spell out inputs for 2) */
#define LINEMASK 63     /* line numbers 0..63 */

/* ---------------------------------------------------------------- capture of the output seam
 * Every byte written through PlatformSpecificFPuts is handed, in order, to the stream reader below (the reader is a
 * one-pass automaton, so the stream needs no buffer); the escape round trip keeps its few bytes in small[]. */
#define SMALL_CAP 16
static uint8_t small[SMALL_CAP];
static uint64_t out_len;
static uint32_t to_reader;
NATIVE_ONLY(static uint64_t stream_hash = 0xcbf29ce484222325ULL;)
static void reader_step(uint8_t c);
static void reader_flush(void);
static void put_byte(uint8_t c) {
  if (to_reader) reader_step(c);
  else if (out_len < SMALL_CAP) small[out_len] = c;
  NATIVE_ONLY(stream_hash = (stream_hash ^ c) * 0x100000001b3ULL;)
  out_len++;
}
uint32_t env_files_opened, env_files_closed;
uint8_t* env_fopen(uint8_t* name, uint8_t* flag) { (void)name; (void)flag; env_files_opened++; return (uint8_t*)(uintptr_t)(0x100 + env_files_opened); }
void env_fputs(uint8_t* s, uint8_t* f) {
  (void)f;
#ifdef LL2C_CBMC
  /* same meaning as the plain loop below; split only so that the two kinds of loop get their own unwinding bound:
   * a string literal / stack buffer ends inside its object (checked), a heap string is as long as the longest SimpleString */
  if (!__CPROVER_DYNAMIC_OBJECT(s)) {
    uint64_t room = (uint64_t)__CPROVER_OBJECT_SIZE(s) - (uint64_t)__CPROVER_POINTER_OFFSET(s), i = 0;
    for (; i < room && s[i]; i++) put_byte(s[i]);
    ENV_ENGINE_ASSERT(i < room, "string handed to fputs is not terminated inside its object");
  } else
#endif
  for (uint64_t i = 0; s[i]; i++) put_byte(s[i]);
  if (to_reader) reader_flush();
}
void env_fclose(uint8_t* f) { (void)f; env_files_closed++; }
void env_flush(void) {}

/* ---------------------------------------------------------------- vsnprintf model
 * env.c's faithful directive model, except that decimal digits are produced by comparisons instead of
 * division (division circuits on symbolic words are out of the solver's reach): numbers up to 99 only,
 * anything larger is an ENGINE error (= bound too small), never silently wrong. */
static void f_put(uint8_t* s, uint64_t n, uint64_t* pos, uint8_t c) { if (*pos + 1 < n) s[*pos] = c; (*pos)++; }
static unsigned tens_of(uint64_t u) { return (unsigned)((u >= 10) + (u >= 20) + (u >= 30) + (u >= 40) + (u >= 50) + (u >= 60) + (u >= 70) + (u >= 80) + (u >= 90)); }
uint32_t env_vsnprintf(uint8_t* s, uint64_t n, uint8_t* f, uint8_t* va) {
  va_list* ap = (va_list*)va;
  uint64_t pos = 0;
  for (; *f; f++) {
    if (*f != '%') { f_put(s, n, &pos, *f); continue; }
    f++;
    int zero = 0, width = 0, lng = 0;
    if (*f == '0') { zero = 1; f++; }
    while (*f >= '0' && *f <= '9') { width = width * 10 + (*f - '0'); f++; }
    for (;; f++) { if (*f == 'l') lng++; else if (*f == 'z') lng = 1; else break; }
    uint8_t c = *f;
    if (c == 's') { const uint8_t* a = va_arg(*ap, const uint8_t*); for (uint64_t i = 0; a[i]; i++) f_put(s, n, &pos, a[i]); continue; }
    if (c == 'd' || c == 'u') {
      uint64_t u;
      if (c == 'd') { int64_t v = lng >= 1 ? va_arg(*ap, int64_t) : (int64_t)va_arg(*ap, int); ENV_ENGINE_ASSERT(v >= 0, "vsnprintf model: negative number"); u = (uint64_t)v; }
      else u = lng >= 1 ? va_arg(*ap, uint64_t) : (uint64_t)va_arg(*ap, unsigned);
      ENV_ENGINE_ASSERT(u < 100, "vsnprintf model: number above 99 (bound too small)");
      unsigned t = tens_of(u), o = (unsigned)(u - 10 * t);
      int len = t ? 2 : 1;
      for (int i = len; i < width; i++) f_put(s, n, &pos, zero ? '0' : ' ');
      if (t) f_put(s, n, &pos, (uint8_t)('0' + t));
      f_put(s, n, &pos, (uint8_t)('0' + o));
      continue;
    }
    ENV_ENGINE_ASSERT(0, "vsnprintf model: unsupported directive");
  }
  if (n) s[pos < n ? pos : n - 1] = 0;
  return (uint32_t)pos;
}

/* ---------------------------------------------------------------- texts
 * A text of up to 32 bytes is kept packed in four 64-bit words plus its length (one equality test instead of a loop).
 * Harness state lives in separate small objects on purpose: the symbolic execution pays for every access to a big struct. */
#define TXT_CAP 32
struct txt { uint64_t w[4]; uint32_t n; };          /* n == TXT_CAP + 1: longer than the capacity */
static void txt_add(struct txt* t, uint8_t c) {
  if (t->n < TXT_CAP) { t->w[t->n >> 3] |= (uint64_t)c << ((t->n & 7) * 8); t->n++; } else t->n = TXT_CAP + 1;
}
static void txt_clear(struct txt* t) { t->w[0] = t->w[1] = t->w[2] = t->w[3] = 0; t->n = 0; }
static int txt_eq(const struct txt* a, const struct txt* b) { return a->n == b->n && a->w[0] == b->w[0] && a->w[1] == b->w[1] && a->w[2] == b->w[2] && a->w[3] == b->w[3]; }
static void txt_cat(struct txt* t, const uint8_t* s, uint32_t cap) { for (uint32_t i = 0; i < cap && s[i]; i++) txt_add(t, s[i]); }
static void txt_cat_dec(struct txt* t, uint32_t v) { unsigned d = tens_of(v); if (d) txt_add(t, (uint8_t)('0' + d)); txt_add(t, (uint8_t)('0' + (v - 10 * d))); }   /* v < 100 */

/* ---------------------------------------------------------------- the run as the harness set it up (the originals) */
#define FCAP (SLEN + 1)
static uint32_t NT;                                  /* number of tests of this run */
static uint32_t t_ignored[MAXT], t_fails[MAXT], t_line[MAXT], t_fline[MAXT];
static uint32_t t_filtered[MAXT], xi[MAXT], NX;   /* tests filtered out of the run; xi[k] = index of the k-th test that does run */
struct fld { uint8_t s[FCAP]; };                    /* (no two-dimensional arrays: CBMC 6.11 misreads rows of a uint8_t[][] through a pointer) */
static struct fld t_group[MAXT], t_name[MAXT], t_file[MAXT], t_ffile[MAXT], t_fmsg[MAXT];
static struct txt t_group_t[MAXT], t_name_t[MAXT], t_fmsg_t[MAXT], t_location_t[MAXT];     /* the texts a reader of the stream must get back */

static uint64_t t_len(const uint8_t* s) { uint64_t n = 0; while (s[n]) n++; return n; }
static int t_eq(const uint8_t* a, const uint8_t* b) { uint64_t i = 0; while (a[i] && a[i] == b[i]) i++; return a[i] == b[i]; }
static int t_is_meta(uint8_t c) { return c == '\'' || c == '|' || c == '[' || c == ']' || c == '\n' || c == '\r'; }
static int t_has_meta(const uint8_t* s) { for (uint64_t i = 0; s[i]; i++) if (t_is_meta(s[i])) return 1; return 0; }

/* ---------------------------------------------------------------- service-message reader */
enum { W_NONE, K_SUITE_START, K_SUITE_FINISH, K_TEST_START, K_TEST_FINISH, K_TEST_IGNORED, K_TEST_FAILED, A_NAME, A_MESSAGE, A_DETAILS, A_DURATION };
#define NWORDS 10
static const char* const WORDS[NWORDS] = {"testSuiteStarted", "testSuiteFinished", "testStarted", "testFinished", "testIgnored", "testFailed", "name", "message", "details", "duration"};
/* a token (letters only, at most 20) is kept as two base-64 numbers plus its length: exact, no two tokens share a code */
static uint64_t tok_code(uint64_t acc, uint8_t c) { return (acc << 6) | (uint64_t)(c - 'A' + 1); }      /* letters 'A'..'z' -> 1..58 */
static uint64_t W_a[NWORDS], W_b[NWORDS]; static uint32_t W_n[NWORDS];
static void words_init(void) {
  for (int j = 0; j < NWORDS; j++) {
    uint64_t a = 0, b = 0; uint32_t n = 0;
    for (; WORDS[j][n]; n++) { if (n < 10) a = tok_code(a, (uint8_t)WORDS[j][n]); else b = tok_code(b, (uint8_t)WORDS[j][n]); }
    W_a[j] = a; W_b[j] = b; W_n[j] = n;
  }
}

/* The reader is a table-driven automaton over character classes (it runs once per written byte under symbolic
 * execution, so it is written with a transition table and a few guarded actions instead of nested branches).
 *
 *   state      on class -> next state / action                                        anything else
 *   BOL        NL -> BOL ; '#' -> PREFIX (first prefix character)                       -> TEXT
 *   PREFIX     next character of "##teamcity[" -> PREFIX, after the last one MSGNAME    -> TEXT (plain line)
 *   TEXT       NL -> BOL                                                                -> TEXT
 *   MSGNAME    letter -> MSGNAME (token) ; ' ' -> ATTR (name ends) ; ']' -> CLOSE        malformed
 *   ATTR       letter -> ATTR (token) ; '=' -> QUOTE (attribute name ends)               malformed
 *   QUOTE      ' -> VALUE                                                               malformed
 *   VALUE      ' -> AFTER (value ends) ; | -> ESC ; [ ] LF CR -> malformed               -> VALUE (character taken as is)
 *   ESC        ' | [ ] -> VALUE (that character) ; n r -> VALUE (LF, CR)                 malformed
 *   AFTER      ' ' -> ATTR ; ']' -> CLOSE                                               malformed
 *   CLOSE      NL -> BOL (message complete)                                             malformed
 * malformed: flag it and treat the rest of the line as plain text; after a line feed the reader is always in BOL. */
enum { S_BOL, S_PREFIX, S_TEXT, S_MSGNAME, S_ATTR, S_QUOTE, S_VALUE, S_ESC, S_AFTER, S_CLOSE, NSTATES };
enum { C_NL, C_CR, C_SP, C_EQ, C_QUOTE, C_BAR, C_LB, C_RB, C_HASH, C_LETTER, C_OTHER, NCLASSES };
enum { A_NONE, A_BAD, A_PREFIX_FIRST, A_TOK, A_NAME_END, A_ATTR_END, A_EMIT, A_EMIT_LETTER, A_VAL_END, A_TOK_BEGIN, A_DELIVER, A_PREFIX_NEXT, A_MSG_BEGIN };
#define GO(state, action) ((uint8_t)((action) << 4 | (state)))
#define BAD GO(S_TEXT, A_BAD)
#define TXT GO(S_TEXT, A_NONE)
#define VAL GO(S_VALUE, A_EMIT)
static const uint8_t TABLE[NSTATES * NCLASSES] = {
  /*              NL                     CR    SP                       EQ                       QUOTE                    BAR                 LB   RB                       HASH                          LETTER                       OTHER */
  /* BOL     */   GO(S_BOL, A_NONE),     TXT,  TXT,                     TXT,                     TXT,                     TXT,                TXT, TXT,                     GO(S_PREFIX, A_PREFIX_FIRST), TXT,                         TXT,  
  /* PREFIX  */   GO(S_BOL, A_NONE),     TXT,  TXT,                     TXT,                     TXT,                     TXT,                TXT, TXT,                     TXT,                          TXT,                         TXT,     /* (a matching prefix character is handled before the table) */
  /* TEXT    */   GO(S_BOL, A_NONE),     TXT,  TXT,                     TXT,                     TXT,                     TXT,                TXT, TXT,                     TXT,                          TXT,                         TXT,  
  /* MSGNAME */   BAD,                   BAD,  GO(S_ATTR, A_NAME_END),  BAD,                     BAD,                     BAD,                BAD, GO(S_CLOSE, A_NAME_END), BAD,                          GO(S_MSGNAME, A_TOK),        BAD,  
  /* ATTR    */   BAD,                   BAD,  BAD,                     GO(S_QUOTE, A_ATTR_END), BAD,                     BAD,                BAD, BAD,                     BAD,                          GO(S_ATTR, A_TOK),           BAD,  
  /* QUOTE   */   BAD,                   BAD,  BAD,                     BAD,                     GO(S_VALUE, A_NONE),     BAD,                BAD, BAD,                     BAD,                          BAD,                         BAD,  
  /* VALUE   */   BAD,                   BAD,  VAL,                     VAL,                     GO(S_AFTER, A_VAL_END),  GO(S_ESC, A_NONE),  BAD, BAD,                     VAL,                          VAL,                         VAL,  
  /* ESC     */   BAD,                   BAD,  BAD,                     BAD,                     VAL,                     VAL,                VAL, VAL,                     BAD,                          GO(S_VALUE, A_EMIT_LETTER),  BAD,  
  /* AFTER   */   BAD,                   BAD,  GO(S_ATTR, A_TOK_BEGIN), BAD,                     BAD,                     BAD,                BAD, GO(S_CLOSE, A_NONE),     BAD,                          BAD,                         BAD,  
  /* CLOSE   */   GO(S_BOL, A_DELIVER),  BAD,  BAD,                     BAD,                     BAD,                     BAD,                BAD, BAD,                     BAD,                          BAD,                         BAD,  
};
/* the message being read: its name, and per attribute its name and decoded value */
static uint32_t R_state, R_k, R_nattr, R_kind, R_attr0, R_attr1, R_attr2, R_malformed, R_pending, R_lost;
static uint64_t R_ta, R_tb; static uint32_t R_tn;           /* the token being read */
static struct txt R_cur, R_val0, R_val1, R_val2;
static uint32_t word_of_token(void) { uint32_t r = W_NONE; for (uint32_t j = 0; j < NWORDS; j++) r = (R_ta == W_a[j] && R_tb == W_b[j] && R_tn == W_n[j]) ? j + 1 : r; return r; }
static const char PREFIX[] = "##teamcity[";
static void on_message(void);

static uint32_t class_of(uint8_t c) {
  return c == '\n' ? C_NL : c == '\r' ? C_CR : c == ' ' ? C_SP : c == '=' ? C_EQ : c == '\'' ? C_QUOTE : c == '|' ? C_BAR : c == '[' ? C_LB : c == ']' ? C_RB : c == '#' ? C_HASH
       : ((c >= 'a' && c <= 'z') || (c >= 'A' && c <= 'Z')) ? C_LETTER : C_OTHER;
}
static void reader_step(uint8_t c) {
  uint32_t s = R_state < NSTATES ? R_state : S_TEXT, cls = class_of(c);
  uint32_t e = (s == S_PREFIX && c == (uint8_t)PREFIX[R_k < 11 ? R_k : 0]) ? (R_k == 10 ? GO(S_MSGNAME, A_MSG_BEGIN) : GO(S_PREFIX, A_PREFIX_NEXT)) : TABLE[s * NCLASSES + cls];
  uint32_t act = e >> 4, ns = e & 15;
  uint32_t w = W_NONE;
  uint8_t d = c;
  /* side conditions of the actions */
  if ((act == A_NAME_END || act == A_ATTR_END) && R_tn == 0) act = A_BAD;                      /* empty name */
  if ((act == A_ATTR_END || (act == A_TOK && s == S_ATTR)) && R_nattr >= 3) act = A_BAD;        /* more attributes than any message of this vocabulary has */
  if (act == A_EMIT_LETTER) { if (c == 'n') d = '\n'; else if (c == 'r') d = '\r'; else act = A_BAD; }
  if (act == A_BAD) { R_malformed = 1; ns = S_TEXT; }
  if (cls == C_NL) ns = S_BOL;                        /* whatever happened on this line, the next one starts afresh */
  /* actions */
  if (act == A_PREFIX_FIRST) R_k = 1;
  if (act == A_PREFIX_NEXT || act == A_MSG_BEGIN) R_k++;
  if (act == A_MSG_BEGIN) R_nattr = 0;
  if (act == A_TOK) { if (R_tn < 10) R_ta = tok_code(R_ta, c); else if (R_tn < 20) R_tb = tok_code(R_tb, c); if (R_tn < 21) R_tn++; }      /* 21 letters: longer than any word */
  if (act == A_NAME_END || act == A_ATTR_END) w = word_of_token();
  if (act == A_NAME_END) R_kind = w;
  if (act == A_ATTR_END) { if (R_nattr == 0) R_attr0 = w; else if (R_nattr == 1) R_attr1 = w; else R_attr2 = w; R_cur.w[0] = R_cur.w[1] = R_cur.w[2] = R_cur.w[3] = 0; R_cur.n = 0; }
  if (act == A_MSG_BEGIN || act == A_NAME_END || act == A_TOK_BEGIN) { R_ta = R_tb = 0; R_tn = 0; }
  if (act == A_EMIT || act == A_EMIT_LETTER) { if (R_cur.n < TXT_CAP) { R_cur.w[R_cur.n >> 3] |= (uint64_t)d << ((R_cur.n & 7) * 8); R_cur.n++; } else R_cur.n = TXT_CAP + 1; }    /* = txt_add(&R_cur, d) */
  if (act == A_VAL_END) { if (R_nattr == 0) R_val0 = R_cur; else if (R_nattr == 1) R_val1 = R_cur; else R_val2 = R_cur; R_nattr++; }
  if (act == A_DELIVER) { if (R_pending) R_lost = 1; R_pending = 1; }
  R_state = ns;
}
/* a complete message is handed to the checker at the end of the write that completed it */
static void reader_flush(void) { if (R_pending) on_message(); R_pending = 0; }

/* ---------------------------------------------------------------- checker: nesting state + decoded values against the originals */
static uint32_t C_suite_open, C_test_open, C_ti, C_suites_started, C_suites_finished, C_ignored_seen, C_failed_seen, C_bad_structure, C_bad_value, C_too_long;
static struct txt C_sname, C_tname;
static void on_message(void) {
  uint32_t n = R_nattr;
  int named = n >= 1 && R_attr0 == A_NAME;
  if ((n >= 1 && R_val0.n > TXT_CAP) || (n >= 2 && R_val1.n > TXT_CAP) || (n >= 3 && R_val2.n > TXT_CAP)) C_too_long = 1;
  switch (R_kind) {
    case K_SUITE_START:
      if (C_suite_open || C_test_open || !named || n != 1) C_bad_structure = 1;
      C_suite_open = 1; C_suites_started++; C_sname = R_val0;
      break;
    case K_SUITE_FINISH:
      if (!C_suite_open || C_test_open || !named || n != 1 || !txt_eq(&R_val0, &C_sname)) C_bad_structure = 1;
      C_suite_open = 0; C_suites_finished++;
      break;
    case K_TEST_START:
      if (!C_suite_open || C_test_open || !named || n != 1) C_bad_structure = 1;
      C_test_open = 1; C_ignored_seen = 0; C_failed_seen = 0; C_tname = R_val0;
      break;
    case K_TEST_IGNORED:
      if (!C_test_open || !named || n != 1 || !txt_eq(&R_val0, &C_tname)) C_bad_structure = 1;
      C_ignored_seen++;
      break;
    case K_TEST_FAILED:
      if (!C_test_open || !named || n != 3 || R_attr1 != A_MESSAGE || R_attr2 != A_DETAILS || !txt_eq(&R_val0, &C_tname)) C_bad_structure = 1;
      C_failed_seen++;
      for (uint32_t i = 0; i < MAXT; i++) if (C_ti < NX && i == xi[C_ti] && n == 3) {
        if (!txt_eq(&R_val1, &t_location_t[i])) C_bad_value = 1;          /* where it failed */
        if (!txt_eq(&R_val2, &t_fmsg_t[i])) C_bad_value = 1;              /* the failure message */
      }
      break;
    case K_TEST_FINISH:
      if (!C_test_open || !named || n != 2 || R_attr1 != A_DURATION || !txt_eq(&R_val0, &C_tname)) C_bad_structure = 1;
      C_test_open = 0;
      if (C_ti >= NX) C_bad_structure = 1;                                                         /* more tests than the run has */
      for (uint32_t i = 0; i < MAXT; i++) if (C_ti < NX && i == xi[C_ti]) {
        if (!txt_eq(&C_tname, &t_name_t[i]) || !txt_eq(&C_sname, &t_group_t[i])) C_bad_value = 1;   /* names decode to the originals */
        if (C_ignored_seen != t_ignored[i]) C_bad_structure = 1;                                  /* flagged ignored iff ignored */
        if (C_failed_seen != t_fails[i]) C_bad_structure = 1;                                     /* one failure message iff it failed */
        if (n == 2 && !(R_val1.n == 1 && R_val1.w[0] == '0')) C_bad_value = 1;                    /* time model: the clock stands still */
      }
      C_ti++;
      break;
    default:
      C_bad_structure = 1;
      break;
  }
}

/* ---------------------------------------------------------------- inputs */
/* text fields: SLEN bytes each drawn from an alphabet that contains every TeamCity meta character, NUL (so the
 * length varies 0..SLEN) and one ordinary character */
static const uint8_t ALPHA[8] = {0, 'a', '\'', '|', '[', ']', '\n', '\r'};
#define FIELD(dst, raw, off) do { for (int i_ = 0; i_ < SLEN; i_++) (dst)[i_] = ALPHA[(raw)[(off) + i_] & 7]; (dst)[SLEN] = 0; } while (0)

/* H1: printEscaped round trip over the full byte range */
#ifndef ESCLEN
#define ESCLEN 4
#endif
HARNESS(harness_escape_roundtrip) {
  h_init();
  IN_ARR_U8(s, ESCLEN + 1); s[ESCLEN] = 0;
  h_escaped(s);
  /* decode the captured bytes as the body of a value */
  uint8_t dec[ESCLEN + 1]; uint64_t n = 0; int esc = 0, illegal = 0;
  CHECK(out_len <= 2 * ESCLEN, "an escaped character takes at most two bytes");
  for (uint64_t p = 0; p < out_len && p < 2 * ESCLEN; p++) {
    uint8_t c = small[p];
    if (esc) {
      esc = 0;
      uint8_t d = c;
      if (c == 'n') d = '\n'; else if (c == 'r') d = '\r'; else if (!(c == '\'' || c == '|' || c == '[' || c == ']')) illegal = 1;
      if (n < ESCLEN) dec[n] = d;
      n++;
    } else if (c == '|') esc = 1;
    else if (c == '\'' || c == '[' || c == ']' || c == '\n' || c == '\r') illegal = 1;
    else { if (n < ESCLEN) dec[n] = c;
           n++; }
  }
  OBSERVE(out_len);
  CHECK(!illegal && !esc, "an escaped value contains no raw ' [ ] | or line break and no dangling |");
  uint64_t l = t_len(s);
  CHECK(n == l, "decoding the escaped text gives back as many characters as the original has");
  for (uint64_t i = 0; i < ESCLEN; i++) if (i < l && i < n) CHECK(dec[i] == s[i], "decoding the escaped text by the TeamCity rules returns the original text");
  WITNESS("end");
}

/* H2: whole stream of a run of n tests */
static void set_up_run(const int n, const uint8_t* raw, const uint8_t* lines, const uint8_t* kinds) {
  NT = (uint32_t)n;
  for (int i = 0; i < n; i++) {
    const uint8_t* r = raw + i * 5 * SLEN;
    FIELD(t_group[i].s, r, 0); FIELD(t_name[i].s, r, SLEN); FIELD(t_file[i].s, r, 2 * SLEN); FIELD(t_ffile[i].s, r, 3 * SLEN); FIELD(t_fmsg[i].s, r, 4 * SLEN);
    t_line[i] = lines[2 * i] & LINEMASK; t_fline[i] = lines[2 * i + 1] & LINEMASK;
    t_ignored[i] = kinds[i] == 2; t_fails[i] = kinds[i] == 1; t_filtered[i] = kinds[i] == 3;   /* 0 pass, 1 fail, 2 ignored, 3 filtered out by a name filter */
    txt_clear(&t_group_t[i]); txt_cat(&t_group_t[i], t_group[i].s, SLEN);
    txt_clear(&t_name_t[i]); txt_cat(&t_name_t[i], t_name[i].s, SLEN);
    txt_clear(&t_fmsg_t[i]); txt_cat(&t_fmsg_t[i], t_fmsg[i].s, SLEN);
    /* the location text of a failure: "<file>:<line>", preceded by "TEST failed (<test file>:<test line>): " when the
     * failing check is not inside the test's own body (another file, or a line before the test) */
    struct txt* l = &t_location_t[i];
    txt_clear(l);
    if (!t_eq(t_file[i].s, t_ffile[i].s) || t_fline[i] < t_line[i]) {
      txt_cat(l, (const uint8_t*)"TEST failed (", 13); txt_cat(l, t_file[i].s, SLEN); txt_add(l, ':'); txt_cat_dec(l, t_line[i]); txt_cat(l, (const uint8_t*)"): ", 3);
    }
    txt_cat(l, t_ffile[i].s, SLEN); txt_add(l, ':'); txt_cat_dec(l, t_fline[i]);
  }
}
static void drive_and_check(const int n) {
  uint32_t groups = 0;
  NX = 0;
  for (int i = 0; i < n; i++) if (!t_filtered[i]) xi[NX++] = (uint32_t)i;
  for (int i = 0; i < n; i++) {
    h_set_test((uint32_t)i, t_ignored[i], t_group[i].s, t_name[i].s, t_file[i].s, t_line[i]);
    if (t_fails[i]) h_set_failure((uint32_t)i, t_ffile[i].s, t_fline[i], t_fmsg[i].s);
    if (t_filtered[i]) h_filter_out((uint32_t)i);
    if (i == 0 || !t_eq(t_group[i - 1].s, t_group[i].s)) groups++;       /* a group = maximal run of consecutive tests of one group name */
  }
  to_reader = 1; R_state = S_BOL; words_init();
  h_run((uint32_t)n);
  reader_flush();
  OBSERVE(out_len);
  NATIVE_ONLY(OBSERVE(stream_hash);)
  ENV_ENGINE_ASSERT(!R_lost, "two messages completed inside one write (reader model too small)");
  ENV_ENGINE_ASSERT(!C_too_long || R_malformed, "a decoded value is longer than TXT_CAP (bound too small)");
  CHECK(!R_malformed, "every service message is well formed: no value ends early, no raw ' [ ] | or line break inside a value");
  CHECK(R_state == S_BOL || R_state == S_TEXT, "the stream does not end inside a service message");
  CHECK(!C_bad_structure, "suite and test messages nest: start/finish pair up, ignored flagged iff ignored, a failure names the open test");
  CHECK(!C_bad_value, "every name, location and message value decodes to the original text");
  CHECK(!C_suite_open && !C_test_open, "every started suite and test is finished");
  CHECK(C_ti == NX, "one testStarted/testFinished pair per test of the run that is not filtered out");
  CHECK(C_suites_started == groups && C_suites_finished == groups, "one testSuiteStarted/testSuiteFinished pair per test group");
  WITNESS("end");
}
/* KINDS < 0: pass/fail/ignored symbolic per test; otherwise its base-3 digits give the pattern */
static void body_stream(const int n, const int KINDS) {
  h_init();
  IN_ARR_U8(raw, MAXT * 5 * SLEN); IN_ARR_U8(lines, MAXT * 2); IN_ARR_U8(kinds, MAXT);
  int k = KINDS;
  for (int i = 0; i < n; i++) { if (KINDS < 0) kinds[i] = kinds[i] % 3; else { kinds[i] = (uint8_t)(k % 3); k /= 3; } }
  set_up_run(n, raw, lines, kinds);
  for (int i = 0; i < n; i++) {
#ifdef KF_C20_1   /* known finding: the test's file name inside "TEST failed (...)" is written unescaped */
    if (t_fails[i] && (!t_eq(t_file[i].s, t_ffile[i].s) || t_fline[i] < t_line[i])) ASSUME(!t_has_meta(t_file[i].s));
#endif
#ifdef KF_C20_2   /* known finding: a group with an empty name gets a suite start but no finish */
    ASSUME(t_group[i].s[0] != 0);
#endif
  }
  drive_and_check(n);
}
/* one obligation per pass(0)/fail(1)/ignored(2) pattern: first test = last digit */
HARNESS(harness_stream_1_0) { body_stream(1, 0); }
HARNESS(harness_stream_1_1) { body_stream(1, 1); }
HARNESS(harness_stream_1_2) { body_stream(1, 2); }
#define S2(a, b) HARNESS(harness_stream_2_##a##b) { body_stream(2, a + 3 * b); }
S2(0, 0) S2(0, 1) S2(0, 2) S2(1, 0) S2(1, 1) S2(1, 2) S2(2, 0) S2(2, 1) S2(2, 2)
/* a run with a name filter: the filtered-out test is the last (or only) one of its group */
static void body_filtered(const int n, const int which) {
  h_init();
  IN_ARR_U8(raw, MAXT * 5 * SLEN); IN_ARR_U8(lines, MAXT * 2);
  uint8_t kinds[MAXT] = {0, 0, 0};
  kinds[which] = 3;
  set_up_run(n, raw, lines, kinds);
#ifdef KF_C20_2
  for (int i = 0; i < n; i++) ASSUME(t_group[i].s[0] != 0);
#endif
  drive_and_check(n);
}
HARNESS(harness_filtered_2_last) { body_filtered(2, 1); }
HARNESS(harness_filtered_3_middle) { body_filtered(3, 1); }
HARNESS(harness_stream_3_000) { body_stream(3, 0); }
HARNESS(harness_stream_3_120) { body_stream(3, 1 + 3 * 2); }

/* demonstrations of the two findings (not part of spec.py: they FAIL on the unchanged tree) */
HARNESS(finding_testfile_unescaped) {     /* a check failing in another file than the test's, whose file is named "a'" */
  h_init();
  static const uint8_t raw[5 * SLEN] = {1, 1, 1, 1, 1, 2, 1, 0, 1, 0};      /* group "aa" name "aa" file "a'" failure in "a" message "a" */
  static const uint8_t lines[2] = {7, 9};
  static const uint8_t kinds[1] = {1};
  set_up_run(1, raw, lines, kinds);
  drive_and_check(1);
}
HARNESS(finding_empty_group) {            /* one passing test in a group whose name is empty */
  h_init();
  static const uint8_t raw[5 * SLEN] = {0, 0, 1, 1, 1, 1, 1, 0, 1, 0};
  static const uint8_t lines[2] = {7, 9};
  static const uint8_t kinds[1] = {0};
  set_up_run(1, raw, lines, kinds);
  drive_and_check(1);
}
