US = ['env_fputs.0:40', '_ZN18TeamCityTestOutput12printEscapedEPKc.0:4']
def ob(fn, unwind=34, timeout=240, bounds='', **kw):
    d = {'fn': fn, 'unwind': unwind, 'timeout': timeout, 'bounds': bounds}
    d.update(kw)
    return d
F = ('every text field (group, test name, test file, failing file, failure message) is 0..2 bytes over {a \' | [ ] LF CR}; '
     'test line and failing line any value 0..63 (so inside / outside the test file and helper-function failures are all covered); '
     'pass / fail / ignored symbolic per test; clock model stands still')
SPEC = {
    'property': 'C20',
    'functions_of_interest': ['TeamCityTestOutput', 'TestRegistry11runAllTests', 'TestRegistry10endOfGroup', 'TestResult', 'ConsoleTestOutput'],
    'assumptions': ['the run is produced by the real TestRegistry::runAllTests and TestResult over scripted shells: a scripted shell stands for the execution of the test body and reports one failure through UtestShell::addFailure (what a failing check does)',
                    'the byte stream is captured at the PlatformSpecificFPuts seam and judged by a reader written from the TeamCity service-message rules',
                    'vsnprintf: the directive model of engine/rt/env.c with decimal digits produced by comparison (numbers 0..99; larger is an engine error)',
                    'KF_C20_1 / KF_C20_2 exclude the two findings reported for this property (test file name unescaped inside "TEST failed (...)"; empty group name never finished)'],
    'groups': [{
        'name': 'tc', 'wrapper': 'w20.cpp', 'harness': 'h20.c', 'config': {'heapcheck': False},
        'defines': ['-DKF_C20_1', '-DKF_C20_2'],
        'obligations': [
            ob('harness_escape_roundtrip', unwind=12, bounds='text of <= 4 bytes over the full byte range'),
            ob('harness_stream_1', bounds='1 test; ' + F, unwindset=US),
        ],
    }],
}
