US = ['set_up_run.0:4', 'words_init.0:19', 'words_init.1:19', 'word_of_token.0:12', 'txt_cat.0:15', 'body_stream.0:32', 'body_filtered.0:32', 'body_filtered.1:8', 'body_filtered.2:4', 'drive_and_check.0:4', 'drive_and_check.1:4',
      'env_fputs.0:37',                                      # literals / stack buffers handed to fputs: longest literal has 35 characters
      'env_fputs.1:4',                                       # heap strings handed to fputs: numbers of at most 2 digits (proved by the unwinding assertion)
      '_ZN18TeamCityTestOutput12printEscapedEPKc.0:4']       # escaped texts: at most 2 characters (proved by the unwinding assertion)
def ob(fn, unwind=14, timeout=900, bounds='', **kw):
    d = {'fn': fn, 'unwind': unwind, 'timeout': timeout, 'bounds': bounds, 'unwindset': US, 'diff_runs': 200}
    d.update(kw)
    return d
F = ('every text field (group, test name, test file, failing file, failure message) is 0..2 bytes over {a \' | [ ] LF CR}; '
     'test line and failing line any value 0..63 (failures inside / outside the test file and in helper functions are all covered); '
     'clock model stands still (every duration 0)')
K = ['passes', 'fails one check', 'is ignored']
SPEC = {
    'property': 'C20',
    'functions_of_interest': ['TeamCityTestOutput', 'TestRegistry11runAllTests', 'TestRegistry10endOfGroup', 'TestResult', 'ConsoleTestOutput', 'TestOutput5print'],
    'assumptions': ['the run is produced by the real TestRegistry::runAllTests and TestResult over scripted shells: a scripted shell stands for the execution of the test body and reports one failure through UtestShell::addFailure (what a failing check does); ignored tests are real IgnoredUtestShell objects',
                    'the byte stream is taken at the PlatformSpecificFPuts seam and judged by a one-pass reader written from the TeamCity service-message rules (message syntax, |-escapes), which hands every message to a nesting/value checker',
                    'vsnprintf: the directive model of engine/rt/env.c with decimal digits produced by comparison (numbers 0..99; anything larger is an engine error)',
                    'requested-size red zones (ll2c --heapcheck) are off: SimpleString memory safety is property C13',
                    'open known finding KF-C20-2 (a group with an empty name gets a suite start but no finish) is excluded by -DKF_C20_2 and re-demonstrated by finding_empty_group on every run'],
    'groups': [{
        'name': 'tc', 'wrapper': 'w20.cpp', 'harness': 'h20.c', 'config': {'heapcheck': False},
        'defines': [],   # KF-C20-1 fixed in /repo; the open KF-C20-2 is added by run.py from known_findings.json
        'obligations':
            [ob('harness_escape_roundtrip', unwind=12, timeout=300, unwindset=[], bounds='printEscaped on any text of <= 4 bytes over the full byte range')] +
            [ob('harness_stream_1_%d' % k, bounds='run of 1 test that %s; ' % K[k] + F, **({'solver': 'kissat'} if k == 1 else {})) for k in range(3)] +
            [ob('finding_empty_group', expect='fail', bounds='one passing test in a group named "" (open known finding KF-C20-2)')] +
            [ob('harness_filtered_2_last', tier='quick', bounds='run of 2 passing tests with a name filter that filters the LAST one out (same or different group decided by the symbolic names); ' + F)] +
            [ob('harness_filtered_3_middle', tier='thorough', timeout=3600, bounds='run of 3 passing tests with a name filter that filters the middle one out; ' + F)] +
            [ob('harness_stream_2_00', tier='quick', bounds='run of 2 passing tests (same or different group decided by the symbolic names); ' + F)] +
            [ob('harness_stream_2_%d%d' % (a, b), tier='thorough', timeout=3600, solver='kissat',
                bounds='run of 2 tests (same or different group decided by the symbolic names): the first %s, the second %s; ' % (K[a], K[b]) + F) for a in range(3) for b in range(3) if (a, b) != (0, 0)] +
            [ob('harness_stream_3_%s' % p, tier='thorough', timeout=3600, solver='kissat',
                bounds='run of 3 tests (grouping decided by the symbolic names), pass/fail/ignored pattern %s (first test = last digit); ' % p + F) for p in ('000', '120')],
    }],
}
