// C20 wrapper: a real TeamCityTestOutput behind a real TestResult, driven by the real
// TestRegistry::runAllTests over scripted test shells.  A scripted shell replaces only the
// execution of the test body: it reports what a body would report (run counted, optionally one
// failure through UtestShell::addFailure, exactly what a failing CHECK does before leaving the test).
// printEscaped is private: opened for the harness (layout unaffected).
#define private public
#define protected public
#include "CppUTest/TestHarness.h"
#include "CppUTest/TestRegistry.h"
#include "CppUTest/TestFilter.h"
#include "CppUTest/TestOutput.h"
#include "CppUTest/TeamCityTestOutput.h"
#include "CppUTest/TestResult.h"
#include "CppUTest/TestFailure.h"
#include "CppUTest/PlatformSpecificFunctions.h"

extern "C" {
void h_env_install(void);
}

class ScriptedShell : public UtestShell
{
public:
    int fails_;
    const char* failFile_;
    size_t failLine_;
    const char* failMessage_;
    ScriptedShell() : UtestShell("", "", "", 0), fails_(0), failFile_(""), failLine_(0), failMessage_("") {}
    virtual void runOneTest(TestPlugin*, TestResult& result) CPPUTEST_OVERRIDE
    {
        hasFailed_ = false;
        result.countRun();
        UtestShell::setTestResult(&result);
        UtestShell::setCurrentTest(this);
        if (fails_) {
            TestFailure f(this, failFile_, failLine_, SimpleString(failMessage_));
            addFailure(f);
        }
    }
};

#define MAXT 3
static TeamCityTestOutput* out_;
static TestResult* res_;
static TestRegistry* reg_;
static ScriptedShell* run_;
static IgnoredUtestShell* ign_;
static UtestShell* chosen_[MAXT];

extern "C" {
void h_init(void)
{
    static TeamCityTestOutput out;
    static TestResult result(out);
    static TestRegistry reg;
    static ScriptedShell run[MAXT];
    static IgnoredUtestShell ign[MAXT];
    h_env_install();
    out_ = &out; res_ = &result; reg_ = &reg; run_ = run; ign_ = ign;
}
void h_escaped(const char* s) { out_->printEscaped(s); }

// test #i of the run: TEST(group, name) or IGNORE_TEST(group, name) at file:line
void h_set_test(int i, int ignored, const char* group, const char* name, const char* file, unsigned long line)
{
    UtestShell* t = ignored ? (UtestShell*)&ign_[i] : (UtestShell*)&run_[i];
    t->setGroupName(group); t->setTestName(name); t->setFileName(file); t->setLineNumber(line);
    chosen_[i] = t;
}
// the body of test #i fails one check at file:line with the given message
void h_set_failure(int i, const char* file, unsigned long line, const char* message)
{
    run_[i].fails_ = 1; run_[i].failFile_ = file; run_[i].failLine_ = line; run_[i].failMessage_ = message;
}
// test #i is filtered out of the run by a strict, inverted name filter on its (special) name
void h_filter_out(int i)
{
    static TestFilter f("zz");
    f.strictMatching(); f.invertMatching();
    chosen_[i]->setTestName("zz");
    reg_->setNameFilters(&f);
}
void h_run(int n)
{
    for (int i = n - 1; i >= 0; i--) reg_->addTest(chosen_[i]);      // addTest prepends
    reg_->runAllTests(*res_);
}
}
